//! Monomorphic MIR program reachable from the `root_*` functions of the local crate.

use crate::json::W;
use rustc_data_structures::fx::FxHashMap;
use rustc_hir::def::DefKind;
use rustc_middle::mir::{
    self, AggregateKind, BinOp, CastKind, Const, ConstValue, Operand, Place, ProjectionElem,
    Rvalue, StatementKind, TerminatorKind, UnOp,
};
use rustc_middle::ty::{self, EarlyBinder, Instance, InstanceKind, Ty, TyCtxt, TypingEnv};
use rustc_span::{Span, DUMMY_SP};
use std::panic::{catch_unwind, AssertUnwindSafe};

pub struct Cx<'tcx> {
    pub tcx: TyCtxt<'tcx>,
    pub inst_ids: FxHashMap<Instance<'tcx>, usize>,
    pub insts: Vec<Instance<'tcx>>,
    pub ty_ids: FxHashMap<Ty<'tcx>, usize>,
    pub tys: Vec<Ty<'tcx>>,
}

impl<'tcx> Cx<'tcx> {
    pub fn new(tcx: TyCtxt<'tcx>) -> Self {
        Cx {
            tcx,
            inst_ids: FxHashMap::default(),
            insts: Vec::new(),
            ty_ids: FxHashMap::default(),
            tys: Vec::new(),
        }
    }

    pub fn inst_id(&mut self, i: Instance<'tcx>) -> usize {
        if let Some(&id) = self.inst_ids.get(&i) {
            return id;
        }
        let id = self.insts.len();
        self.insts.push(i);
        self.inst_ids.insert(i, id);
        id
    }

    pub fn ty_id(&mut self, t: Ty<'tcx>) -> usize {
        if let Some(&id) = self.ty_ids.get(&t) {
            return id;
        }
        let id = self.tys.len();
        self.tys.push(t);
        self.ty_ids.insert(t, id);
        id
    }

    pub fn loc(&self, span: Span) -> (String, usize, bool) {
        let exp = span.from_expansion();
        let sp = if exp { span.source_callsite() } else { span };
        if sp.is_dummy() {
            return (String::new(), 0, exp);
        }
        let sm = self.tcx.sess.source_map();
        let l = sm.lookup_char_pos(sp.lo());
        let name = format!("{}", l.file.name.prefer_local_unconditionally());
        (name, l.line, exp)
    }
}

fn env<'tcx>() -> TypingEnv<'tcx> {
    TypingEnv::fully_monomorphized()
}

pub fn dump<'tcx>(tcx: TyCtxt<'tcx>) -> String {
    let mut cx = Cx::new(tcx);
    let mut w = W::new();
    w.begin_obj();

    // roots
    w.key("roots");
    w.begin_obj();
    let mut roots = Vec::new();
    for id in tcx.hir_crate_items(()).free_items() {
        let def_id = id.owner_id.to_def_id();
        if tcx.def_kind(def_id) != DefKind::Fn {
            continue;
        }
        let name = tcx.item_name(def_id).to_string();
        if !name.starts_with("root_") {
            continue;
        }
        if tcx.generics_of(def_id).requires_monomorphization(tcx) {
            continue;
        }
        let inst = Instance::mono(tcx, def_id);
        let iid = cx.inst_id(inst);
        roots.push((name, iid));
    }
    roots.sort();
    for (name, iid) in &roots {
        w.knum(name, *iid);
    }
    w.end_obj();

    // instances (worklist)
    w.key("instances");
    w.begin_arr();
    let mut next = 0;
    while next < cx.insts.len() {
        let inst = cx.insts[next];
        dump_instance(&mut cx, &mut w, inst, next);
        next += 1;
    }
    w.end_arr();

    // types (worklist: describing a type may register more types)
    w.key("types");
    w.begin_arr();
    let mut next = 0;
    while next < cx.tys.len() {
        let t = cx.tys[next];
        dump_type(&mut cx, &mut w, t, next);
        next += 1;
    }
    w.end_arr();

    w.end_obj();
    w.s
}

fn instance_kind_str(k: &InstanceKind<'_>) -> &'static str {
    match k {
        InstanceKind::Item(_) => "item",
        InstanceKind::Intrinsic(_) => "intrinsic",
        InstanceKind::VTableShim(_) => "vtable_shim",
        InstanceKind::ReifyShim(..) => "reify_shim",
        InstanceKind::FnPtrShim(..) => "fnptr_shim",
        InstanceKind::Virtual(..) => "virtual",
        InstanceKind::ClosureOnceShim { .. } => "closure_once_shim",
        InstanceKind::DropGlue(..) => "drop_glue",
        InstanceKind::CloneShim(..) => "clone_shim",
        _ => "other_shim",
    }
}

fn dump_instance<'tcx>(cx: &mut Cx<'tcx>, w: &mut W, inst: Instance<'tcx>, id: usize) {
    let tcx = cx.tcx;
    let def_id = inst.def_id();
    w.begin_obj();
    w.knum("id", id);
    w.kstr("name", &format!("{}", inst));
    w.kstr("path", &tcx.def_path_str(def_id));
    w.kstr("crate", &tcx.crate_name(def_id.krate).to_string());
    w.kstr("kind", instance_kind_str(&inst.def));
    let dk = tcx.def_kind(def_id);
    w.kstr("def_kind", &format!("{:?}", dk));
    if let InstanceKind::DropGlue(_, Some(t)) = inst.def {
        let tid = cx.ty_id(t);
        w.knum("drop_ty", tid);
    }
    if let InstanceKind::DropGlue(_, None) = inst.def {
        w.kbool("drop_noop", true);
    }
    if let (InstanceKind::Item(d), DefKind::Ctor(..)) = (inst.def, dk) {
        // constructor function of a tuple struct / tuple variant: no MIR needed
        let sig = tcx.fn_sig(d).instantiate(tcx, inst.args).skip_norm_wip();
        let out = tcx.normalize_erasing_late_bound_regions(env(), sig.output());
        if let ty::Adt(adt, _) = out.kind() {
            let vi = adt.variant_index_with_ctor_id(d);
            let tid = cx.ty_id(out);
            w.key("ctor");
            w.begin_obj();
            w.knum("ty", tid);
            w.knum("variant", vi.as_usize());
            w.end_obj();
        }
    }
    {
        let (f, l, _) = cx.loc(tcx.def_span(def_id));
        w.kstr("file", &f);
        w.knum("line", l);
    }
    // generic args as type ids (types only)
    w.key("args");
    w.begin_arr();
    for a in inst.args.iter() {
        if let Some(t) = a.as_type() {
            let tid = cx.ty_id(t);
            w.num(tid);
        }
    }
    w.end_arr();

    let has_body = match inst.def {
        InstanceKind::Item(d) => {
            matches!(tcx.def_kind(d), DefKind::Fn | DefKind::AssocFn | DefKind::Closure | DefKind::Ctor(..))
                && tcx.is_mir_available(d)
                && !tcx.is_foreign_item(d)
        }
        InstanceKind::Intrinsic(_) | InstanceKind::Virtual(..) => false,
        _ => true,
    };
    if has_body {
        let start = w.s.len();
        let saved_commas = 0; // placeholder to keep the closure simple
        let _ = saved_commas;
        let r = catch_unwind(AssertUnwindSafe(|| {
            let mut w2 = W::new();
            w2.begin_obj();
            dump_body(cx, &mut w2, inst);
            w2.end_obj();
            w2.s
        }));
        match r {
            Ok(s) => {
                // splice fields of the body object into this object
                let inner = &s[1..s.len() - 1];
                w.kbool("has_mir", true);
                if !inner.is_empty() {
                    w.s.push(',');
                    w.s.push_str(inner);
                }
            }
            Err(_) => {
                w.s.truncate(start);
                w.kbool("has_mir", false);
                w.kstr("mir_error", "panic while dumping");
            }
        }
    } else {
        w.kbool("has_mir", false);
    }
    w.end_obj();
    w.s.push('\n');
}

fn dump_body<'tcx>(cx: &mut Cx<'tcx>, w: &mut W, inst: Instance<'tcx>) {
    let tcx = cx.tcx;
    let body0 = tcx.instance_mir(inst.def);
    let body: mir::Body<'tcx> = inst.instantiate_mir_and_normalize_erasing_regions(
        tcx,
        env(),
        EarlyBinder::bind(body0.clone()),
    );
    w.knum("arg_count", body.arg_count);
    w.key("locals");
    w.begin_arr();
    for d in body.local_decls.iter() {
        let tid = cx.ty_id(d.ty);
        w.num(tid);
    }
    w.end_arr();
    // user variable names (debug info), helpful for reports
    w.key("vars");
    w.begin_obj();
    for vdi in &body.var_debug_info {
        if let mir::VarDebugInfoContents::Place(p) = &vdi.value {
            if p.projection.is_empty() {
                w.knum(&format!("{}", p.local.as_usize()), 0);
                // overwrite value with name: emit as name string instead
                let l = w.s.len();
                w.s.truncate(l - 1);
                w.s.push_str(&format!("\"{}\"", vdi.name));
            }
        }
    }
    w.end_obj();
    w.key("blocks");
    w.begin_arr();
    for (_bb, data) in body.basic_blocks.iter_enumerated() {
        w.begin_obj();
        if data.is_cleanup {
            w.kbool("cleanup", true);
        }
        w.key("s");
        w.begin_arr();
        for st in &data.statements {
            dump_stmt(cx, w, &body, st);
        }
        w.end_arr();
        w.key("t");
        dump_term(cx, w, &body, data.terminator());
        w.end_obj();
    }
    w.end_arr();
}

fn dump_place<'tcx>(cx: &mut Cx<'tcx>, w: &mut W, body: &mir::Body<'tcx>, p: &Place<'tcx>) {
    let tcx = cx.tcx;
    w.begin_obj();
    w.knum("l", p.local.as_usize());
    if !p.projection.is_empty() {
        w.key("p");
        w.begin_arr();
        let mut pty = mir::PlaceTy::from_ty(body.local_decls[p.local].ty);
        for elem in p.projection.iter() {
            match elem {
                ProjectionElem::Deref => w.str("*"),
                ProjectionElem::Field(f, _) => {
                    let name = match pty.ty.kind() {
                        ty::Adt(adt, _) => {
                            let v = match pty.variant_index {
                                Some(vi) => adt.variant(vi),
                                None => adt.non_enum_variant(),
                            };
                            v.fields[f].name.to_string()
                        }
                        _ => format!("{}", f.as_usize()),
                    };
                    w.begin_obj();
                    w.knum("f", f.as_usize());
                    w.kstr("n", &name);
                    w.end_obj();
                }
                ProjectionElem::Downcast(_, vi) => {
                    let name = match pty.ty.kind() {
                        ty::Adt(adt, _) => adt.variant(vi).name.to_string(),
                        _ => String::new(),
                    };
                    w.begin_obj();
                    w.knum("d", vi.as_usize());
                    w.kstr("n", &name);
                    w.end_obj();
                }
                ProjectionElem::Index(l) => {
                    w.begin_obj();
                    w.knum("i", l.as_usize());
                    w.end_obj();
                }
                ProjectionElem::ConstantIndex { offset, min_length, from_end } => {
                    w.begin_obj();
                    w.knum("ci", offset);
                    w.knum("min", min_length);
                    w.kbool("from_end", from_end);
                    w.end_obj();
                }
                ProjectionElem::Subslice { from, to, from_end } => {
                    w.begin_obj();
                    w.knum("sub_from", from);
                    w.knum("sub_to", to);
                    w.kbool("from_end", from_end);
                    w.end_obj();
                }
                ProjectionElem::OpaqueCast(_) => w.str("opaque_cast"),
                ProjectionElem::UnwrapUnsafeBinder(_) => w.str("unwrap_binder"),
            }
            pty = pty.projection_ty(tcx, elem);
        }
        w.end_arr();
    }
    w.end_obj();
}

fn dump_scalar_int<'tcx>(w: &mut W, ty: Ty<'tcx>, si: ty::ScalarInt) {
    let bits = si.to_bits_unchecked();
    let size = si.size().bits();
    w.begin_obj();
    match ty.kind() {
        ty::Bool => {
            w.kstr("k", "bool");
            w.kbool("v", bits != 0);
        }
        ty::Char => {
            w.kstr("k", "char");
            w.knum("v", bits);
        }
        ty::Int(_) => {
            w.kstr("k", "int");
            // sign-extend
            let shift = 128 - size;
            let sv = ((bits << shift) as i128) >> shift;
            w.kstr("v", &sv.to_string());
            w.knum("bits", size);
            w.kbool("signed", true);
        }
        ty::Uint(_) => {
            w.kstr("k", "int");
            w.kstr("v", &bits.to_string());
            w.knum("bits", size);
            w.kbool("signed", false);
        }
        _ => {
            w.kstr("k", "scalar");
            w.kstr("v", &bits.to_string());
            w.knum("bits", size);
        }
    }
    w.end_obj();
}

fn dump_const_value<'tcx>(cx: &mut Cx<'tcx>, w: &mut W, val: ConstValue, ty: Ty<'tcx>, depth: usize) {
    let tcx = cx.tcx;
    match val {
        ConstValue::Scalar(mir::interpret::Scalar::Int(si)) => {
            if matches!(ty.kind(), ty::Bool | ty::Char | ty::Int(_) | ty::Uint(_)) {
                dump_scalar_int(w, ty, si);
                return;
            }
        }
        ConstValue::Scalar(mir::interpret::Scalar::Ptr(ptr, _)) => {
            // reference to a (promoted) constant: dump the pointee
            if let ty::Ref(_, inner, _) = ty.kind() {
                if depth < 6 && inner.is_sized(tcx, env()) {
                    let (prov, offset) = ptr.into_raw_parts();
                    let alloc_id = prov.alloc_id();
                    if let Some(rustc_middle::mir::interpret::GlobalAlloc::Memory(_)) = tcx.try_get_global_alloc(alloc_id) {
                        w.begin_obj();
                        w.kstr("k", "ref");
                        w.key("to");
                        dump_const_value(cx, w, ConstValue::Indirect { alloc_id, offset }, *inner, depth + 1);
                        w.end_obj();
                        return;
                    }
                }
            }
        }
        ConstValue::Slice { .. } => {
            if let ty::Ref(_, inner, _) = ty.kind() {
                if inner.is_str() {
                    if let Some(bytes) = val.try_get_slice_bytes_for_diagnostics(tcx) {
                        w.begin_obj();
                        w.kstr("k", "str");
                        w.kstr("v", &String::from_utf8_lossy(bytes));
                        w.end_obj();
                        return;
                    }
                }
                if let ty::Slice(el) = inner.kind() {
                    if *el == tcx.types.u8 {
                        if let Some(bytes) = val.try_get_slice_bytes_for_diagnostics(tcx) {
                            w.begin_obj();
                            w.kstr("k", "bytes");
                            w.key("v");
                            w.begin_arr();
                            for b in bytes {
                                w.num(*b);
                            }
                            w.end_arr();
                            w.end_obj();
                            return;
                        }
                    }
                }
            }
        }
        ConstValue::Indirect { alloc_id, offset } => {
            // a `&str` / `&[u8]` stored in memory (e.g. behind a promoted `&&str`): read the wide pointer
            if let ty::Ref(_, inner, _) = ty.kind() {
                let is_str = inner.is_str();
                let is_bytes = matches!(inner.kind(), ty::Slice(el) if *el == tcx.types.u8);
                if is_str || is_bytes {
                    if let Some(rustc_middle::mir::interpret::GlobalAlloc::Memory(a)) = tcx.try_get_global_alloc(alloc_id) {
                        let a = a.inner();
                        let off = offset.bytes() as usize;
                        let raw = a.inspect_with_uninit_and_ptr_outside_interpreter(off..off + 16);
                        let ptr_off = u64::from_le_bytes(raw[0..8].try_into().unwrap()) as usize;
                        let len = u64::from_le_bytes(raw[8..16].try_into().unwrap()) as usize;
                        if let Some(prov) = a.provenance().get_ptr(offset) {
                            if let Some(rustc_middle::mir::interpret::GlobalAlloc::Memory(t)) = tcx.try_get_global_alloc(prov.alloc_id()) {
                                let t = t.inner();
                                if ptr_off + len <= t.len() {
                                    let bytes = t.inspect_with_uninit_and_ptr_outside_interpreter(ptr_off..ptr_off + len);
                                    w.begin_obj();
                                    if is_str {
                                        w.kstr("k", "str");
                                        w.kstr("v", &String::from_utf8_lossy(bytes));
                                    } else {
                                        w.kstr("k", "bytes");
                                        w.key("v");
                                        w.begin_arr();
                                        for b in bytes {
                                            w.num(*b);
                                        }
                                        w.end_arr();
                                    }
                                    w.end_obj();
                                    return;
                                }
                            }
                        }
                    }
                }
            }
        }
        ConstValue::ZeroSized => {
            if let ty::FnDef(def_id, args) = ty.kind() {
                let r = Instance::try_resolve(tcx, env(), *def_id, args);
                w.begin_obj();
                w.kstr("k", "fn");
                w.kstr("name", &tcx.def_path_str_with_args(*def_id, args));
                if let Ok(Some(inst)) = r {
                    let iid = cx.inst_id(inst);
                    w.knum("inst", iid);
                }
                w.end_obj();
                return;
            }
        }
        _ => {}
    }
    // aggregates
    if depth < 6 && matches!(ty.kind(), ty::Adt(..) | ty::Tuple(..) | ty::Array(..)) {
        let r = catch_unwind(AssertUnwindSafe(|| {
            tcx.try_destructure_mir_constant_for_user_output(val, ty)
        }));
        if let Ok(Some(d)) = r {
            w.begin_obj();
            w.kstr("k", "agg");
            let tid = cx.ty_id(ty);
            w.knum("ty", tid);
            if let Some(v) = d.variant {
                w.knum("variant", v.as_usize());
                if let ty::Adt(adt, _) = ty.kind() {
                    w.kstr("vname", &adt.variant(v).name.to_string());
                }
            }
            w.key("fields");
            w.begin_arr();
            for (fv, fty) in d.fields.iter() {
                dump_const_value(cx, w, *fv, *fty, depth + 1);
            }
            w.end_arr();
            w.end_obj();
            return;
        }
    }
    w.begin_obj();
    w.kstr("k", "opaque");
    let tid = cx.ty_id(ty);
    w.knum("ty", tid);
    w.kstr("dbg", &format!("{:?}", val));
    w.end_obj();
}

fn dump_const<'tcx>(cx: &mut Cx<'tcx>, w: &mut W, c: &Const<'tcx>) {
    let tcx = cx.tcx;
    let ty = c.ty();
    let r = catch_unwind(AssertUnwindSafe(|| c.eval(tcx, env(), DUMMY_SP)));
    match r {
        Ok(Ok(val)) => dump_const_value(cx, w, val, ty, 0),
        _ => {
            w.begin_obj();
            w.kstr("k", "opaque");
            let tid = cx.ty_id(ty);
            w.knum("ty", tid);
            w.kstr("dbg", &format!("{:?}", c));
            w.end_obj();
        }
    }
}

fn dump_operand<'tcx>(cx: &mut Cx<'tcx>, w: &mut W, body: &mir::Body<'tcx>, o: &Operand<'tcx>) {
    w.begin_obj();
    match o {
        Operand::Copy(p) => {
            w.key("copy");
            dump_place(cx, w, body, p);
        }
        Operand::Move(p) => {
            w.key("move");
            dump_place(cx, w, body, p);
        }
        Operand::Constant(c) => {
            w.key("const");
            dump_const(cx, w, &c.const_);
        }
        Operand::RuntimeChecks(rc) => {
            w.kstr("runtime_checks", &format!("{:?}", rc));
        }
    }
    w.end_obj();
}

fn binop_str(op: BinOp) -> String {
    format!("{:?}", op)
}

fn dump_rvalue<'tcx>(cx: &mut Cx<'tcx>, w: &mut W, body: &mir::Body<'tcx>, rv: &Rvalue<'tcx>) {
    let tcx = cx.tcx;
    w.begin_obj();
    match rv {
        Rvalue::Use(op, _) => {
            w.kstr("k", "use");
            w.key("a");
            dump_operand(cx, w, body, op);
        }
        Rvalue::Repeat(op, n) => {
            w.kstr("k", "repeat");
            w.key("a");
            dump_operand(cx, w, body, op);
            w.kstr("n", &format!("{:?}", n));
        }
        Rvalue::Ref(_, bk, p) => {
            w.kstr("k", "ref");
            w.kbool(
                "mut",
                matches!(bk, mir::BorrowKind::Mut { .. }),
            );
            w.key("p");
            dump_place(cx, w, body, p);
        }
        Rvalue::RawPtr(kind, p) => {
            w.kstr("k", "rawptr");
            w.kstr("ptr_kind", &format!("{:?}", kind));
            w.key("p");
            dump_place(cx, w, body, p);
        }
        Rvalue::ThreadLocalRef(d) => {
            w.kstr("k", "tls");
            w.kstr("name", &tcx.def_path_str(*d));
        }
        Rvalue::Cast(kind, op, ty) => {
            w.kstr("k", "cast");
            let ks = match kind {
                CastKind::IntToInt => "IntToInt".to_string(),
                CastKind::Transmute => "Transmute".to_string(),
                CastKind::PtrToPtr => "PtrToPtr".to_string(),
                CastKind::PointerCoercion(pc, _) => format!("PointerCoercion({:?})", pc),
                other => format!("{:?}", other),
            };
            w.kstr("cast", &ks);
            w.key("a");
            dump_operand(cx, w, body, op);
            let tid = cx.ty_id(*ty);
            w.knum("ty", tid);
            let from = op.ty(&body.local_decls, tcx);
            let fid = cx.ty_id(from);
            w.knum("from", fid);
        }
        Rvalue::BinaryOp(op, ab) => {
            w.kstr("k", "bin");
            w.kstr("op", &binop_str(*op));
            w.key("a");
            dump_operand(cx, w, body, &ab.0);
            w.key("b");
            dump_operand(cx, w, body, &ab.1);
            let t = ab.0.ty(&body.local_decls, tcx);
            let tid = cx.ty_id(t);
            w.knum("ty", tid);
        }
        Rvalue::UnaryOp(op, a) => {
            w.kstr("k", "un");
            w.kstr(
                "op",
                match op {
                    UnOp::Not => "Not",
                    UnOp::Neg => "Neg",
                    UnOp::PtrMetadata => "PtrMetadata",
                },
            );
            w.key("a");
            dump_operand(cx, w, body, a);
            let t = a.ty(&body.local_decls, tcx);
            let tid = cx.ty_id(t);
            w.knum("ty", tid);
        }
        Rvalue::Discriminant(p) => {
            w.kstr("k", "discr");
            w.key("p");
            dump_place(cx, w, body, p);
        }
        Rvalue::Aggregate(kind, ops) => {
            w.kstr("k", "agg");
            match &**kind {
                AggregateKind::Array(t) => {
                    w.kstr("agg", "array");
                    let tid = cx.ty_id(*t);
                    w.knum("elem", tid);
                }
                AggregateKind::Tuple => w.kstr("agg", "tuple"),
                AggregateKind::Adt(def, vi, args, _, active_field) => {
                    w.kstr("agg", "adt");
                    let adt = tcx.adt_def(*def);
                    w.kstr("name", &tcx.def_path_str(*def));
                    w.knum("variant", vi.as_usize());
                    w.kstr("vname", &adt.variant(*vi).name.to_string());
                    let t = Ty::new_adt(tcx, adt, args);
                    let tid = cx.ty_id(t);
                    w.knum("ty", tid);
                    if let Some(f) = active_field {
                        w.knum("union_field", f.as_usize());
                    }
                }
                AggregateKind::Closure(def, args) => {
                    w.kstr("agg", "closure");
                    w.kstr("name", &tcx.def_path_str(*def));
                    let t = Ty::new_closure(tcx, *def, args);
                    let tid = cx.ty_id(t);
                    w.knum("ty", tid);
                    // the body of a closure that is only ever called from code whose callees cannot be resolved
                    // (specialised std internals) would otherwise be missing from the program
                    let body_inst = Instance::new_raw(*def, args);
                    let bid = cx.inst_id(body_inst);
                    w.knum("body", bid);
                }
                AggregateKind::RawPtr(t, m) => {
                    w.kstr("agg", "rawptr");
                    let tid = cx.ty_id(*t);
                    w.knum("pointee", tid);
                    w.kbool("mut", m.is_mut());
                }
                other => {
                    w.kstr("agg", "other");
                    w.kstr("dbg", &format!("{:?}", other));
                }
            }
            w.key("ops");
            w.begin_arr();
            for o in ops.iter() {
                dump_operand(cx, w, body, o);
            }
            w.end_arr();
        }
        Rvalue::CopyForDeref(p) => {
            w.kstr("k", "use");
            w.key("a");
            w.begin_obj();
            w.key("copy");
            dump_place(cx, w, body, p);
            w.end_obj();
        }
        Rvalue::WrapUnsafeBinder(op, _) => {
            w.kstr("k", "use");
            w.key("a");
            dump_operand(cx, w, body, op);
        }
    }
    w.end_obj();
}

fn dump_stmt<'tcx>(cx: &mut Cx<'tcx>, w: &mut W, body: &mir::Body<'tcx>, st: &mir::Statement<'tcx>) {
    match &st.kind {
        StatementKind::Assign(b) => {
            let (p, rv) = &**b;
            w.begin_obj();
            w.kstr("k", "assign");
            w.key("p");
            dump_place(cx, w, body, p);
            w.key("r");
            dump_rvalue(cx, w, body, rv);
            let (_, l, exp) = cx.loc(st.source_info.span);
            w.knum("ln", l);
            if exp {
                w.kbool("exp", true);
            }
            w.end_obj();
        }
        StatementKind::SetDiscriminant { place, variant_index } => {
            w.begin_obj();
            w.kstr("k", "setdiscr");
            w.key("p");
            dump_place(cx, w, body, place);
            w.knum("variant", variant_index.as_usize());
            w.end_obj();
        }
        StatementKind::StorageLive(l) => {
            w.begin_obj();
            w.kstr("k", "live");
            w.knum("l", l.as_usize());
            w.end_obj();
        }
        StatementKind::StorageDead(l) => {
            w.begin_obj();
            w.kstr("k", "dead");
            w.knum("l", l.as_usize());
            w.end_obj();
        }
        StatementKind::Intrinsic(i) => {
            w.begin_obj();
            w.kstr("k", "intrinsic");
            w.kstr("dbg", &format!("{:?}", i));
            w.end_obj();
        }
        _ => {}
    }
}

fn resolve_callee<'tcx>(
    cx: &mut Cx<'tcx>,
    w: &mut W,
    body: &mir::Body<'tcx>,
    func: &Operand<'tcx>,
) {
    let tcx = cx.tcx;
    let fty = func.ty(&body.local_decls, tcx);
    match fty.kind() {
        ty::FnDef(def_id, args) => {
            w.kstr("callee_name", &tcx.def_path_str_with_args(*def_id, args));
            w.kstr("callee_path", &tcx.def_path_str(*def_id));
            let r = catch_unwind(AssertUnwindSafe(|| {
                Instance::try_resolve(tcx, env(), *def_id, args)
            }));
            match r {
                Ok(Ok(Some(inst))) => {
                    let iid = cx.inst_id(inst);
                    w.knum("callee", iid);
                }
                _ => {
                    w.kbool("unresolved", true);
                }
            }
        }
        _ => {
            w.kbool("indirect", true);
            w.key("func");
            dump_operand(cx, w, body, func);
            let tid = cx.ty_id(fty);
            w.knum("func_ty", tid);
        }
    }
}

fn dump_term<'tcx>(cx: &mut Cx<'tcx>, w: &mut W, body: &mir::Body<'tcx>, t: &mir::Terminator<'tcx>) {
    let tcx = cx.tcx;
    w.begin_obj();
    {
        let (f, l, exp) = cx.loc(t.source_info.span);
        w.knum("ln", l);
        if exp {
            w.kbool("exp", true);
        }
        // file only if it differs from the function's own file (inlined MIR / macros)
        let (ff, _, _) = cx.loc(body.span);
        if f != ff {
            w.kstr("file", &f);
        }
    }
    match &t.kind {
        TerminatorKind::Goto { target } => {
            w.kstr("k", "goto");
            w.knum("target", target.as_usize());
        }
        TerminatorKind::SwitchInt { discr, targets } => {
            w.kstr("k", "switch");
            w.key("discr");
            dump_operand(cx, w, body, discr);
            let dty = discr.ty(&body.local_decls, tcx);
            let tid = cx.ty_id(dty);
            w.knum("ty", tid);
            w.key("targets");
            w.begin_arr();
            for (v, bb) in targets.iter() {
                w.begin_arr();
                w.str(&v.to_string());
                w.num(bb.as_usize());
                w.end_arr();
            }
            w.end_arr();
            w.knum("otherwise", targets.otherwise().as_usize());
        }
        TerminatorKind::UnwindResume => w.kstr("k", "resume"),
        TerminatorKind::UnwindTerminate(_) => w.kstr("k", "terminate"),
        TerminatorKind::Return => w.kstr("k", "return"),
        TerminatorKind::Unreachable => w.kstr("k", "unreachable"),
        TerminatorKind::Drop { place, target, .. } => {
            w.kstr("k", "drop");
            w.key("p");
            dump_place(cx, w, body, place);
            w.knum("target", target.as_usize());
            let pty = place.ty(&body.local_decls, tcx).ty;
            let tid = cx.ty_id(pty);
            w.knum("ty", tid);
            let inst = Instance::resolve_drop_in_place(tcx, pty);
            if let InstanceKind::DropGlue(_, None) = inst.def {
                w.kbool("noop", true);
            } else {
                let iid = cx.inst_id(inst);
                w.knum("callee", iid);
            }
        }
        TerminatorKind::Call { func, args, destination, target, .. } => {
            w.kstr("k", "call");
            resolve_callee(cx, w, body, func);
            w.key("args");
            w.begin_arr();
            for a in args.iter() {
                dump_operand(cx, w, body, &a.node);
            }
            w.end_arr();
            w.key("dest");
            dump_place(cx, w, body, destination);
            if let Some(t) = target {
                w.knum("target", t.as_usize());
            }
        }
        TerminatorKind::TailCall { func, args, .. } => {
            w.kstr("k", "tailcall");
            resolve_callee(cx, w, body, func);
            w.key("args");
            w.begin_arr();
            for a in args.iter() {
                dump_operand(cx, w, body, &a.node);
            }
            w.end_arr();
        }
        TerminatorKind::Assert { cond, expected, msg, target, .. } => {
            w.kstr("k", "assert");
            w.key("cond");
            dump_operand(cx, w, body, cond);
            w.kbool("expected", *expected);
            let kind = match &**msg {
                mir::AssertKind::BoundsCheck { .. } => "BoundsCheck".to_string(),
                mir::AssertKind::Overflow(op, _, _) => format!("Overflow({:?})", op),
                mir::AssertKind::OverflowNeg(_) => "OverflowNeg".to_string(),
                mir::AssertKind::DivisionByZero(_) => "DivisionByZero".to_string(),
                mir::AssertKind::RemainderByZero(_) => "RemainderByZero".to_string(),
                mir::AssertKind::MisalignedPointerDereference { .. } => "MisalignedPointerDereference".to_string(),
                mir::AssertKind::NullPointerDereference => "NullPointerDereference".to_string(),
                mir::AssertKind::InvalidEnumConstruction(_) => "InvalidEnumConstruction".to_string(),
                _ => "Other".to_string(),
            };
            w.kstr("assert", &kind);
            match &**msg {
                mir::AssertKind::BoundsCheck { len, index } => {
                    w.key("len");
                    dump_operand(cx, w, body, len);
                    w.key("index");
                    dump_operand(cx, w, body, index);
                }
                mir::AssertKind::Overflow(_, a, b) => {
                    w.key("a");
                    dump_operand(cx, w, body, a);
                    w.key("b");
                    dump_operand(cx, w, body, b);
                }
                _ => {}
            }
            w.knum("target", target.as_usize());
        }
        TerminatorKind::FalseEdge { real_target, .. } => {
            w.kstr("k", "goto");
            w.knum("target", real_target.as_usize());
        }
        TerminatorKind::FalseUnwind { real_target, .. } => {
            w.kstr("k", "goto");
            w.knum("target", real_target.as_usize());
        }
        TerminatorKind::InlineAsm { .. } => w.kstr("k", "asm"),
        TerminatorKind::Yield { .. } => w.kstr("k", "yield"),
        TerminatorKind::CoroutineDrop => w.kstr("k", "coroutine_drop"),
    }
    w.end_obj();
}

fn dump_type<'tcx>(cx: &mut Cx<'tcx>, w: &mut W, t: Ty<'tcx>, id: usize) {
    let tcx = cx.tcx;
    w.begin_obj();
    w.knum("id", id);
    w.kstr("s", &format!("{}", t));
    match t.kind() {
        ty::Bool => w.kstr("k", "bool"),
        ty::Char => w.kstr("k", "char"),
        ty::Int(it) => {
            w.kstr("k", "int");
            w.knum("bits", it.bit_width().unwrap_or(64));
            w.kbool("signed", true);
        }
        ty::Uint(ut) => {
            w.kstr("k", "int");
            w.knum("bits", ut.bit_width().unwrap_or(64));
            w.kbool("signed", false);
        }
        ty::Float(_) => w.kstr("k", "float"),
        ty::Str => w.kstr("k", "str"),
        ty::Never => w.kstr("k", "never"),
        ty::Adt(adt, args) => {
            w.kstr("k", "adt");
            w.kstr("name", &tcx.def_path_str(adt.did()));
            w.kstr("crate", &tcx.crate_name(adt.did().krate).to_string());
            w.kstr(
                "adt_kind",
                if adt.is_enum() {
                    "enum"
                } else if adt.is_union() {
                    "union"
                } else {
                    "struct"
                },
            );
            w.key("targs");
            w.begin_arr();
            for a in args.iter() {
                if let Some(t) = a.as_type() {
                    let tid = cx.ty_id(t);
                    w.num(tid);
                }
            }
            w.end_arr();
            w.key("variants");
            w.begin_arr();
            for (vi, v) in adt.variants().iter_enumerated() {
                w.begin_obj();
                w.kstr("name", &v.name.to_string());
                if adt.is_enum() {
                    let d = adt.discriminant_for_variant(tcx, vi);
                    w.kstr("discr", &d.val.to_string());
                }
                w.key("fields");
                w.begin_arr();
                for f in v.fields.iter() {
                    w.begin_obj();
                    w.kstr("name", &f.name.to_string());
                    let fty = f.ty(tcx, args);
                    let fty = tcx
                        .try_normalize_erasing_regions(env(), ty::Unnormalized::new_wip(fty))
                        .unwrap_or(fty);
                    let tid = cx.ty_id(fty);
                    w.knum("ty", tid);
                    w.kbool("pub", f.vis.is_public());
                    w.end_obj();
                }
                w.end_arr();
                w.end_obj();
            }
            w.end_arr();
        }
        ty::Tuple(ts) => {
            w.kstr("k", "tuple");
            w.key("fields");
            w.begin_arr();
            for t in ts.iter() {
                let tid = cx.ty_id(t);
                w.num(tid);
            }
            w.end_arr();
        }
        ty::Ref(_, inner, m) => {
            w.kstr("k", "ref");
            w.kbool("mut", m.is_mut());
            let tid = cx.ty_id(*inner);
            w.knum("to", tid);
        }
        ty::RawPtr(inner, m) => {
            w.kstr("k", "ptr");
            w.kbool("mut", m.is_mut());
            let tid = cx.ty_id(*inner);
            w.knum("to", tid);
        }
        ty::Slice(inner) => {
            w.kstr("k", "slice");
            let tid = cx.ty_id(*inner);
            w.knum("of", tid);
        }
        ty::Array(inner, n) => {
            w.kstr("k", "array");
            let tid = cx.ty_id(*inner);
            w.knum("of", tid);
            if let Some(n) = n.try_to_target_usize(tcx) {
                w.knum("len", n);
            }
        }
        ty::FnDef(def, args) => {
            w.kstr("k", "fndef");
            w.kstr("name", &tcx.def_path_str_with_args(*def, args));
        }
        ty::FnPtr(..) => w.kstr("k", "fnptr"),
        ty::Closure(def, args) => {
            w.kstr("k", "closure");
            w.kstr("name", &tcx.def_path_str(*def));
            w.key("upvars");
            w.begin_arr();
            for t in args.as_closure().upvar_tys().iter() {
                let tid = cx.ty_id(t);
                w.num(tid);
            }
            w.end_arr();
        }
        ty::Dynamic(..) => w.kstr("k", "dyn"),
        _ => w.kstr("k", "other"),
    }
    w.end_obj();
    w.s.push('\n');
}
