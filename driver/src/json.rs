//! Minimal JSON emitter (the driver has no Cargo dependencies).

pub struct W {
    pub s: String,
    need_comma: Vec<bool>,
}

impl W {
    pub fn new() -> Self {
        W { s: String::with_capacity(1 << 20), need_comma: vec![false] }
    }

    fn pre(&mut self) {
        if let Some(last) = self.need_comma.last_mut() {
            if *last {
                self.s.push(',');
            }
            *last = true;
        }
    }

    pub fn begin_obj(&mut self) {
        self.pre();
        self.s.push('{');
        self.need_comma.push(false);
    }

    pub fn end_obj(&mut self) {
        self.need_comma.pop();
        self.s.push('}');
    }

    pub fn begin_arr(&mut self) {
        self.pre();
        self.s.push('[');
        self.need_comma.push(false);
    }

    pub fn end_arr(&mut self) {
        self.need_comma.pop();
        self.s.push(']');
    }

    pub fn key(&mut self, k: &str) {
        self.pre();
        self.raw_str(k);
        self.s.push(':');
        if let Some(last) = self.need_comma.last_mut() {
            *last = false;
        }
    }

    fn raw_str(&mut self, v: &str) {
        self.s.push('"');
        for c in v.chars() {
            match c {
                '"' => self.s.push_str("\\\""),
                '\\' => self.s.push_str("\\\\"),
                '\n' => self.s.push_str("\\n"),
                '\r' => self.s.push_str("\\r"),
                '\t' => self.s.push_str("\\t"),
                c if (c as u32) < 0x20 => self.s.push_str(&format!("\\u{:04x}", c as u32)),
                c => self.s.push(c),
            }
        }
        self.s.push('"');
    }

    pub fn str(&mut self, v: &str) {
        self.pre();
        self.raw_str(v);
    }

    pub fn num<T: std::fmt::Display>(&mut self, v: T) {
        self.pre();
        self.s.push_str(&v.to_string());
    }

    pub fn bool(&mut self, v: bool) {
        self.pre();
        self.s.push_str(if v { "true" } else { "false" });
    }

    pub fn null(&mut self) {
        self.pre();
        self.s.push_str("null");
    }

    pub fn kstr(&mut self, k: &str, v: &str) {
        self.key(k);
        self.str(v);
    }

    pub fn knum<T: std::fmt::Display>(&mut self, k: &str, v: T) {
        self.key(k);
        self.num(v);
    }

    pub fn kbool(&mut self, k: &str, v: bool) {
        self.key(k);
        self.bool(v);
    }
}
