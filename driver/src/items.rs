//! Item facts of the crate under analysis (json_syntax): ADTs, impls, fns, macros.

use crate::json::W;
use rustc_ast::token::{Delimiter, TokenKind};
use rustc_ast::tokenstream::{TokenStream, TokenTree};
use rustc_hir::def::DefKind;
use rustc_hir::ItemKind;
use rustc_middle::ty::print::PrintTraitRefExt;
use rustc_middle::ty::{self, TyCtxt};

fn loc<'tcx>(tcx: TyCtxt<'tcx>, span: rustc_span::Span) -> (String, usize) {
    let sp = if span.from_expansion() { span.source_callsite() } else { span };
    if sp.is_dummy() {
        return (String::new(), 0);
    }
    let l = tcx.sess.source_map().lookup_char_pos(sp.lo());
    (format!("{}", l.file.name.prefer_local_unconditionally()), l.line)
}

fn dump_tts(w: &mut W, ts: &TokenStream) {
    w.begin_arr();
    for tt in ts.iter() {
        match tt {
            TokenTree::Token(tok, _) => {
                let s = match &tok.kind {
                    TokenKind::Ident(sym, _) => sym.to_string(),
                    TokenKind::Literal(l) => format!("{}", l),
                    TokenKind::Lifetime(sym, _) => sym.to_string(),
                    TokenKind::DocComment(..) => continue,
                    k => {
                        // punctuation: use the debug-independent textual form
                        punct(k)
                    }
                };
                w.str(&s);
            }
            TokenTree::Delimited(_, _, delim, inner) => {
                w.begin_obj();
                w.kstr(
                    "d",
                    match delim {
                        Delimiter::Parenthesis => "(",
                        Delimiter::Brace => "{",
                        Delimiter::Bracket => "[",
                        Delimiter::Invisible(_) => "",
                    },
                );
                w.key("t");
                dump_tts(w, inner);
                w.end_obj();
            }
        }
    }
    w.end_arr();
}

fn punct(k: &TokenKind) -> String {
    use TokenKind::*;
    match k {
        Eq => "=",
        Lt => "<",
        Le => "<=",
        EqEq => "==",
        Ne => "!=",
        Ge => ">=",
        Gt => ">",
        AndAnd => "&&",
        OrOr => "||",
        Bang => "!",
        Tilde => "~",
        At => "@",
        Dot => ".",
        DotDot => "..",
        DotDotDot => "...",
        DotDotEq => "..=",
        Comma => ",",
        Semi => ";",
        Colon => ":",
        PathSep => "::",
        RArrow => "->",
        LArrow => "<-",
        FatArrow => "=>",
        Pound => "#",
        Dollar => "$",
        Question => "?",
        SingleQuote => "'",
        Plus => "+",
        Minus => "-",
        Star => "*",
        Slash => "/",
        Percent => "%",
        Caret => "^",
        And => "&",
        Or => "|",
        Shl => "<<",
        Shr => ">>",
        other => return format!("{:?}", other),
    }
    .to_string()
}

pub fn dump<'tcx>(tcx: TyCtxt<'tcx>) -> String {
    rustc_middle::ty::print::with_crate_prefix!(dump_inner(tcx))
}

fn dump_inner<'tcx>(tcx: TyCtxt<'tcx>) -> String {
    let mut w = W::new();
    w.begin_obj();

    // ADTs
    w.key("adts");
    w.begin_arr();
    for ldid in tcx.hir_crate_items(()).definitions() {
        let did = ldid.to_def_id();
        if !matches!(tcx.def_kind(did), DefKind::Struct | DefKind::Enum | DefKind::Union) {
            continue;
        }
        let adt = tcx.adt_def(did);
        w.begin_obj();
        w.kstr("path", &tcx.def_path_str(did));
        w.kstr("kind", if adt.is_enum() { "enum" } else if adt.is_union() { "union" } else { "struct" });
        w.kbool("pub", tcx.visibility(did).is_public());
        let (f, l) = loc(tcx, tcx.def_span(did));
        w.kstr("file", &f);
        w.knum("line", l);
        w.key("variants");
        w.begin_arr();
        for v in adt.variants().iter() {
            w.begin_obj();
            w.kstr("name", &v.name.to_string());
            w.key("fields");
            w.begin_arr();
            for fd in v.fields.iter() {
                w.begin_obj();
                w.kstr("name", &fd.name.to_string());
                let fty = tcx.type_of(fd.did).instantiate_identity().skip_norm_wip();
                w.kstr("ty", &format!("{}", fty));
                w.kstr(
                    "vis",
                    &match fd.vis {
                        ty::Visibility::Public => "pub".to_string(),
                        ty::Visibility::Restricted(m) => {
                            if m.is_crate_root() {
                                "crate".to_string()
                            } else {
                                format!("in {}", tcx.def_path_str(m))
                            }
                        }
                    },
                );
                w.end_obj();
            }
            w.end_arr();
            w.end_obj();
        }
        w.end_arr();
        w.end_obj();
        w.s.push('\n');
    }
    w.end_arr();

    // impls
    w.key("impls");
    w.begin_arr();
    for ldid in tcx.hir_crate_items(()).definitions() {
        let did = ldid.to_def_id();
        if !matches!(tcx.def_kind(did), DefKind::Impl { .. }) {
            continue;
        }
        w.begin_obj();
        let self_ty = tcx.type_of(did).instantiate_identity().skip_norm_wip();
        w.kstr("self_ty", &format!("{}", self_ty));
        if let ty::Adt(adt, _) = self_ty.kind() {
            w.kstr("self_adt", &tcx.def_path_str(adt.did()));
        }
        match tcx.impl_opt_trait_ref(did) {
            Some(tr) => {
                let tr = tr.instantiate_identity().skip_norm_wip();
                w.kstr("trait", &tcx.def_path_str(tr.def_id));
                w.kstr("trait_ref", &format!("{}", tr.print_only_trait_path()));
            }
            None => {
                w.key("trait");
                w.null();
            }
        }
        w.kbool("derived", tcx.is_automatically_derived(did));
        let (f, l) = loc(tcx, tcx.def_span(did));
        w.kstr("file", &f);
        w.knum("line", l);
        w.key("items");
        w.begin_arr();
        for item in tcx.associated_items(did).in_definition_order() {
            w.begin_obj();
            w.kstr("name", &item.name().to_string());
            w.kstr("kind", &format!("{:?}", item.tag()));
            w.kstr("path", &tcx.def_path_str(item.def_id));
            w.end_obj();
        }
        w.end_arr();
        w.end_obj();
        w.s.push('\n');
    }
    w.end_arr();

    // fns
    w.key("fns");
    w.begin_arr();
    for ldid in tcx.hir_crate_items(()).definitions() {
        let did = ldid.to_def_id();
        if !matches!(tcx.def_kind(did), DefKind::Fn | DefKind::AssocFn) {
            continue;
        }
        w.begin_obj();
        w.kstr("path", &tcx.def_path_str(did));
        let vis = tcx.visibility(did);
        w.kbool("pub", vis.is_public());
        let sig = tcx.fn_sig(did).instantiate_identity().skip_norm_wip().skip_binder();
        w.key("inputs");
        w.begin_arr();
        for t in sig.inputs() {
            w.str(&format!("{}", t));
        }
        w.end_arr();
        w.kstr("output", &format!("{}", sig.output()));
        let (f, l) = loc(tcx, tcx.def_span(did));
        w.kstr("file", &f);
        w.knum("line", l);
        // parent (impl / trait / module)
        let parent = tcx.parent(did);
        w.kstr("parent_kind", &format!("{:?}", tcx.def_kind(parent)));
        if matches!(tcx.def_kind(parent), DefKind::Impl { .. }) {
            let self_ty = tcx.type_of(parent).instantiate_identity().skip_norm_wip();
            w.kstr("impl_self", &format!("{}", self_ty));
            if let Some(tr) = tcx.impl_opt_trait_ref(parent) {
                let tr = tr.instantiate_identity().skip_norm_wip();
                w.kstr("impl_trait", &tcx.def_path_str(tr.def_id));
            }
        }
        w.kbool("has_body", tcx.is_mir_available(did));
        w.end_obj();
        w.s.push('\n');
    }
    w.end_arr();

    // exported macros (token trees)
    w.key("macros");
    w.begin_arr();
    for id in tcx.hir_crate_items(()).free_items() {
        let item = tcx.hir_item(id);
        if let ItemKind::Macro(ident, def, _) = &item.kind {
            w.begin_obj();
            w.kstr("name", &ident.name.to_string());
            w.kbool("macro_rules", def.macro_rules);
            let (f, l) = loc(tcx, item.span);
            w.kstr("file", &f);
            w.knum("line", l);
            w.key("body");
            dump_tts(&mut w, &def.body.tokens);
            w.end_obj();
            w.s.push('\n');
        }
    }
    w.end_arr();

    // cfg attributes seen (for the "only additive features" rule) are taken from source by
    // the rule engine through cargo metadata; here we record the enabled features
    w.key("features");
    w.begin_arr();
    for (name, val) in tcx.sess.config.iter() {
        if name.as_str() == "feature" {
            if let Some(v) = val {
                w.str(v.as_str());
            }
        }
    }
    w.end_arr();

    w.end_obj();
    w.s
}
