//! jsv-driver: rustc wrapper that dumps facts for the json-syntax static checks.
//!
//! Invoked by cargo as RUSTC_WRAPPER: argv = [driver, rustc, args...].
//! Behaves exactly like rustc, and additionally, when JSV_OUT is set:
//!   * for the crate named `json_syntax`: writes $JSV_OUT/json_syntax.items.json
//!   * for the crate named by JSV_ROOTS_CRATE (default `jsvroots`): writes
//!     $JSV_OUT/<crate>.program.json, the monomorphic MIR program reachable from
//!     every `root_*` function of that crate.
#![feature(rustc_private)]
#![allow(clippy::all)]

extern crate rustc_abi;
extern crate rustc_ast;
extern crate rustc_data_structures;
extern crate rustc_driver;
extern crate rustc_hir;
extern crate rustc_interface;
extern crate rustc_middle;
extern crate rustc_span;

mod items;
mod json;
mod program;

use rustc_driver::{Callbacks, Compilation};
use rustc_interface::interface::Compiler;
use rustc_middle::ty::TyCtxt;
use rustc_span::def_id::LOCAL_CRATE;

struct Cb;

impl Callbacks for Cb {
    fn after_analysis<'tcx>(&mut self, _c: &Compiler, tcx: TyCtxt<'tcx>) -> Compilation {
        let out = match std::env::var("JSV_OUT") {
            Ok(o) => o,
            Err(_) => return Compilation::Continue,
        };
        let name = tcx.crate_name(LOCAL_CRATE).to_string();
        let roots_crate =
            std::env::var("JSV_ROOTS_CRATE").unwrap_or_else(|_| "jsvroots".to_string());
        if name == "json_syntax" {
            let s = items::dump(tcx);
            std::fs::write(format!("{out}/json_syntax.items.json"), s).expect("write items");
        }
        if name == roots_crate {
            let s = program::dump(tcx);
            std::fs::write(format!("{out}/{name}.program.json"), s).expect("write program");
        }
        Compilation::Continue
    }
}

fn main() {
    let mut args: Vec<String> = std::env::args().collect();
    // wrapper mode: argv[1] is the path of the real rustc
    if args.len() > 1 && (args[1].ends_with("rustc") || args[1].contains("/rustc")) {
        args.remove(1);
    }
    rustc_driver::run_compiler(&args, &mut Cb);
}
