//! Harness crate: one `root_*` function per public entry point of json-syntax.
//! Never executed; only compiled by jsv-driver, which dumps the monomorphic MIR
//! reachable from each root. Opaque inputs are `extern "Rust"` functions / opaque
//! iterator types whose bodies are never looked at.
#![allow(unused, clippy::all, improper_ctypes)]

use decoded_char::DecodedChar;
use json_syntax::array::JsonArray;
use json_syntax::object::{Entry, Key};
use json_syntax::parse::Options as ParseOptions;
use json_syntax::print::Options as PrintOptions;
use json_syntax::{
    BorrowUnordered, CodeMap, Kind, KindSet, Object, Parse, Print, TryFromJson, Unordered,
    UnorderedPartialEq, Value,
};
use std::collections::BTreeMap;

pub mod serde_roots;

/// Opaque stream error type.
pub struct StreamErr(u8);

macro_rules! opaque_iter {
    ($name:ident, $item:ty, $ext:ident) => {
        /// Opaque input iterator: its `next` is a READ primitive of the analysis.
        pub struct $name(u8);
        extern "Rust" {
            fn $ext(i: &mut $name) -> Option<$item>;
        }
        impl Iterator for $name {
            type Item = $item;
            #[inline(never)]
            fn next(&mut self) -> Option<Self::Item> {
                unsafe { $ext(self) }
            }
        }
    };
}

opaque_iter!(In, Result<DecodedChar, StreamErr>, jsv_next_decoded);
opaque_iter!(InChar, Result<char, StreamErr>, jsv_next_char);
opaque_iter!(InInfChar, char, jsv_next_inf_char);
opaque_iter!(InInfDecoded, DecodedChar, jsv_next_inf_decoded);

pub type PR<E = StreamErr> = Result<(Value, CodeMap), json_syntax::parse::Error<E>>;
pub type PRI = Result<(Value, CodeMap), json_syntax::parse::Error>;

// ---- parser: model root and the thirteen public entry points -----------------------
pub fn root_parse_model(input: In, options: ParseOptions) -> PR {
    Value::parse_with(input, options)
}
pub fn root_parse_slice(content: &[u8]) -> PRI {
    Value::parse_slice(content)
}
pub fn root_parse_slice_with(content: &[u8], options: ParseOptions) -> PRI {
    Value::parse_slice_with(content, options)
}
pub fn root_parse_str(content: &str) -> PRI {
    Value::parse_str(content)
}
pub fn root_parse_str_with(content: &str, options: ParseOptions) -> PRI {
    Value::parse_str_with(content, options)
}
pub fn root_parse_infallible_utf8(chars: InInfChar) -> PRI {
    Value::parse_infallible_utf8(chars)
}
pub fn root_parse_utf8_infallible_with(chars: InInfChar, options: ParseOptions) -> PRI {
    Value::parse_utf8_infallible_with(chars, options)
}
pub fn root_parse_utf8(chars: InChar) -> PR {
    Value::parse_utf8(chars)
}
pub fn root_parse_utf8_with(chars: InChar, options: ParseOptions) -> PR {
    Value::parse_utf8_with(chars, options)
}
pub fn root_parse_infallible(chars: InInfDecoded) -> PRI {
    Value::parse_infallible(chars)
}
pub fn root_parse_infallible_with(chars: InInfDecoded, options: ParseOptions) -> PRI {
    Value::parse_infallible_with(chars, options)
}
pub fn root_parse(chars: In) -> PR {
    Value::parse(chars)
}
pub fn root_parse_with(chars: In, options: ParseOptions) -> PR {
    Value::parse_with(chars, options)
}
pub fn root_from_str(s: &str) -> Result<Value, json_syntax::parse::Error> {
    s.parse::<Value>()
}
pub fn root_parse_options_default() -> ParseOptions {
    ParseOptions::default()
}
pub fn root_parse_options_strict() -> ParseOptions {
    ParseOptions::strict()
}
pub fn root_parse_options_flexible() -> ParseOptions {
    ParseOptions::flexible()
}
pub fn root_parse_error_position(e: &json_syntax::parse::Error<StreamErr>) -> usize {
    e.position()
}
pub fn root_parse_error_span(e: &json_syntax::parse::Error<StreamErr>) -> locspan::Span {
    e.span()
}

// ---- printer -------------------------------------------------------------------------
pub fn root_print_with(v: &Value, options: PrintOptions, f: &mut std::fmt::Formatter) -> std::fmt::Result {
    std::fmt::Display::fmt(&v.print_with(options), f)
}
pub fn root_print_compact(v: &Value, f: &mut std::fmt::Formatter) -> std::fmt::Result {
    std::fmt::Display::fmt(&v.compact_print(), f)
}
pub fn root_print_inline(v: &Value, f: &mut std::fmt::Formatter) -> std::fmt::Result {
    std::fmt::Display::fmt(&v.inline_print(), f)
}
pub fn root_print_pretty(v: &Value, f: &mut std::fmt::Formatter) -> std::fmt::Result {
    std::fmt::Display::fmt(&v.pretty_print(), f)
}
pub fn root_display_value(v: &Value, f: &mut std::fmt::Formatter) -> std::fmt::Result {
    std::fmt::Display::fmt(v, f)
}
pub fn root_value_to_string(v: &Value) -> String {
    v.to_string()
}
pub fn root_string_from_value(v: Value) -> String {
    String::from(v)
}
pub fn root_print_options_compact() -> PrintOptions {
    PrintOptions::compact()
}
pub fn root_print_options_inline() -> PrintOptions {
    PrintOptions::inline()
}
pub fn root_print_options_pretty() -> PrintOptions {
    PrintOptions::pretty()
}
pub fn root_string_literal(s: &str, f: &mut std::fmt::Formatter) -> std::fmt::Result {
    json_syntax::print::string_literal(s, f)
}
pub fn root_printed_string_size(s: &str) -> usize {
    json_syntax::print::printed_string_size(s)
}
pub fn root_fmt_with_value(v: &Value, f: &mut std::fmt::Formatter, o: &PrintOptions, indent: usize) -> std::fmt::Result {
    v.fmt_with(f, o, indent)
}
pub fn root_pre_compute_size(v: &Value, o: &PrintOptions, sizes: &mut Vec<json_syntax::print::Size>) -> json_syntax::print::Size {
    use json_syntax::print::PrecomputeSize;
    v.pre_compute_size(o, sizes)
}

// ---- value: traversal, fragments, kinds --------------------------------------------------
pub fn root_traverse(v: &Value) -> json_syntax::Traverse<'_> {
    v.traverse()
}
pub fn root_traverse_next<'a>(t: &mut json_syntax::Traverse<'a>) -> Option<(usize, json_syntax::FragmentRef<'a>)> {
    t.next()
}
pub fn root_sub_fragments<'a>(f: &json_syntax::FragmentRef<'a>) -> json_syntax::SubFragments<'a> {
    f.sub_fragments()
}
pub fn root_sub_fragments_next<'a>(s: &mut json_syntax::SubFragments<'a>) -> Option<json_syntax::FragmentRef<'a>> {
    s.next()
}
pub fn root_sub_fragments_next_back<'a>(s: &mut json_syntax::SubFragments<'a>) -> Option<json_syntax::FragmentRef<'a>> {
    s.next_back()
}
pub fn root_get_fragment(v: &Value, index: usize) -> Result<json_syntax::FragmentRef<'_>, usize> {
    v.get_fragment(index)
}
pub fn root_get_array_fragment(a: &[Value], index: usize) -> Result<json_syntax::FragmentRef<'_>, usize> {
    json_syntax::get_array_fragment(a, index)
}
pub fn root_entry_get_fragment(e: &Entry, index: usize) -> Result<json_syntax::FragmentRef<'_>, usize> {
    e.get_fragment(index)
}
pub fn root_object_get_fragment(o: &Object, index: usize) -> Result<json_syntax::FragmentRef<'_>, usize> {
    o.get_fragment(index)
}
pub fn root_volume(v: &Value) -> usize {
    v.volume()
}
pub fn root_count_all(v: &Value) -> usize {
    v.count(|_, _| true)
}
pub fn root_value_kind(v: &Value) -> Kind {
    v.kind()
}
pub fn root_value_is_kind(v: &Value, k: Kind) -> bool {
    v.is_kind(k)
}

// ---- equality / ordering / hashing -----------------------------------------------------
pub fn root_value_eq(a: &Value, b: &Value) -> bool {
    a == b
}
pub fn root_value_cmp(a: &Value, b: &Value) -> std::cmp::Ordering {
    a.cmp(b)
}
pub fn root_value_partial_cmp(a: &Value, b: &Value) -> Option<std::cmp::Ordering> {
    a.partial_cmp(b)
}
pub fn root_value_hash(a: &Value, h: &mut std::collections::hash_map::DefaultHasher) {
    std::hash::Hash::hash(a, h)
}
pub fn root_value_clone(a: &Value) -> Value {
    a.clone()
}
pub fn root_object_eq(a: &Object, b: &Object) -> bool {
    a == b
}
pub fn root_object_cmp(a: &Object, b: &Object) -> std::cmp::Ordering {
    a.cmp(b)
}
pub fn root_object_partial_cmp(a: &Object, b: &Object) -> Option<std::cmp::Ordering> {
    a.partial_cmp(b)
}
pub fn root_object_hash(a: &Object, h: &mut std::collections::hash_map::DefaultHasher) {
    std::hash::Hash::hash(a, h)
}
pub fn root_object_clone(a: &Object) -> Object {
    a.clone()
}
pub fn root_object_clone_from(a: &mut Object, b: &Object) {
    a.clone_from(b)
}
pub fn root_entry_eq(a: &Entry, b: &Entry) -> bool {
    a == b
}
pub fn root_entry_cmp(a: &Entry, b: &Entry) -> std::cmp::Ordering {
    a.cmp(b)
}
pub fn root_entry_hash(a: &Entry, h: &mut std::collections::hash_map::DefaultHasher) {
    std::hash::Hash::hash(a, h)
}

// ---- unordered equality -----------------------------------------------------------------
pub fn root_unordered_eq_value(a: &Value, b: &Value) -> bool {
    a.unordered_eq(b)
}
pub fn root_unordered_eq_object(a: &Object, b: &Object) -> bool {
    a.unordered_eq(b)
}
pub fn root_unordered_eq_vec(a: &Vec<Value>, b: &Vec<Value>) -> bool {
    a.unordered_eq(b)
}
pub fn root_unordered_wrapper_eq(a: &Unordered<Value>, b: &Unordered<Value>) -> bool {
    a == b
}
pub fn root_as_unordered(a: &Value) -> &Unordered<Value> {
    a.as_unordered()
}

// ---- object ---------------------------------------------------------------------------------
pub fn root_object_new() -> Object {
    Object::new()
}
pub fn root_object_default() -> Object {
    Object::default()
}
pub fn root_object_from_vec(v: Vec<Entry>) -> Object {
    Object::from_vec(v)
}
pub fn root_object_from_vec_trait(v: Vec<Entry>) -> Object {
    Object::from(v)
}
pub fn root_object_len(o: &Object) -> usize {
    o.len()
}
pub fn root_object_is_empty(o: &Object) -> bool {
    o.is_empty()
}
pub fn root_object_entries(o: &Object) -> &[Entry] {
    o.entries()
}
pub fn root_object_iter(o: &Object) -> json_syntax::object::Iter<'_> {
    o.iter()
}
pub fn root_object_iter_mut(o: &mut Object) -> json_syntax::object::IterMut<'_> {
    o.iter_mut()
}
pub fn root_object_iter_mut_next<'a>(i: &mut json_syntax::object::IterMut<'a>) -> Option<(&'a Key, &'a mut Value)> {
    i.next()
}
pub fn root_object_contains_key(o: &Object, k: &str) -> bool {
    o.contains_key(k)
}
pub fn root_object_get<'a>(o: &'a Object, k: &str) -> json_syntax::object::Values<'a> {
    o.get(k)
}
pub fn root_object_values_next<'a>(i: &mut json_syntax::object::Values<'a>) -> Option<&'a Value> {
    i.next()
}
pub fn root_object_get_mut<'a>(o: &'a mut Object, k: &str) -> json_syntax::object::ValuesMut<'a> {
    o.get_mut(k)
}
pub fn root_object_values_mut_next<'a>(i: &mut json_syntax::object::ValuesMut<'a>) -> Option<&'a mut Value> {
    i.next()
}
pub fn root_object_get_unique<'a>(o: &'a Object, k: &str) -> Result<Option<&'a Value>, json_syntax::object::Duplicate<&'a Entry>> {
    o.get_unique(k)
}
pub fn root_object_get_unique_mut<'a>(o: &'a mut Object, k: &str) -> Result<Option<&'a mut Value>, json_syntax::object::Duplicate<&'a Entry>> {
    o.get_unique_mut(k)
}
pub fn root_object_get_entries<'a>(o: &'a Object, k: &str) -> json_syntax::object::Entries<'a> {
    o.get_entries(k)
}
pub fn root_object_entries_next<'a>(i: &mut json_syntax::object::Entries<'a>) -> Option<&'a Entry> {
    i.next()
}
pub fn root_object_get_unique_entry<'a>(o: &'a Object, k: &str) -> Result<Option<&'a Entry>, json_syntax::object::Duplicate<&'a Entry>> {
    o.get_unique_entry(k)
}
pub fn root_object_get_with_index<'a>(o: &'a Object, k: &str) -> json_syntax::object::ValuesWithIndex<'a> {
    o.get_with_index(k)
}
pub fn root_object_values_with_index_next<'a>(i: &mut json_syntax::object::ValuesWithIndex<'a>) -> Option<(usize, &'a Value)> {
    i.next()
}
pub fn root_object_get_entries_with_index<'a>(o: &'a Object, k: &str) -> json_syntax::object::EntriesWithIndex<'a> {
    o.get_entries_with_index(k)
}
pub fn root_object_entries_with_index_next<'a>(i: &mut json_syntax::object::EntriesWithIndex<'a>) -> Option<(usize, &'a Entry)> {
    i.next()
}
pub fn root_object_get_or_insert_with<'a>(o: &'a mut Object, k: &str, f: fn() -> Value) -> &'a Value {
    o.get_or_insert_with(k, f)
}
pub fn root_object_get_mut_or_insert_with<'a>(o: &'a mut Object, k: &str, f: fn() -> Value) -> &'a mut Value {
    o.get_mut_or_insert_with(k, f)
}
pub fn root_object_index_of(o: &Object, k: &str) -> Option<usize> {
    o.index_of(k)
}
pub fn root_object_redundant_index_of(o: &Object, k: &str) -> Option<usize> {
    o.redundant_index_of(k)
}
pub fn root_object_indexes_of<'a>(o: &'a Object, k: &str) -> json_syntax::object::Indexes<'a> {
    o.indexes_of(k)
}
pub fn root_object_indexes_next<'a>(i: &mut json_syntax::object::Indexes<'a>) -> Option<usize> {
    i.next()
}
pub fn root_object_first(o: &Object) -> Option<&Entry> {
    o.first()
}
pub fn root_object_last(o: &Object) -> Option<&Entry> {
    o.last()
}
pub fn root_object_push(o: &mut Object, k: Key, v: Value) -> bool {
    o.push(k, v)
}
pub fn root_object_push_entry(o: &mut Object, e: Entry) -> bool {
    o.push_entry(e)
}
pub fn root_object_push_front(o: &mut Object, k: Key, v: Value) -> bool {
    o.push_front(k, v)
}
pub fn root_object_push_entry_front(o: &mut Object, e: Entry) -> bool {
    o.push_entry_front(e)
}
pub fn root_object_remove_at(o: &mut Object, i: usize) -> Option<Entry> {
    o.remove_at(i)
}
pub fn root_object_insert<'a>(o: &'a mut Object, k: Key, v: Value) -> Option<json_syntax::object::RemovedByInsertion<'a>> {
    o.insert(k, v)
}
pub fn root_object_removed_by_insertion_next(i: &mut json_syntax::object::RemovedByInsertion<'_>) -> Option<Entry> {
    i.next()
}
pub fn root_object_removed_by_insertion_drop(i: json_syntax::object::RemovedByInsertion<'_>) {
    drop(i)
}
pub fn root_object_insert_front<'a>(o: &'a mut Object, k: Key, v: Value) -> json_syntax::object::RemovedByInsertFront<'a> {
    o.insert_front(k, v)
}
pub fn root_object_removed_by_insert_front_next(i: &mut json_syntax::object::RemovedByInsertFront<'_>) -> Option<Entry> {
    i.next()
}
pub fn root_object_removed_by_insert_front_drop(i: json_syntax::object::RemovedByInsertFront<'_>) {
    drop(i)
}
pub fn root_object_remove<'a, 'q>(o: &'a mut Object, k: &'q str) -> json_syntax::object::RemovedEntries<'a, 'q, str> {
    o.remove(k)
}
pub fn root_object_removed_entries_next(i: &mut json_syntax::object::RemovedEntries<'_, '_, str>) -> Option<Entry> {
    i.next()
}
pub fn root_object_removed_entries_drop(i: json_syntax::object::RemovedEntries<'_, '_, str>) {
    drop(i)
}
pub fn root_object_remove_unique(o: &mut Object, k: &str) -> Result<Option<Entry>, json_syntax::object::Duplicate<Entry>> {
    o.remove_unique(k)
}
pub fn root_object_sort(o: &mut Object) {
    o.sort()
}
pub fn root_object_extend_entries(o: &mut Object, v: Vec<Entry>) {
    o.extend(v)
}
pub fn root_object_extend_pairs(o: &mut Object, v: Vec<(Key, Value)>) {
    o.extend(v)
}
pub fn root_object_from_iter_entries(v: Vec<Entry>) -> Object {
    v.into_iter().collect()
}
pub fn root_object_from_iter_pairs(v: Vec<(Key, Value)>) -> Object {
    v.into_iter().collect()
}
pub fn root_object_into_iter(o: Object) -> std::vec::IntoIter<Entry> {
    o.into_iter()
}
pub fn root_object_ref_into_iter(o: &Object) -> std::slice::Iter<'_, Entry> {
    o.into_iter()
}
pub fn root_object_mut_into_iter(o: &mut Object) -> json_syntax::object::IterMut<'_> {
    o.into_iter()
}

// ---- code-map navigation ----------------------------------------------------------------------
pub fn root_array_iter_mapped<'a, 'm>(a: &'a Vec<Value>, cm: &'m CodeMap, offset: usize) -> json_syntax::array::IterMapped<'a, 'm> {
    a.iter_mapped(cm, offset)
}
pub fn root_slice_iter_mapped<'a, 'm>(a: &'a [Value], cm: &'m CodeMap, offset: usize) -> json_syntax::array::IterMapped<'a, 'm> {
    a.iter_mapped(cm, offset)
}
pub fn root_array_iter_mapped_next<'a>(i: &mut json_syntax::array::IterMapped<'a, '_>) -> Option<json_syntax::code_map::Mapped<&'a Value>> {
    i.next()
}
pub fn root_object_iter_mapped<'a, 'm>(o: &'a Object, cm: &'m CodeMap, offset: usize) -> json_syntax::object::IterMapped<'a, 'm> {
    o.iter_mapped(cm, offset)
}
pub fn root_object_iter_mapped_next<'a>(i: &mut json_syntax::object::IterMapped<'a, '_>) -> Option<json_syntax::object::MappedEntry<'a>> {
    i.next()
}
pub fn root_object_get_mapped_entries<'a, 'm>(o: &'a Object, cm: &'m CodeMap, offset: usize, k: &str) -> json_syntax::object::MappedEntries<'a, 'm> {
    o.get_mapped_entries(cm, offset, k)
}
pub fn root_object_mapped_entries_next<'a>(i: &mut json_syntax::object::MappedEntries<'a, '_>) -> Option<json_syntax::object::MappedEntry<'a>> {
    i.next()
}
pub fn root_object_get_mapped_entries_with_index<'a, 'm>(o: &'a Object, cm: &'m CodeMap, offset: usize, k: &str) -> json_syntax::object::MappedEntriesWithIndex<'a, 'm> {
    o.get_mapped_entries_with_index(cm, offset, k)
}
pub fn root_object_mapped_entries_with_index_next<'a>(i: &mut json_syntax::object::MappedEntriesWithIndex<'a, '_>) -> Option<json_syntax::object::IndexedMappedEntry<'a>> {
    i.next()
}
pub fn root_object_get_mapped<'a, 'm>(o: &'a Object, cm: &'m CodeMap, offset: usize, k: &str) -> json_syntax::object::MappedValues<'a, 'm> {
    o.get_mapped(cm, offset, k)
}
pub fn root_object_mapped_values_next<'a>(i: &mut json_syntax::object::MappedValues<'a, '_>) -> Option<json_syntax::code_map::Mapped<&'a Value>> {
    i.next()
}
pub fn root_object_get_mapped_with_index<'a, 'm>(o: &'a Object, cm: &'m CodeMap, offset: usize, k: &str) -> json_syntax::object::MappedValuesWithIndex<'a, 'm> {
    o.get_mapped_with_index(cm, offset, k)
}
pub fn root_object_mapped_values_with_index_next<'a>(i: &mut json_syntax::object::MappedValuesWithIndex<'a, '_>) -> Option<json_syntax::object::IndexedMappedValue<'a>> {
    i.next()
}
pub fn root_object_get_unique_mapped_entry<'a>(o: &'a Object, cm: &CodeMap, offset: usize, k: &str) -> Result<Option<json_syntax::object::MappedEntry<'a>>, json_syntax::object::Duplicate<json_syntax::object::MappedEntry<'a>>> {
    o.get_unique_mapped_entry(cm, offset, k)
}
pub fn root_object_get_unique_mapped_entry_with_index<'a>(o: &'a Object, cm: &CodeMap, offset: usize, k: &str) -> Result<Option<json_syntax::object::IndexedMappedEntry<'a>>, json_syntax::object::Duplicate<json_syntax::object::IndexedMappedEntry<'a>>> {
    o.get_unique_mapped_entry_with_index(cm, offset, k)
}
pub fn root_object_get_unique_mapped<'a>(o: &'a Object, cm: &CodeMap, offset: usize, k: &str) -> Result<Option<json_syntax::code_map::Mapped<&'a Value>>, json_syntax::object::Duplicate<json_syntax::code_map::Mapped<&'a Value>>> {
    o.get_unique_mapped(cm, offset, k)
}
pub fn root_object_get_unique_mapped_with_index<'a>(o: &'a Object, cm: &CodeMap, offset: usize, k: &str) -> Result<Option<json_syntax::object::IndexedMappedValue<'a>>, json_syntax::object::Duplicate<json_syntax::object::IndexedMappedValue<'a>>> {
    o.get_unique_mapped_with_index(cm, offset, k)
}
pub fn root_entry_into_mapped(e: Entry<u8, u16>, a: usize, b: usize) -> Entry<json_syntax::code_map::Mapped<u8>, json_syntax::code_map::Mapped<u16>> {
    e.into_mapped(a, b)
}

// ---- TryFromJson -----------------------------------------------------------------------------------
type MU = json_syntax::code_map::Mapped<json_syntax::Unexpected>;
pub fn root_try_from_json_unit(v: &Value, cm: &CodeMap, offset: usize) -> Result<(), MU> {
    <()>::try_from_json_at(v, cm, offset)
}
pub fn root_try_from_json_bool(v: &Value, cm: &CodeMap, offset: usize) -> Result<bool, MU> {
    bool::try_from_json_at(v, cm, offset)
}
pub fn root_try_from_json_string(v: &Value, cm: &CodeMap, offset: usize) -> Result<String, MU> {
    String::try_from_json_at(v, cm, offset)
}
pub fn root_try_from_json_u32(v: &Value, cm: &CodeMap, offset: usize) -> Result<u32, json_syntax::code_map::Mapped<json_syntax::TryIntoNumberError<json_syntax::NumberType<u32>>>> {
    u32::try_from_json_at(v, cm, offset)
}
pub fn root_try_from_json_f64(v: &Value, cm: &CodeMap, offset: usize) -> Result<f64, json_syntax::code_map::Mapped<json_syntax::TryIntoNumberError<json_syntax::NumberType<f64>>>> {
    f64::try_from_json_at(v, cm, offset)
}
pub fn root_try_from_json_vec_bool(v: &Value, cm: &CodeMap, offset: usize) -> Result<Vec<bool>, MU> {
    Vec::<bool>::try_from_json_at(v, cm, offset)
}
pub fn root_try_from_json_vec_vec_string(v: &Value, cm: &CodeMap, offset: usize) -> Result<Vec<Vec<String>>, MU> {
    Vec::<Vec<String>>::try_from_json_at(v, cm, offset)
}
pub fn root_try_from_json_option_bool(v: &Value, cm: &CodeMap, offset: usize) -> Result<Option<bool>, MU> {
    Option::<bool>::try_from_json_at(v, cm, offset)
}
pub fn root_try_from_json_box_bool(v: &Value, cm: &CodeMap, offset: usize) -> Result<Box<bool>, MU> {
    Box::<bool>::try_from_json_at(v, cm, offset)
}
pub fn root_try_from_json_default_offset(v: &Value, cm: &CodeMap) -> Result<bool, MU> {
    bool::try_from_json(v, cm)
}

/// Error type usable with the `BTreeMap` impl (`From<Mapped<Unexpected>> + From<Mapped<K::Err>>`).
pub enum MapErr {
    U(MU),
    K(json_syntax::code_map::Mapped<std::convert::Infallible>),
}
impl From<MU> for MapErr {
    fn from(e: MU) -> Self {
        MapErr::U(e)
    }
}
impl From<json_syntax::code_map::Mapped<std::convert::Infallible>> for MapErr {
    fn from(e: json_syntax::code_map::Mapped<std::convert::Infallible>) -> Self {
        MapErr::K(e)
    }
}
pub struct BoolLeaf(pub bool);
impl TryFromJson for BoolLeaf {
    type Error = MapErr;
    fn try_from_json_at(v: &Value, cm: &CodeMap, offset: usize) -> Result<Self, MapErr> {
        Ok(BoolLeaf(bool::try_from_json_at(v, cm, offset)?))
    }
}
pub fn root_try_from_json_btreemap(v: &Value, cm: &CodeMap, offset: usize) -> Result<BTreeMap<String, BoolLeaf>, MapErr> {
    BTreeMap::<String, BoolLeaf>::try_from_json_at(v, cm, offset)
}

// ---- canonicalization ----------------------------------------------------------------------------------
pub fn root_canonicalize(v: &mut Value) {
    v.canonicalize()
}
pub fn root_canonicalize_with(v: &mut Value, b: &mut ryu_js::Buffer) {
    v.canonicalize_with(b)
}
pub fn root_object_canonicalize(o: &mut Object) {
    o.canonicalize()
}
pub fn root_object_canonicalize_with(o: &mut Object, b: &mut ryu_js::Buffer) {
    o.canonicalize_with(b)
}

// ---- serde_json conversion ---------------------------------------------------------------------------------
pub fn root_from_serde_json(v: serde_json::Value) -> Value {
    Value::from_serde_json(v)
}
pub fn root_into_serde_json(v: Value) -> serde_json::Value {
    Value::into_serde_json(v)
}
pub fn root_from_serde_json_trait(v: serde_json::Value) -> Value {
    Value::from(v)
}
pub fn root_into_serde_json_trait(v: Value) -> serde_json::Value {
    serde_json::Value::from(v)
}

// ---- Kind / KindSet --------------------------------------------------------------------------------------------
pub fn root_kind_or_kind(a: Kind, b: Kind) -> KindSet {
    a | b
}
pub fn root_kind_or_set(a: Kind, b: KindSet) -> KindSet {
    a | b
}
pub fn root_kind_and_kind(a: Kind, b: Kind) -> KindSet {
    a & b
}
pub fn root_kind_and_set(a: Kind, b: KindSet) -> KindSet {
    a & b
}
pub fn root_set_or_kind(a: KindSet, b: Kind) -> KindSet {
    a | b
}
pub fn root_set_or_assign_kind(a: &mut KindSet, b: Kind) {
    *a |= b
}
pub fn root_set_and_kind(a: KindSet, b: Kind) -> KindSet {
    a & b
}
pub fn root_set_and_assign_kind(a: &mut KindSet, b: Kind) {
    *a &= b
}
pub fn root_set_or_set(a: KindSet, b: KindSet) -> KindSet {
    a | b
}
pub fn root_set_or_assign_set(a: &mut KindSet, b: KindSet) {
    *a |= b
}
pub fn root_set_and_set(a: KindSet, b: KindSet) -> KindSet {
    a & b
}
pub fn root_set_and_assign_set(a: &mut KindSet, b: KindSet) {
    *a &= b
}
pub fn root_set_from_kind(a: Kind) -> KindSet {
    KindSet::from(a)
}
pub fn root_set_all() -> KindSet {
    KindSet::all()
}
pub fn root_set_none() -> KindSet {
    KindSet::none()
}
pub fn root_set_consts() -> [KindSet; 6] {
    [KindSet::NULL, KindSet::BOOLEAN, KindSet::NUMBER, KindSet::STRING, KindSet::ARRAY, KindSet::OBJECT]
}
pub fn root_set_len(a: &KindSet) -> usize {
    a.len()
}
pub fn root_set_is_empty(a: &KindSet) -> bool {
    a.is_empty()
}
pub fn root_set_iter(a: &KindSet) -> json_syntax::kind::KindSetIter {
    a.iter()
}
pub fn root_set_into_iter(a: KindSet) -> json_syntax::kind::KindSetIter {
    a.into_iter()
}
pub fn root_set_ref_into_iter(a: &KindSet) -> json_syntax::kind::KindSetIter {
    a.into_iter()
}
pub fn root_set_iter_next(i: &mut json_syntax::kind::KindSetIter) -> Option<Kind> {
    i.next()
}
pub fn root_set_iter_next_back(i: &mut json_syntax::kind::KindSetIter) -> Option<Kind> {
    i.next_back()
}
pub fn root_set_iter_size_hint(i: &json_syntax::kind::KindSetIter) -> (usize, Option<usize>) {
    i.size_hint()
}
pub fn root_set_iter_last(i: json_syntax::kind::KindSetIter) -> Option<Kind> {
    i.last()
}
pub fn root_set_iter_count(i: json_syntax::kind::KindSetIter) -> usize {
    i.count()
}
pub fn root_set_eq(a: &KindSet, b: &KindSet) -> bool {
    a == b
}
pub fn root_kind_display(k: &Kind, f: &mut std::fmt::Formatter) -> std::fmt::Result {
    std::fmt::Display::fmt(k, f)
}
pub fn root_set_display(k: &KindSet, f: &mut std::fmt::Formatter) -> std::fmt::Result {
    std::fmt::Display::fmt(k, f)
}
pub fn root_set_disjunction_display(k: KindSet, f: &mut std::fmt::Formatter) -> std::fmt::Result {
    std::fmt::Display::fmt(&k.as_disjunction(), f)
}
pub fn root_set_conjunction_display(k: KindSet, f: &mut std::fmt::Formatter) -> std::fmt::Result {
    std::fmt::Display::fmt(&k.as_conjunction(), f)
}
