//! Roots for the serde support (features `serde`, `serde_json`).
use json_syntax::object::Key;
use json_syntax::{DeserializeError, NumberBuf, Object, SerializeError, Value};
use serde::ser::{
    SerializeMap as _, SerializeSeq as _, SerializeStruct as _, SerializeStructVariant as _,
    SerializeTuple as _, SerializeTupleStruct as _, SerializeTupleVariant as _,
};
use serde::{Deserialize, Serialize, Serializer as _};
use std::collections::BTreeMap;

type SR<T = Value> = Result<T, SerializeError>;
type DR<T> = Result<T, DeserializeError>;

// ---- probe types ---------------------------------------------------------------------
#[derive(Serialize, Deserialize, PartialEq, Debug)]
pub struct Unit;
#[derive(Serialize, Deserialize, PartialEq, Debug)]
pub struct Newtype(pub i32);
#[derive(Serialize, Deserialize, PartialEq, Debug)]
pub struct TupleStruct(pub u8, pub String);
#[derive(Serialize, Deserialize, PartialEq, Debug)]
pub struct Struct {
    pub a: bool,
    pub b: Option<u64>,
    pub c: Vec<i16>,
    pub d: (char, f64),
    pub e: BTreeMap<String, Newtype>,
    pub f: (),
    pub g: f32,
}
#[derive(Serialize, Deserialize, PartialEq, Eq, PartialOrd, Ord, Debug)]
pub enum KeyEnum {
    K1,
    K2,
}
#[derive(Serialize, Deserialize, PartialEq, Debug)]
pub enum Enum {
    UnitV,
    NewtypeV(i64),
    TupleV(u8, bool),
    StructV { x: i8, y: String },
}
#[derive(Serialize, Deserialize, PartialEq, Debug)]
pub struct Maps {
    pub by_int: BTreeMap<i32, bool>,
    pub by_u64: BTreeMap<u64, bool>,
    pub by_char: BTreeMap<char, bool>,
    pub by_enum: BTreeMap<KeyEnum, Enum>,
    pub nested: Vec<Struct>,
}

// ---- to_value / from_value -----------------------------------------------------------------
pub fn root_to_value_struct(v: Struct) -> SR {
    json_syntax::to_value(v)
}
pub fn root_to_value_enum(v: Enum) -> SR {
    json_syntax::to_value(v)
}
pub fn root_to_value_maps(v: Maps) -> SR {
    json_syntax::to_value(v)
}
pub fn root_to_value_unit(v: Unit) -> SR {
    json_syntax::to_value(v)
}
pub fn root_to_value_tuple_struct(v: TupleStruct) -> SR {
    json_syntax::to_value(v)
}
pub fn root_to_value_value(v: &Value) -> SR {
    json_syntax::to_value(v)
}
pub fn root_to_value_object(v: &Object) -> SR {
    json_syntax::to_value(v)
}
pub fn root_from_value_struct(v: Value) -> DR<Struct> {
    json_syntax::from_value(v)
}
pub fn root_from_value_enum(v: Value) -> DR<Enum> {
    json_syntax::from_value(v)
}
pub fn root_from_value_maps(v: Value) -> DR<Maps> {
    json_syntax::from_value(v)
}
pub fn root_from_value_unit(v: Value) -> DR<Unit> {
    json_syntax::from_value(v)
}
pub fn root_from_value_tuple_struct(v: Value) -> DR<TupleStruct> {
    json_syntax::from_value(v)
}
pub fn root_from_value_value(v: Value) -> DR<Value> {
    json_syntax::from_value(v)
}
pub fn root_from_value_object(v: Value) -> DR<Object> {
    json_syntax::from_value(v)
}
pub fn root_serde_json_from_str_value(s: &str) -> Result<Value, serde_json::Error> {
    serde_json::from_str::<Value>(s)
}
pub fn root_serde_json_to_string_value(v: &Value) -> Result<String, serde_json::Error> {
    serde_json::to_string(v)
}

// ---- Serializer methods, one root each ---------------------------------------------------------
macro_rules! ser_scalar {
    ($($root:ident, $m:ident, $t:ty;)*) => {$(
        pub fn $root(v: $t) -> SR { json_syntax::Serializer.$m(v) }
    )*};
}
ser_scalar! {
    root_ser_bool, serialize_bool, bool;
    root_ser_i8, serialize_i8, i8;
    root_ser_i16, serialize_i16, i16;
    root_ser_i32, serialize_i32, i32;
    root_ser_i64, serialize_i64, i64;
    root_ser_u8, serialize_u8, u8;
    root_ser_u16, serialize_u16, u16;
    root_ser_u32, serialize_u32, u32;
    root_ser_u64, serialize_u64, u64;
    root_ser_f32, serialize_f32, f32;
    root_ser_f64, serialize_f64, f64;
    root_ser_char, serialize_char, char;
    root_ser_str, serialize_str, &str;
    root_ser_bytes, serialize_bytes, &[u8];
}
pub fn root_ser_unit() -> SR {
    json_syntax::Serializer.serialize_unit()
}
pub fn root_ser_none() -> SR {
    json_syntax::Serializer.serialize_none()
}
pub fn root_ser_some(v: &bool) -> SR {
    json_syntax::Serializer.serialize_some(v)
}
pub fn root_ser_unit_struct() -> SR {
    json_syntax::Serializer.serialize_unit_struct("Unit")
}
pub fn root_ser_unit_variant(name: &'static str) -> SR {
    json_syntax::Serializer.serialize_unit_variant("Enum", 0, name)
}
pub fn root_ser_newtype_struct(v: &bool) -> SR {
    json_syntax::Serializer.serialize_newtype_struct("Newtype", v)
}
pub fn root_ser_newtype_variant(name: &'static str, v: &bool) -> SR {
    json_syntax::Serializer.serialize_newtype_variant("Enum", 1, name, v)
}
pub fn root_ser_seq(len: Option<usize>) -> SR<json_syntax::SerializeArray> {
    json_syntax::Serializer.serialize_seq(len)
}
pub fn root_ser_tuple(len: usize) -> SR<json_syntax::SerializeArray> {
    json_syntax::Serializer.serialize_tuple(len)
}
pub fn root_ser_tuple_struct(len: usize) -> SR<json_syntax::SerializeArray> {
    json_syntax::Serializer.serialize_tuple_struct("T", len)
}
pub fn root_ser_tuple_variant(name: &'static str, len: usize) -> SR<json_syntax::SerializeTupleVariant> {
    json_syntax::Serializer.serialize_tuple_variant("Enum", 2, name, len)
}
pub fn root_ser_map(len: Option<usize>) -> SR<json_syntax::SerializeMap> {
    json_syntax::Serializer.serialize_map(len)
}
pub fn root_ser_struct(len: usize) -> SR<json_syntax::SerializeMap> {
    json_syntax::Serializer.serialize_struct("S", len)
}
pub fn root_ser_struct_variant(name: &'static str, len: usize) -> SR<json_syntax::SerializeStructVariant> {
    json_syntax::Serializer.serialize_struct_variant("Enum", 3, name, len)
}
pub fn root_ser_array_element(a: &mut json_syntax::SerializeArray, v: &bool) -> SR<()> {
    serde::ser::SerializeSeq::serialize_element(a, v)
}
pub fn root_ser_array_end(a: json_syntax::SerializeArray) -> SR {
    serde::ser::SerializeSeq::end(a)
}
pub fn root_ser_tuple_element(a: &mut json_syntax::SerializeArray, v: &bool) -> SR<()> {
    serde::ser::SerializeTuple::serialize_element(a, v)
}
pub fn root_ser_tuple_end(a: json_syntax::SerializeArray) -> SR {
    serde::ser::SerializeTuple::end(a)
}
pub fn root_ser_tuple_struct_field(a: &mut json_syntax::SerializeArray, v: &bool) -> SR<()> {
    serde::ser::SerializeTupleStruct::serialize_field(a, v)
}
pub fn root_ser_tuple_struct_end(a: json_syntax::SerializeArray) -> SR {
    serde::ser::SerializeTupleStruct::end(a)
}
pub fn root_ser_tuple_variant_field(a: &mut json_syntax::SerializeTupleVariant, v: &bool) -> SR<()> {
    a.serialize_field(v)
}
pub fn root_ser_tuple_variant_end(a: json_syntax::SerializeTupleVariant) -> SR {
    a.end()
}
pub fn root_ser_struct_variant_field(a: &mut json_syntax::SerializeStructVariant, k: &'static str, v: &bool) -> SR<()> {
    a.serialize_field(k, v)
}
pub fn root_ser_struct_variant_end(a: json_syntax::SerializeStructVariant) -> SR {
    a.end()
}
pub fn root_ser_map_key(a: &mut json_syntax::SerializeMap, k: &str) -> SR<()> {
    serde::ser::SerializeMap::serialize_key(a, k)
}
pub fn root_ser_map_value(a: &mut json_syntax::SerializeMap, v: &bool) -> SR<()> {
    serde::ser::SerializeMap::serialize_value(a, v)
}
pub fn root_ser_map_value_str(a: &mut json_syntax::SerializeMap, v: &str) -> SR<()> {
    serde::ser::SerializeMap::serialize_value(a, v)
}
pub fn root_ser_map_end(a: json_syntax::SerializeMap) -> SR {
    serde::ser::SerializeMap::end(a)
}
pub fn root_ser_struct_field(a: &mut json_syntax::SerializeMap, k: &'static str, v: &bool) -> SR<()> {
    serde::ser::SerializeStruct::serialize_field(a, k, v)
}
pub fn root_ser_struct_end(a: json_syntax::SerializeMap) -> SR {
    serde::ser::SerializeStruct::end(a)
}

// ---- KeySerializer ---------------------------------------------------------------------------------
macro_rules! key_scalar {
    ($($root:ident, $m:ident, $t:ty;)*) => {$(
        pub fn $root(v: $t) -> SR<Key> { json_syntax::KeySerializer.$m(v) }
    )*};
}
key_scalar! {
    root_key_i8, serialize_i8, i8;
    root_key_i16, serialize_i16, i16;
    root_key_i32, serialize_i32, i32;
    root_key_i64, serialize_i64, i64;
    root_key_u8, serialize_u8, u8;
    root_key_u16, serialize_u16, u16;
    root_key_u32, serialize_u32, u32;
    root_key_u64, serialize_u64, u64;
    root_key_char, serialize_char, char;
    root_key_str, serialize_str, &str;
}
pub fn root_key_unit_variant(name: &'static str) -> SR<Key> {
    json_syntax::KeySerializer.serialize_unit_variant("Enum", 0, name)
}
pub fn root_key_newtype_struct(v: &i32) -> SR<Key> {
    json_syntax::KeySerializer.serialize_newtype_struct("N", v)
}

// ---- StringNumberSerializer ---------------------------------------------------------------------------
pub fn root_strnum_str(v: &str) -> SR<NumberBuf> {
    json_syntax::StringNumberSerializer.serialize_str(v)
}

// ---- Deserializer for Value: one root per primitive target -----------------------------------------------
macro_rules! de_root {
    ($($root:ident, $t:ty;)*) => {$(
        pub fn $root(v: Value) -> DR<$t> { <$t as Deserialize>::deserialize(v) }
    )*};
}
de_root! {
    root_de_bool, bool;
    root_de_i8, i8;
    root_de_i64, i64;
    root_de_u8, u8;
    root_de_u64, u64;
    root_de_f32, f32;
    root_de_f64, f64;
    root_de_char, char;
    root_de_string, String;
    root_de_unit, ();
    root_de_option_bool, Option<bool>;
    root_de_vec_bool, Vec<bool>;
    root_de_tuple, (bool, String);
    root_de_map_string, BTreeMap<String, bool>;
    root_de_map_int, BTreeMap<i32, bool>;
    root_de_map_char, BTreeMap<char, bool>;
    root_de_map_enum, BTreeMap<KeyEnum, bool>;
    root_de_enum, Enum;
    root_de_newtype, Newtype;
    root_de_unit_struct, Unit;
}

// ---- probe visitor / seeds: opaque consumers that instantiate every Deserializer, SeqAccess, MapAccess,
// ---- EnumAccess and VariantAccess method of json-syntax (including the private access types) ---------
pub struct Out(pub u8);
pub struct Probe;

macro_rules! probe_externs {
    ($($name:ident($($t:ty),*);)*) => {
        extern "Rust" { $( fn $name($(_: $t),*) -> Out; )* }
    };
}
probe_externs! {
    jsv_visit_bool(bool); jsv_visit_i8(i8); jsv_visit_i16(i16); jsv_visit_i32(i32); jsv_visit_i64(i64); jsv_visit_i128(i128);
    jsv_visit_u8(u8); jsv_visit_u16(u16); jsv_visit_u32(u32); jsv_visit_u64(u64); jsv_visit_u128(u128);
    jsv_visit_f32(f32); jsv_visit_f64(f64); jsv_visit_char(char); jsv_visit_string(String); jsv_visit_unit(); jsv_visit_none();
}

macro_rules! probe_visits {
    ($($m:ident, $e:ident, $t:ty;)*) => {$(
        #[inline(never)]
        fn $m<E>(self, v: $t) -> Result<Out, E> { Ok(unsafe { $e(v) }) }
    )*};
}

impl<'de> serde::de::Visitor<'de> for Probe {
    type Value = Out;
    fn expecting(&self, f: &mut std::fmt::Formatter) -> std::fmt::Result {
        f.write_str("probe")
    }
    probe_visits! {
        visit_bool, jsv_visit_bool, bool; visit_i8, jsv_visit_i8, i8; visit_i16, jsv_visit_i16, i16; visit_i32, jsv_visit_i32, i32;
        visit_i64, jsv_visit_i64, i64; visit_i128, jsv_visit_i128, i128; visit_u8, jsv_visit_u8, u8; visit_u16, jsv_visit_u16, u16;
        visit_u32, jsv_visit_u32, u32; visit_u64, jsv_visit_u64, u64; visit_u128, jsv_visit_u128, u128; visit_f32, jsv_visit_f32, f32;
        visit_f64, jsv_visit_f64, f64; visit_char, jsv_visit_char, char; visit_string, jsv_visit_string, String;
    }
    #[inline(never)]
    fn visit_unit<E>(self) -> Result<Out, E> {
        Ok(unsafe { jsv_visit_unit() })
    }
    #[inline(never)]
    fn visit_none<E>(self) -> Result<Out, E> {
        Ok(unsafe { jsv_visit_none() })
    }
    #[inline(never)]
    fn visit_some<D: serde::Deserializer<'de>>(self, d: D) -> Result<Out, D::Error> {
        d.deserialize_any(Probe)
    }
    #[inline(never)]
    fn visit_newtype_struct<D: serde::Deserializer<'de>>(self, d: D) -> Result<Out, D::Error> {
        d.deserialize_any(Probe)
    }
    #[inline(never)]
    fn visit_seq<A: serde::de::SeqAccess<'de>>(self, mut a: A) -> Result<Out, A::Error> {
        let _ = a.size_hint();
        let x: Option<Out> = a.next_element_seed(SeedAny)?;
        Ok(x.unwrap_or(Out(0)))
    }
    #[inline(never)]
    fn visit_map<A: serde::de::MapAccess<'de>>(self, mut a: A) -> Result<Out, A::Error> {
        let _ = a.size_hint();
        // every key method of the private key deserializer
        let _: Option<Out> = a.next_key_seed(SeedAny)?;
        let _: Out = a.next_value_seed(SeedAny)?;
        let _: Option<Out> = a.next_key_seed(SeedKey::<0>)?;
        let _: Option<Out> = a.next_key_seed(SeedKey::<1>)?;
        let _: Option<Out> = a.next_key_seed(SeedKey::<2>)?;
        let _: Option<Out> = a.next_key_seed(SeedKey::<3>)?;
        let _: Option<Out> = a.next_key_seed(SeedKey::<4>)?;
        let _: Option<Out> = a.next_key_seed(SeedKey::<5>)?;
        let _: Option<Out> = a.next_key_seed(SeedKey::<6>)?;
        let _: Option<Out> = a.next_key_seed(SeedKey::<7>)?;
        let _: Option<Out> = a.next_key_seed(SeedKey::<8>)?;
        let _: Option<Out> = a.next_key_seed(SeedKey::<9>)?;
        let _: Option<Out> = a.next_key_seed(SeedKey::<10>)?;
        let _: Option<Out> = a.next_key_seed(SeedKey::<11>)?;
        let _: Option<Out> = a.next_key_seed(SeedKey::<12>)?;
        let _: Option<Out> = a.next_key_seed(SeedKey::<13>)?;
        Ok(Out(1))
    }
    #[inline(never)]
    fn visit_enum<A: serde::de::EnumAccess<'de>>(self, a: A) -> Result<Out, A::Error> {
        use serde::de::VariantAccess;
        let (tag, v): (Out, A::Variant) = a.variant_seed(SeedAny)?;
        match tag.0 {
            0 => {
                v.unit_variant()?;
                Ok(Out(0))
            }
            1 => v.newtype_variant_seed(SeedAny),
            2 => v.tuple_variant(2, Probe),
            _ => v.struct_variant(&["x"], Probe),
        }
    }
}

pub struct SeedAny;
impl<'de> serde::de::DeserializeSeed<'de> for SeedAny {
    type Value = Out;
    #[inline(never)]
    fn deserialize<D: serde::Deserializer<'de>>(self, d: D) -> Result<Out, D::Error> {
        d.deserialize_any(Probe)
    }
}

/// Seed that drives one specific method of the deserializer it is given (used on map keys).
pub struct SeedKey<const M: u8>;
impl<'de, const M: u8> serde::de::DeserializeSeed<'de> for SeedKey<M> {
    type Value = Out;
    #[inline(never)]
    fn deserialize<D: serde::Deserializer<'de>>(self, d: D) -> Result<Out, D::Error> {
        match M {
            0 => d.deserialize_i8(Probe),
            1 => d.deserialize_i16(Probe),
            2 => d.deserialize_i32(Probe),
            3 => d.deserialize_i64(Probe),
            4 => d.deserialize_i128(Probe),
            5 => d.deserialize_u8(Probe),
            6 => d.deserialize_u16(Probe),
            7 => d.deserialize_u32(Probe),
            8 => d.deserialize_u64(Probe),
            9 => d.deserialize_u128(Probe),
            10 => d.deserialize_option(Probe),
            11 => d.deserialize_newtype_struct("N", Probe),
            12 => d.deserialize_enum("E", &["A"], Probe),
            _ => d.deserialize_string(Probe),
        }
    }
}

macro_rules! dev_root {
    ($($root:ident, $m:ident $(, $extra:expr)*;)*) => {$(
        pub fn $root(v: Value) -> DR<Out> { serde::Deserializer::$m(v, $($extra,)* Probe) }
    )*};
}
dev_root! {
    root_dev_any, deserialize_any;
    root_dev_bool, deserialize_bool;
    root_dev_i8, deserialize_i8; root_dev_i16, deserialize_i16; root_dev_i32, deserialize_i32; root_dev_i64, deserialize_i64; root_dev_i128, deserialize_i128;
    root_dev_u8, deserialize_u8; root_dev_u16, deserialize_u16; root_dev_u32, deserialize_u32; root_dev_u64, deserialize_u64; root_dev_u128, deserialize_u128;
    root_dev_f32, deserialize_f32; root_dev_f64, deserialize_f64;
    root_dev_char, deserialize_char; root_dev_str, deserialize_str; root_dev_string, deserialize_string;
    root_dev_bytes, deserialize_bytes; root_dev_byte_buf, deserialize_byte_buf;
    root_dev_option, deserialize_option; root_dev_unit, deserialize_unit;
    root_dev_unit_struct, deserialize_unit_struct, "U";
    root_dev_newtype_struct, deserialize_newtype_struct, "N";
    root_dev_seq, deserialize_seq;
    root_dev_tuple, deserialize_tuple, 2;
    root_dev_tuple_struct, deserialize_tuple_struct, "T", 2;
    root_dev_map, deserialize_map;
    root_dev_struct, deserialize_struct, "S", &["a"];
    root_dev_enum, deserialize_enum, "E", &["A"];
    root_dev_identifier, deserialize_identifier;
    root_dev_ignored_any, deserialize_ignored_any;
}
