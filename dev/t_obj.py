import sys, time, traceback
sys.path.insert(0,'/verif')
from jsv import facts, objmodel
from jsv.absint import *
P,I,info=facts.load()
def run(root, entries, mkargs):
    W=objmodel.World(P)
    st=W.sh.st
    oref, cid = W.mk_object(st, entries)
    inst=P.inst[P.roots[root]]
    outs=W.call(st, inst, [oref]+mkargs(W))
    res=[]
    for o in outs:
        try:
            ents, idx = W.read_object(o, cid)
        except Exception as e:
            ents, idx = ('ERR', str(e)), None
        res.append((o.outcome, ents, idx, idx == objmodel.exact_index(ents) if idx is not None else None))
    return res, W
t=time.time()
for root, ents, mk in [
  ("root_object_push", [("k",1)], lambda W:[W.key("k"), W.val(2)]),
  ("root_object_push_front", [("k",1),("m",1)], lambda W:[W.key("m"), W.val(2)]),
  ("root_object_remove_at", [("k",1),("m",1),("k",2)], lambda W:[Conc(1)]),
  ("root_object_remove_at", [("k",1)], lambda W:[Conc(3)]),
  ("root_object_sort", [("m",1),("k",2),("k",1)], lambda W:[]),
  ("root_object_remove_unique", [("m",1),("k",2),("k",1)], lambda W:[W.key("k")]),
  ("root_object_remove_unique", [("m",1),("k",2)], lambda W:[W.key("k")]),
  ]:
    try:
        r,W=run(root, ents, mk)
        for x in r: print(root, ents, '->', repr(x[0])[:150], x[1], x[2], x[3])
        if W.sh.unknown(): print('   unknown', W.sh.unknown())
    except Exception as e:
        traceback.print_exc(limit=3); print(root, 'EXC', e)
print(time.time()-t)
