import sys, time, itertools, collections
sys.path.insert(0,'/verif')
from jsv import facts, shape
from jsv.absint import *
from jsv.summ import AVec
P,I,info=facts.load()
inst = shape.find_inst(P, r"^<json_syntax::Object as json_syntax::UnorderedPartialEq>::unordered_eq$")
oty = P.types[inst["locals"][1]]["to"]
ot = P.types[oty]
fld = {f["name"]: f["ty"] for f in ot["variants"][0]["fields"]}
ety = [t for t in P.types if t.get("name")=="json_syntax::object::Entry" and t["k"]=="adt"][0]["id"]
def run(A, B):
    sh = shape.Shape(P)
    objs = {}
    def mk(name, ents):
        items = tuple(Agg(ety, 0, (Top(None, ("key", k)), Top(None, ("val", v)))) for k, v in ents)
        vec = sh.st.new_obj(AVec(items, "entries"))
        o = Agg(oty, 0, (vec, Top(fld["indexes"], ("idx", name))))
        objs[name] = ents
        return sh.cell(o)
    a = mk("A", A); b = mk("B", B)
    def im_get(it, st, c, args):
        idx = shape.deref(it, st, args[0], 2)
        name = idx.tag[1]
        key = shape.deref(it, st, args[2], 3)
        k = key.tag[1]
        pos = [i for i, (kk, v) in enumerate(objs[name]) if kk == k]
        rt = shape.ret_ty(it, c)
        if not pos:
            return Agg(rt, 0, ())
        ity = P.types[P.types[rt]["variants"][1]["fields"][0]["ty"]]["to"]
        other = st.new_obj(AVec(tuple(Conc(p) for p in pos[1:]), "other"))
        cell = st.new_obj(Agg(ity, 0, (Conc(pos[0]), other)))
        return Agg(rt, 1, (Ref(("H", cell.id), ()),))
    sh.cut(r"^json_syntax::object::index_map::IndexMap::get::<", "im_get", ret=im_get)
    def dup(it, st, c, args):
        idx = shape.deref(it, st, args[0], 2)
        name = idx.tag[1]
        ks = [k for k, v in objs[name]]
        return Conc(int(len(set(ks)) != len(ks)))
    sh.cut(r"IndexMap::contains_duplicate_keys$", "dup", ret=dup)
    def ueq(it, st, c, args):
        x = shape.deref(it, st, args[0], 3); y = shape.deref(it, st, args[1], 3)
        return Conc(int(x.tag == y.tag))
    sh.cut(r"^<json_syntax::Value as json_syntax::UnorderedPartialEq>::unordered_eq$", "ueq", ret=ueq)
    outs = sh.run(inst, [a, b])
    return outs, sh
t=time.time()
outs, sh = run([("k",1),("k",1),("k",2)], [("k",1),("k",2),("k",2)])
print(time.time()-t, [(o.outcome) for o in outs], sh.unknown())
