import sys, time; sys.path.insert(0,'/verif')
from jsv import facts, iset
from jsv.pmodel import PModel
from jsv.product import Product
P, I, info = facts.load()
K=int(sys.argv[1]) if len(sys.argv)>1 else 1
opts=(int(sys.argv[2]),int(sys.argv[3])) if len(sys.argv)>3 else (0,0)
pm = PModel(P)
t0=time.time()
pr = Product(pm, bool(opts[0]), bool(opts[1]), K=K, max_states=int(sys.argv[4]) if len(sys.argv)>4 else 200000).run()
print('opts',opts,'K',K,'states',pr.states,'transitions',pr.transitions,'accepting',pr.accepting,'errors',pr.errors,'cut',pr.cut_depth,'time %.1f'%(time.time()-t0))
print(pr.stats['hex4_checked'], pr.stats['pair_checked'], pr.stats['events_matched'], len(pr.stats['error_sites']))
for f in pr.findings[:40]: print(f)
for i in pr.infos[:10]: print('INFO',i)
print(pr.samples[:8])
print('unknown calls', set(pm.it.unknown_calls))
print('assumptions', pm.assumptions)
for k,v in sorted(pm.assert_log.items()): print(k,v)
