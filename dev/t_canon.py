import sys, os
sys.path.insert(0,'/verif')
from jsv import facts, objmodel
from jsv.absint import *
P,I,info=facts.load()
W=objmodel.World(P); st=W.sh.st
oref,cid=W.mk_object(st, [("k",1),("m",1)])
name=[r for r in P.roots if "canonicalize" in r]
print(name)
r=P.inst[P.roots["root_object_canonicalize_with"]] if "root_object_canonicalize_with" in P.roots else None
print(r and r["name"], r and r["arg_count"])
buf = st.new_obj(Top(None, "ryu-buffer"))
W.permute_instead_of_sort = True
outs=W.call(st, r, [oref, Ref(("H", buf.id), ())])
for o in outs:
    print(o.outcome[0], str(o.outcome[1:])[:300])
    print("   pc:", [str(c)[:100] for c in getattr(o,'path',[])][:8])
