import sys, json, collections, traceback
sys.path.insert(0,'/verif')
from jsv import facts, shape
from jsv.absint import *
import glob
f = sorted(glob.glob('/verif/.cache/corpus-*/jsvcorpus.program.json'))[-1]
P = facts.Program(f)
print(len(P.inst), 'instances', len(P.roots), 'roots')
sel = sys.argv[1:] or ['root_p0','root_p3','root_p5','root_p6','root_p7','root_p8','root_p20','root_p200']
for nm in sel:
    inst = P.inst[P.roots[nm]]
    sh = shape.Shape(P)
    sh.cut(r'IndexMap.*::insert', 'index_insert')
    try:
        outs = sh.run(inst, [])
    except Exception as e:
        traceback.print_exc(); print(nm, 'EXC', e); continue
    print(nm, len(outs), 'paths; unknown', sh.unknown())
    for o in outs[:3]:
        print('  ', o.kind if hasattr(o,'kind') else '', repr(getattr(o,'ret',None))[:300])
        for e in o.events[:20]: print('     ev', e[0], e[-1][:90] if isinstance(e[-1],str) else '')
