import sys, time, traceback
sys.path.insert(0,'/verif')
from jsv import facts, objmodel
from jsv.absint import *
P,I,info=facts.load()
def show(W,o,cid):
    ents, idx = W.read_object(o, cid)
    return ents, idx, idx == objmodel.exact_index(ents)
def seq(entries, root, mk, consume, itroot_next, itroot_drop, some=False):
    W=objmodel.World(P); st=W.sh.st
    oref,cid=W.mk_object(st, entries)
    outs=W.call(st, P.inst[P.roots[root]], [oref]+mk(W))
    assert len(outs)==1, outs
    o=outs[0]; rv=o.outcome[1]
    if some:
        if rv.variant==0:
            return ('None', show(W,o,cid))
        rv=rv.fields[0]
    yielded=[]
    cell=o.new_obj(rv); iref=Ref(("H",cell.id),())
    for _ in range(consume):
        outs=W.call(o, P.inst[P.roots[itroot_next]], [iref]); assert len(outs)==1; o=outs[0]
        r=o.outcome[1]
        yielded.append(None if r.variant==0 else W.entry_kv(o, r.fields[0]))
    outs=W.call(o, P.inst[P.roots[itroot_drop]], [o.heap[cell.id]]); assert len(outs)==1, [x.outcome for x in outs]; o=outs[0]
    return (yielded, show(W,o,cid), W.sh.unknown())
t=time.time()
E=[("k",1),("m",1),("k",2),("k",1)]
for c in (0,1,2,5):
    try:
        print('insert k', c, seq(E,"root_object_insert", lambda W:[W.key("k"),W.val(9)], c, "root_object_removed_by_insertion_next","root_object_removed_by_insertion_drop", some=True))
        print('insert_front k', c, seq(E,"root_object_insert_front", lambda W:[W.key("k"),W.val(9)], c, "root_object_removed_by_insert_front_next","root_object_removed_by_insert_front_drop"))
        print('insert_front m', c, seq(E,"root_object_insert_front", lambda W:[W.key("m"),W.val(9)], c, "root_object_removed_by_insert_front_next","root_object_removed_by_insert_front_drop"))
        print('remove k', c, seq(E,"root_object_remove", lambda W:[W.key("k")], c, "root_object_removed_entries_next","root_object_removed_entries_drop"))
    except Exception as e:
        traceback.print_exc(limit=4); print('EXC', e)
print(time.time()-t)
