import sys; sys.path.insert(0,'/verif')
from jsv import facts, printer, linear
from jsv.absint import Undecided
P,I,info=facts.load()
pm=printer.PrinterModel(P)
for kind in ('array','object'):
  for n in (0,1,2):
    for limit in ('None','Item','ItemOrWidth'):
        sc=printer.Scenario(n, limit=limit, kind=kind)
        try:
            rs=pm.run_precompute(sc)
        except Undecided as e:
            print(sc.tag(),'UNDECIDED',e,e.site); continue
        for r in rs:
            if r['outcome'][0]!='return': print(sc.tag(), r['outcome']); continue
            sz=r['size']
            desc='Expanded' if sz.variant==0 else 'Width('+linear.show(linear.lin(sz.fields[0]), pm.names)+')'
            print(sc.tag(), desc, 'preds', [(repr(e),t) for e,t in r['state'].preds], {pm.names.get(k,k):v for k,v in r['state'].cons.items() if k in pm.names and v!=((0,2**64-1),)}, [e[:3] for e in r['events'] if e[0] not in ('push','new')])
for kind in ('array','object'):
  for n in (0,1,2):
    for sk in ('Expanded','Width'):
        sc=printer.Scenario(n, size_kind=sk, kind=kind)
        try:
            rs=pm.run_emit(sc)
        except Undecided as e:
            print(sc.tag(),'UNDECIDED',e,e.site); continue
        for r in rs:
            print(sc.tag(), r['outcome'][0], r['events'], r['index_after'])
