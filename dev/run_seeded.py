#!/usr/bin/env python3
"""Re-run checks against the packaged seeded changes (/verif/seeded/<ID>-<k>/patch.diff) or refactorings
(/verif/refactorings/<area>-<k>/patch.diff), using a pool of scratch worktrees under /tmp/jsv-wt (created on demand,
removed at the end).  usage: run_seeded.py [--kind seeded|refactorings] [--ids C01-1,C06-*] [--checks own|all|C01,C02]
Prints one JSON line per (change, check): [id, check, CAUGHT|missed|ERROR, seconds, first reports]."""
import fnmatch, json, os, queue, subprocess, sys, threading, time

def arg(name, default):
    for a in sys.argv[1:]:
        if a.startswith("--%s=" % name):
            return a.split("=", 1)[1]
    return default

KIND = arg("kind", "seeded")
IDS = arg("ids", "*").split(",")
CHECKS = arg("checks", "own")
NW = int(arg("workers", "8"))
BASE = "/verif/" + KIND
POOL = os.environ.get("JSV_POOL", "/tmp/jsv-wt")
ALL = ["C%02d" % i for i in range(1, 21)]

def sh(cmd, cwd=None, env=None, timeout=3600):
    e = dict(os.environ, CARGO_NET_OFFLINE="true")
    if env: e.update(env)
    p = subprocess.run(cmd, cwd=cwd, shell=True, capture_output=True, text=True, timeout=timeout, env=e)
    return p.returncode, p.stdout + p.stderr

ids = sorted(d for d in os.listdir(BASE) if os.path.exists(os.path.join(BASE, d, "patch.diff")) and any(fnmatch.fnmatch(d, p) for p in IDS))
q = queue.Queue()
for i in ids:
    q.put(i)
lock = threading.Lock()

def worker(n):
    wt = "%s/w%d" % (POOL, n)
    if not os.path.isdir(wt):
        os.makedirs(POOL, exist_ok=True)
        sh("git -C /repo worktree add -q --detach %s HEAD" % wt)
    head = sh("git -C /repo rev-parse HEAD")[1].strip()
    sh("git checkout -q -- . && git clean -fdq && git checkout -q --detach %s" % head, wt)
    while True:
        try:
            mid = q.get_nowait()
        except queue.Empty:
            break
        sh("git checkout -q -- . && git clean -fdq -e target -e Cargo.lock", wt)
        if "--validate" in sys.argv:
            # re-confirm a packaged seeded change at /repo's HEAD: demo passes without it, fails with it, suite passes, builds
            r = {}
            sh("cp %s/%s/demo.rs tests/jsvdemo.rs" % (BASE, mid), wt)
            rc, o = sh("cargo test --offline --all-features --test jsvdemo 2>&1 | tail -5", wt)
            r["pristine_demo_pass"] = ("test result: ok" in o) and ("0 passed" not in o.split("test result: ok")[-1][:30])
            rc, o = sh("git apply %s/%s/patch.diff" % (BASE, mid), wt)
            r["applies"] = rc == 0
            rc, o = sh("cargo test --offline --all-features --test jsvdemo 2>&1 | tail -8", wt)
            r["mutant_demo_fails"] = "FAILED" in o or "failed" in o or "panicked" in o
            sh("rm tests/jsvdemo.rs", wt)
            rc, o = sh("cargo test --offline --no-fail-fast 2>&1 | grep -E '^test result|FAILED|error' | head -20", wt)
            r["suite_passes"] = o.count("test result: ok") >= 5 and "FAILED" not in o and "error" not in o
            rc, o2 = sh("cargo build --offline --all-features 2>&1 | tail -2", wt)
            r["builds_all_features"] = "Finished" in o2
            with lock:
                print(json.dumps([mid, "validate", "CONFIRMED" if all(r.values()) else "NOT-CONFIRMED", r])); sys.stdout.flush()
            sh("git checkout -q -- . && git clean -fdq -e target -e Cargo.lock", wt)
            continue
        rc, o = sh("git apply %s/%s/patch.diff" % (BASE, mid), wt)
        if rc != 0:
            with lock:
                print(json.dumps([mid, "-", "APPLY-FAIL", 0, o[-200:]])); sys.stdout.flush()
            continue
        own = mid.split("-")[0]
        checks = ALL if (CHECKS == "all" or KIND != "seeded" and CHECKS == "own") else ([own] if CHECKS == "own" else CHECKS.split(","))
        for c in checks:
            t0 = time.time()
            rc, o = sh("/verif/check %s" % c, "/verif", env={"JSV_REPO": wt, "JSV_CACHE_KEEP": "200", "JSV_OUT_DIR": "%s/out%d" % (POOL, n)})
            lines = [l for l in o.splitlines() if l.startswith("  [")]
            verdict = "CAUGHT" if rc == 1 and "VIOLATION" in o else ("missed" if rc == 0 else "ERROR rc=%d" % rc)
            with lock:
                print(json.dumps([mid, c, verdict, round(time.time() - t0, 1), [l[:260] for l in lines][:3] if verdict != "missed" else ""])); sys.stdout.flush()
    sh("git checkout -q -- . && git clean -fdq", wt)

ts = [threading.Thread(target=worker, args=(n,)) for n in range(NW)]
[t.start() for t in ts]
[t.join() for t in ts]
if "--keep" not in sys.argv:
    for n in range(NW):
        sh("git -C /repo worktree remove --force %s/w%d" % (POOL, n))
    sh("rm -rf %s" % POOL)
