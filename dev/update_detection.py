#!/usr/bin/env python3
"""Refresh the `detection` block of every /verif/seeded/<ID>-<k>/meta.json from full runs of
`dev/run_seeded.py --checks=all` / `dev/run_mutants.py --checks=...` (one JSON line per (change, check); several files may be
given, later ones override earlier ones)."""
import json, os, sys, collections
M = collections.defaultdict(dict)
for f in sys.argv[1:]:  # later files override earlier ones
    for l in open(f):
        try:
            r = json.loads(l)
        except Exception:
            continue
        if len(r) >= 5 and r[1].startswith("C"):
            rep = r[4] if isinstance(r[4], list) else []
            if any(".internal]" in x for x in rep) or r[2].startswith("ERROR"):
                continue  # an infrastructure failure of that run (cache race), not a verdict
            M[r[0]][r[1]] = (r[2], rep)
head = os.popen("git -C /repo rev-parse --short HEAD").read().strip()
n = 0
for mid, row in sorted(M.items()):
    p = "/verif/seeded/%s/meta.json" % mid
    if not os.path.exists(p):
        continue
    m = json.load(open(p))
    own = mid.split("-")[0]
    if own not in row:
        continue
    m["detection"] = {
        "own_check": own,
        "own_check_verdict": row[own][0],
        "own_check_first_reports": row[own][1][:3],
        "other_checks_that_also_report": {c: v[1][:1] for c, v in sorted(row.items()) if c != own and v[0] == "CAUGHT"},
        "other_checks_silent": sorted(c for c, v in row.items() if c != own and v[0] == "missed"),
        "checks_in_error": sorted(c for c, v in row.items() if v[0].startswith("ERROR")),
        "how": "patch applied in a scratch worktree of /repo at %s; `JSV_REPO=<worktree> ./check <ID> --tier quick` for all twenty checks (dev/run_seeded.py --checks=all)" % head,
    }
    json.dump(m, open(p, "w"), indent=1)
    n += 1
print("updated", n)
