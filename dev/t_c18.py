import sys, re
sys.path.insert(0,'/verif')
from jsv import facts, shape
from jsv.absint import *
from jsv.summ import AVec
P,I,info=facts.load()
inst = shape.find_inst(P, r"<impl json_syntax::Value>::from_serde_json$")
print(inst["name"], inst["id"])
for i in P.inst:
    if re.search(r"as std::iter::Iterator>::next$|as std::iter::IntoIterator>::into_iter$|Iterator>::collect::<|FromIterator", i["name"]) and i["id"] in P.reachable([inst["id"]]):
        print("  ", i["name"][:200], i.get("has_mir"), i["crate"])
sv=[t for t in P.types if t.get("name")=="serde_json::Value" and t["k"]=="adt"][0]
sn=[v["name"] for v in sv["variants"]]
print(sn)
def try_arm(vn):
    sh = shape.Shape(P)
    vi = sn.index(vn)
    payload=[Top(f["ty"],"payload") for f in sv["variants"][vi]["fields"]]
    sh.cut(r"as std::iter::IntoIterator>::into_iter$", "into_iter", ret=lambda it,st,c,a: Top(shape.ret_ty(it,c),"the-iter"))
    def coll(it, st, inst_, args, call):
        print("collect called:", inst_["name"][:150]); print("   arg:", args[0])
        v=args[0]
        if isinstance(v, Agg):
            t=P.types[v.ty]; print("   type", t.get("name"), [f["name"] for f in t["variants"][0]["fields"]])
            for f in v.fields:
                print("    field", f, getattr(f,"ty",None), P.types[f.ty] if getattr(f,"ty",None) is not None else None)
        raise Undecided("stop")
    sh.it.summaries.insert(0,(lambda i_: bool(re.search(r"Iterator>::collect::<", i_["name"])), coll))
    try:
        outs=sh.run(inst,[Agg(sv["id"],vi,payload)])
        print(outs)
    except Undecided as e:
        print("undecided", e)
try_arm("Array"); try_arm("Object")
