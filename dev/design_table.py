#!/usr/bin/env python3
"""Print the markdown table 'seeded change -> checks' for DESIGN.md section 8 from /verif/seeded/*/meta.json."""
import json, glob, os, re
rows = []
for d in sorted(glob.glob("/verif/seeded/*/meta.json")):
    m = json.load(open(d))
    title = re.sub(r"^(Change|Mutant|Seeded change)? *\d+ *[—:.-]* *", "", m["title"]).strip()
    title = title.replace("|", "/")
    det = m["detection"]
    rep = det["own_check_first_reports"][0] if det["own_check_first_reports"] else ""
    mm = re.search(r"\[(C\d\d\.[\w.]+|E2\.\w+)\]", rep)
    rule = mm.group(1) if mm else ""
    others = ", ".join(sorted(det["other_checks_that_also_report"])) or "—"
    rows.append("| %s | %s | %s (`%s`) | %s |" % (m["id"], title[:95], det["own_check_verdict"].lower(), rule, others))
print("| seeded change | what it does | own check | other checks that also report |")
print("|---|---|---|---|")
print("\n".join(rows))
