import sys, signal, traceback, faulthandler
sys.path.insert(0,'/verif')
faulthandler.register(signal.SIGUSR1)
def h(sig, frm):
    traceback.print_stack(frm, limit=25); sys.exit(3)
signal.signal(signal.SIGALRM, h); signal.alarm(150)
from jsv import runner
sys.exit(runner.main(['C05']))
