import sys
sys.path.insert(0,'/verif')
from jsv import facts, entry
from jsv.absint import *
P,I,info=facts.load()
root="root_sub_fragments_next"
it = entry.mk_interp(P)
rinst = P.inst[P.roots[root]]
st = State()
sf_ty = P.types[rinst["locals"][1]]["to"]
t = P.types[sf_ty]
vnames = [v["name"] for v in t["variants"]]
ent = vnames.index("Entry")
ftys = [f["ty"] for f in t["variants"][ent]["fields"]]
kcell = Top(None, "the-key"); vcell = Top(None, "the-value")
cell = st.new_obj(Agg(sf_ty, ent, (Agg(ftys[0], 1, (kcell,)), Agg(ftys[1], 1, (vcell,)))))
it.push_frame(st, rinst["id"], [Ref(("H", cell.id), ())], None, None)
outs = it.run(st)
for o in outs: print(o.outcome, o.heap.get(cell.id))
