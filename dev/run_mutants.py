#!/usr/bin/env python3
"""Development harness: run checks against the seeded changes in parallel, each applied in its own
scratch worktree (JSV_REPO points the extraction at the worktree). usage: run_mutants.py [ids...] [--checks C01,C02]"""
import json, os, subprocess, sys, concurrent.futures as cf, time
ROOT = os.environ.get("MUT_ROOT", "/tmp/mut")
OFF = int(os.environ.get("MUT_OFFSET", "0"))

def sh(cmd, cwd, env=None, timeout=3600):
    e = dict(os.environ, CARGO_NET_OFFLINE="true")
    if env: e.update(env)
    p = subprocess.run(cmd, cwd=cwd, shell=True, capture_output=True, text=True, timeout=timeout, env=e)
    return p.returncode, p.stdout + p.stderr

args = [a for a in sys.argv[1:] if not a.startswith("--")]
checks = None
for a in sys.argv[1:]:
    if a.startswith("--checks="):
        checks = a.split("=", 1)[1].split(",")
SRC = os.environ.get("MUT_SRC", ROOT)

def one(pid):
    wt = ROOT + "/%s" % pid
    out = "%s/%s.out" % (SRC, pid) if os.path.isdir("%s/%s.out" % (SRC, pid)) else "/verif/seeded"
    res = []
    head = subprocess.run("git -C /repo rev-parse HEAD", shell=True, capture_output=True, text=True).stdout.strip()
    sh("git checkout -q -- . && git clean -fdq -e target -e Cargo.lock && git checkout -q --detach %s" % head, wt)
    for k in (1, 2, 3):
        diff = "%s/change%d.diff" % (out, k)
        if not os.path.exists(diff):
            diff = "/verif/seeded/%s-%d/patch.diff" % (pid, k)
            if not os.path.exists(diff):
                continue
        sh("git checkout -q -- . && git clean -fdq -e target -e Cargo.lock", wt)
        rc, o = sh("git apply %s" % diff, wt)
        if rc != 0:
            res.append(("%s-%d" % (pid, k + OFF), "APPLY-FAIL", o[-200:])); continue
        for c in (checks or [pid]):
            t0 = time.time()
            od = ROOT + "/out-%s-%d" % (pid, k)
            rc, o = sh("/verif/check %s" % c, "/verif", env={"JSV_REPO": wt, "JSV_CACHE_KEEP": "100", "JSV_OUT_DIR": od})
            lines = [l for l in o.splitlines() if l.startswith("VIOLATION") or l.startswith("OK ") or l.startswith("  [")]
            verdict = "CAUGHT" if rc == 1 and any(l.startswith("VIOLATION") for l in lines) else ("missed" if rc == 0 else "ERROR rc=%d" % rc)
            res.append(("%s-%d" % (pid, k + OFF), c, verdict, round(time.time() - t0, 1), [l[:260] for l in lines if l.startswith("  [")][:3] if verdict != "missed" else "", o[-400:] if verdict.startswith("ERROR") else ""))
        sh("git checkout -q -- . && git clean -fdq -e target -e Cargo.lock", wt)
    return res

ids = args or ["C%02d" % i for i in range(1, 21)]
with cf.ThreadPoolExecutor(8) as ex:
    for rs in ex.map(one, ids):
        for r in rs:
            print(json.dumps(r))
            sys.stdout.flush()
