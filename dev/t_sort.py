import sys
sys.path.insert(0,'/verif')
from jsv import facts, shape
from jsv.absint import *
P,I,info=facts.load()
cl=[i for i in P.inst if i['name'].startswith('json_syntax::Object::sort::{closure#0}')]
print([c['name'] for c in cl])
inst=cl[0]
ety=[t for t in P.types if t.get("name")=="json_syntax::object::Entry" and t["s"].endswith("SmallString<[u8; 16]>>")][0]["id"]
sh=shape.Shape(P)
a=sh.cell(Agg(ety,0,(Top(None,"ka"),Top(None,"va")))); b=sh.cell(Agg(ety,0,(Top(None,"kb"),Top(None,"vb"))))
env=Agg(inst['locals'][1] if P.types[inst['locals'][1]]['k']!='ref' else P.types[inst['locals'][1]]['to'],0,())
outs=sh.run(inst,[sh.cell(env), a, b])
print(len(outs), sh.unknown())
for o in outs:
    print(o.outcome, [(e[0], e[-1][:90], [repr(x)[:40] for x in e[2]]) for e in o.events])
