import json, collections, sys
f = sys.argv[1] if len(sys.argv) > 1 else '/tmp/mut/matrix.jsonl'
M=collections.defaultdict(dict); R={}
for l in open(f):
    try: r=json.loads(l)
    except: continue
    M[r[0]][r[1]]=r[2]; R[(r[0],r[1])]=r
checks=["C%02d"%i for i in range(1,21)]
missed=[]
for mid in sorted(M):
    own=mid.split('-')[0]
    row=M[mid]
    caught=[c for c in checks if row.get(c)=="CAUGHT"]
    errs=[c+":"+row[c] for c in checks if row.get(c,'').startswith("ERROR")]
    print(mid, row.get(own), [c for c in caught if c!=own], errs)
    if row.get(own)!="CAUGHT": missed.append(mid)
print("missed by own check:", missed)
if '-v' in sys.argv:
    for (m,c),r in sorted(R.items()):
        if r[2]=="CAUGHT" and c!=m.split('-')[0]: print(m,c,(r[4][0] if r[4] else '')[:200])
