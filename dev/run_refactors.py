#!/usr/bin/env python3
"""Run all twenty checks against behaviour-preserving refactorings (/tmp/ref/<area>.out/refactor<k>.diff), each applied in
the scratch worktree /tmp/ref/<area>.  Every VIOLATION here is a false alarm (or a fail-closed 'anchor lost')."""
import json, os, subprocess, sys, concurrent.futures as cf, time
ROOT = os.environ.get("REF_ROOT", "/tmp/ref")
CHECKS = ["C%02d" % i for i in range(1, 21)]

def sh(cmd, cwd, env=None, timeout=3600):
    e = dict(os.environ, CARGO_NET_OFFLINE="true")
    if env: e.update(env)
    p = subprocess.run(cmd, cwd=cwd, shell=True, capture_output=True, text=True, timeout=timeout, env=e)
    return p.returncode, p.stdout + p.stderr

def one(area):
    wt = "%s/%s" % (ROOT, area)
    res = []
    head = subprocess.run("git -C /repo rev-parse HEAD", shell=True, capture_output=True, text=True).stdout.strip()
    sh("git checkout -q -- . && git clean -fdq -e target -e Cargo.lock && git checkout -q --detach %s" % head, wt)
    for k in range(1, 9):
        diff = "%s/%s.out/refactor%d.diff" % (ROOT, area, k)
        if not os.path.exists(diff):
            continue
        sh("git checkout -q -- . && git clean -fdq -e target -e Cargo.lock", wt)
        rc, o = sh("git apply %s" % diff, wt)
        if rc != 0:
            res.append(("%s-%d" % (area, k), "APPLY-FAIL", o[-200:])); continue
        rc, o = sh("cargo test --offline --all-features 2>&1 | grep -E '^test result|FAILED|^error' | head", wt)
        suite = "ok" if ("test result: ok" in o and "FAILED" not in o and "error" not in o) else "SUITE-FAILS"
        for c in (sys.argv[2].split(",") if len(sys.argv) > 2 else CHECKS):
            rc, o = sh("/verif/check %s" % c, "/verif", env={"JSV_REPO": wt, "JSV_CACHE_KEEP": "100", "JSV_OUT_DIR": "%s/out-%s-%d" % (ROOT, area, k)})
            lines = [l for l in o.splitlines() if l.startswith("VIOLATION") or l.startswith("  [")]
            verdict = "ALARM" if rc != 0 else "silent"
            res.append(("%s-%d" % (area, k), c, verdict, suite, [l[:300] for l in lines if l.startswith("  [")][:3]))
        sh("git checkout -q -- . && git clean -fdq -e target -e Cargo.lock", wt)
    return res

areas = sys.argv[1].split(",") if len(sys.argv) > 1 and sys.argv[1] != "all" else ["parse", "print", "object", "misc"]
with cf.ThreadPoolExecutor(4) as ex:
    for rs in ex.map(one, areas):
        for r in rs:
            if len(r) == 3 or r[2] != "silent" or r[3] != "ok":
                print(json.dumps(r))
        print(json.dumps(["summary", len([r for r in rs if len(r) > 3]), "runs", len([r for r in rs if len(r) > 3 and r[2] == "ALARM"]), "alarms"]))
        sys.stdout.flush()
