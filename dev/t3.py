import sys, time; sys.path.insert(0,'/verif')
from jsv import facts, iset
from jsv.pmodel import PModel
from jsv.summ import AVec
from jsv.absint import Undecided
P, I, info = facts.load()
pm = PModel(P)
t0=time.time()
init = pm.initial(False, False)
seen = {}
work = []
def depth(st):
    for m in st.heap.values():
        if isinstance(m, AVec) and m.role=='stack': return len(m.items)
    return 0
for k,o in init:
    key,_ = pm.suspend_key(o)
    seen[key]=(o,''); work.append((o,''))
trans=0
K=1
N=int(sys.argv[1])
from collections import deque
work=deque(work)
while work and len(seen)<N:
    st,hist = work.popleft()
    for what in ('eof','err','char'):
        sym, outs = pm.resume(st, what)
        for kind,o in outs:
            trans+=1
            lab = what if what!='char' else iset.show(o.cons.get(sym.id, ()),True)[:30] if sym and sym.id in o.cons else 'char?'
            if kind=='read':
                if depth(o) > K: continue
                key,_ = pm.suspend_key(o)
                if key not in seen:
                    seen[key]=(o,hist+' '+lab); work.append((o,hist+' '+lab))
print('states',len(seen),'transitions',trans,'time',time.time()-t0)
ks=list(seen.items())
for key,(o,h) in ks[-6:]:
    print('=====',h)
    print(' frames', [(P.inst[f[0]]['name'][-50:], f[1]) for f in key[0]])
    print(key)
