import sys; sys.path.insert(0,'/verif')
from jsv import facts, tables, iset
P,I,info=facts.load()
ex,rows=tables.char_loop_table(P,'root_string_literal')
print(len(ex.nodes),'nodes')
for r in rows:
    print(r['kind'], iset.show(r['dom'],True) if r.get('dom') else '', r['events'], 'dst' if r['dst'] else r['final'][0])
