#!/usr/bin/env python3
"""Package the confirmed seeded changes as /verif/seeded/<ID>-<k>/ (patch.diff, demo.rs, meta.json).
Inputs: /tmp/mut/<ID>.out/{change<k>.diff,demo<k>.rs,notes.md}, /tmp/mut/validation.json (dev/validate_mutants.py),
optionally /tmp/mut/matrix.json (dev/run_mutants.py output lines) for the detection table."""
import json, os, re, shutil, sys
ROOT = os.environ.get("MUT_ROOT", "/tmp/mut")
OFF = int(os.environ.get("MUT_OFFSET", "0"))

V = "/verif/seeded"
val = {r["id"]: r for r in json.load(open(ROOT + "/validation.json"))}
matrix = {}
if os.path.exists(ROOT + "/matrix.jsonl"):
    for l in open(ROOT + "/matrix.jsonl"):
        try:
            r = json.loads(l)
        except Exception:
            continue
        if len(r) >= 3:
            matrix.setdefault(r[0], {})[r[1]] = {"verdict": r[2], "first_reports": r[4] if len(r) > 4 else []}
head = os.popen("git -C /repo rev-parse --short HEAD").read().strip()
for pid in ["C%02d" % i for i in range(1, 21)]:
    out = ROOT + "/%s.out" % pid
    if not os.path.isdir(out):
        continue
    notes = open(os.path.join(out, "notes.md")).read() if os.path.exists(os.path.join(out, "notes.md")) else ""
    secs = re.split(r"\n(?=##+ +(?:Change|change|Mutant|Seeded change|\d+[.)]))", notes)
    for k in (1, 2, 3):  # k-th change of the round
        mid = "%s-%d" % (pid, k + OFF)
        diff = os.path.join(out, "change%d.diff" % k)
        demo = os.path.join(out, "demo%d.rs" % k)
        if not (os.path.exists(diff) and os.path.exists(demo)):
            continue
        v = val.get(mid)
        if not v or not v.get("confirmed"):
            print("skip (not confirmed)", mid)
            continue
        d = os.path.join(V, mid)
        os.makedirs(d, exist_ok=True)
        shutil.copy(diff, os.path.join(d, "patch.diff"))
        shutil.copy(demo, os.path.join(d, "demo.rs"))
        sec = ""
        for s in secs:
            if re.match(r"##+ +(?:Change|change|Mutant|Seeded change)? *%d\b" % k, s):
                sec = s
                break
        title = sec.splitlines()[0].lstrip("# ").strip() if sec else ""
        items = re.split(r"\n\s*\n|\n(?=(?:[*-] +|\*\*)[A-Z*])", "\n" + sec)
        def para(label):
            for it_ in items:
                head = it_.strip()[:90]
                lab = re.split(r"[:.]\*\*|\*\*[:.]?|:", head.lstrip("*- "), 1)[0]
                if re.search(label, lab, re.I):
                    body = it_.strip()
                    body = re.sub(r"^[*-] +", "", body)
                    return re.sub(r"\s+", " ", body).strip()[:2500]
            return ""
        meta = {
            "id": mid,
            "property": pid,
            "title": title,
            "what": para(r"^what( the change is| changed| it is| it does)?$|^edit$|^the change$|^change$|^mutation$") or (re.sub(r"\s+", " ", items[2]).strip()[:1500] if len(items) > 2 else ""),
            "why_it_breaks_the_property": para(r"^why"),
            "needs_to_manifest": para(r"needed|circumstance|manifest|trigger|needs|when it shows|specific"),
            "author_notes": sec[:6000],
            "files_touched": sorted(set(re.findall(r"^\+\+\+ b/(\S+)", open(diff).read(), re.M))),
            "confirmed_on_repo_head": head,
            "what_i_ran": [
                "git worktree add --detach /tmp/mut/%s <HEAD of /repo>; cp demo.rs tests/demo%d.rs" % (pid, k),
                "cargo test --offline --all-features --test demo%d   (pristine: all demo tests pass)" % k,
                "git apply patch.diff; cargo test --offline --all-features --test demo%d   (with the change: the demo fails)" % k,
                "cargo test --offline --no-fail-fast   (with the change, demo removed: the repository's own suite still passes)",
                "cargo build --offline --all-features   (with the change: builds)",
            ],
            "confirmation": {x: v.get(x) for x in ("applies", "pristine_demo_pass", "mutant_demo_fails", "suite_passes", "builds_all_features")},
            "detection": {
                "own_check": pid,
                "own_check_verdict": matrix.get(mid, {}).get(pid, {}).get("verdict", "not run"),
                "own_check_first_reports": matrix.get(mid, {}).get(pid, {}).get("first_reports", []),
                "other_checks_that_also_report": {c: x["first_reports"][:1] for c, x in sorted(matrix.get(mid, {}).items()) if c != pid and x["verdict"] == "CAUGHT"},
                "other_checks_silent": sorted(c for c, x in matrix.get(mid, {}).items() if c != pid and x["verdict"] == "missed"),
                "how": "patch applied in a scratch worktree of /repo HEAD; `JSV_REPO=<worktree> ./check <ID> --tier quick` for all twenty checks (dev/run_mutants.py)",
            },
        }
        json.dump(meta, open(os.path.join(d, "meta.json"), "w"), indent=1)
        print("packaged", mid, "|", title[:70], "| needs:", bool(meta["needs_to_manifest"]))
