import sys, time
sys.path.insert(0,'/verif')
from jsv import facts, shape, entry
from jsv.absint import *
P,I,info=facts.load()
for root in ('root_parse_slice',):
    nx=entry.find_next_instance(P,root)
    for n in nx:
        src,res=entry.check_adaptor(P,n)
        print('src',src[:200], len(res))
c=[i for i in P.inst if i['name'].startswith('json_syntax::parse::decode_utf8')]
print([i['name'] for i in c])
inst=c[0]
sh=shape.Shape(P)
def from_utf8(it,st,call,a):
    rt=shape.ret_ty(it,call); t=P.types[rt]
    okty=t['variants'][0]['fields'][0]['ty']; errty=t['variants'][1]['fields'][0]['ty']
    s2=st.copy(); s3=st.copy()
    return [(s2, Agg(rt,0,(Top(okty,('str-of',a[0])),))), (s3, Agg(rt,1,(Top(errty,('utf8error-of',a[0])),)))]
sh.cut(r'^core::str::converts::from_utf8$|^std::str::from_utf8$', 'from_utf8', ret=from_utf8, field='path')
sh.cut(r'Utf8Error::valid_up_to$', 'valid_up_to', ret=lambda it,st,c,a: Top(shape.ret_ty(it,c), ('valid_up_to', shape.deref(it,st,a[0],1))), field='path')
sh.cut(r'^core::slice::<impl \[T\]>::split_at$', 'split_at', ret=lambda it,st,c,a: Agg(shape.ret_ty(it,c),0,(Top(None,('prefix',a[0],a[1])), Top(None,('suffix',a[0],a[1])))), field='path')
sh.cut(r'from_utf8_unchecked$', 'unchecked', ret=lambda it,st,c,a: Top(shape.ret_ty(it,c), ('str-of',a[0])), field='path')
sh.cut(r'^core::str::<impl str>::chars$', 'chars', ret=lambda it,st,c,a: Top(shape.ret_ty(it,c), ('chars',a[0])), field='path')
sh.cut(r'^std::io::Error::new|^std::io::error::Error::new', 'ioerr', ret=lambda it,st,c,a: Top(shape.ret_ty(it,c), 'io-error'), field='path')
outs=sh.run(inst,[Top(inst['locals'][1],'content')])
print(len(outs), sh.unknown())
for o in outs:
    print(o.outcome[0], repr(o.outcome[1])[:600])
    print([ (e[0]) for e in o.events])
