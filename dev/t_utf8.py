import sys, time
sys.path.insert(0,'/verif')
from jsv import facts, utf8model
P,I,info=facts.load()
nid=[i['id'] for i in P.inst if i['name']=="<utf8_decode::safe::Decoder<std::iter::Copied<std::slice::Iter<'_, u8>>> as std::iter::Iterator>::next"][0]
t=time.time()
it,leaves,steps=utf8model.explore(P,nid)
print(len(leaves),'leaves',steps,'steps',time.time()-t)
import collections
print(collections.Counter((len(l.classes),l.eof,l.kind) for l in leaves))
t=time.time()
v,stats=utf8model.decide(it,leaves)
print(time.time()-t, stats)
for k,m in v: print(k,'--',m)
