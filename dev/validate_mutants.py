#!/usr/bin/env python3
"""Confirm the seeded changes produced by the sub-agents: in the scratch worktree /tmp/mut/<ID>
(checked out at /repo's HEAD) the demo passes on the pristine tree, fails with the change, and the
existing suite (default features) still passes with the change."""
import json, os, subprocess, sys, concurrent.futures as cf
ROOT = os.environ.get("MUT_ROOT", "/tmp/mut")
OFF = int(os.environ.get("MUT_OFFSET", "0"))

def sh(cmd, cwd, timeout=1800):
    p = subprocess.run(cmd, cwd=cwd, shell=True, capture_output=True, text=True, timeout=timeout,
                       env=dict(os.environ, CARGO_NET_OFFLINE="true"))
    return p.returncode, p.stdout + p.stderr

def one(pid):
    wt = ROOT + "/%s" % pid
    out = ROOT + "/%s.out" % pid
    res = []
    head = subprocess.run("git -C /repo rev-parse HEAD", shell=True, capture_output=True, text=True).stdout.strip()
    sh("git checkout -q -- . && git clean -fdq -e target -e Cargo.lock && git checkout -q --detach %s" % head, wt)
    for k in (1, 2, 3):
        diff = "%s/change%d.diff" % (out, k)
        demo = "%s/demo%d.rs" % (out, k)
        if not (os.path.exists(diff) and os.path.exists(demo)):
            continue
        r = {"id": "%s-%d" % (pid, k + OFF)}
        sh("git checkout -q -- . && git clean -fdq -e target -e Cargo.lock", wt)
        rc, o = sh("git apply --check %s" % diff, wt)
        r["applies"] = rc == 0
        if rc != 0:
            r["apply_err"] = o[-300:]
            res.append(r); continue
        sh("cp %s tests/demo%d.rs" % (demo, k), wt)
        rc, o = sh("cargo test --offline --all-features --test demo%d 2>&1 | tail -5" % k, wt)
        r["pristine_demo_pass"] = ("test result: ok" in o) and ("0 passed" not in o.split("test result: ok")[-1][:30])
        r["pristine_tail"] = o[-200:]
        sh("git apply %s" % diff, wt)
        rc, o = sh("cargo test --offline --all-features --test demo%d 2>&1 | tail -8" % k, wt)
        r["mutant_demo_fails"] = "FAILED" in o or "failed" in o or "panicked" in o
        sh("rm tests/demo%d.rs" % k, wt)
        rc, o = sh("cargo test --offline --no-fail-fast 2>&1 | grep -E '^test result|FAILED|error' | head -20", wt)
        oks = o.count("test result: ok")
        r["suite_passes"] = oks >= 5 and "FAILED" not in o and "error" not in o
        rc, o2 = sh("cargo build --offline --all-features 2>&1 | tail -2", wt)
        r["builds_all_features"] = "Finished" in o2
        sh("git checkout -q -- . && git clean -fdq -e target -e Cargo.lock", wt)
        res.append(r)
    return res

ids = sys.argv[1:] or ["C%02d" % i for i in range(1, 21)]
allr = []
with cf.ThreadPoolExecutor(8) as ex:
    for rs in ex.map(one, ids):
        for r in rs:
            ok = r.get("applies") and r.get("pristine_demo_pass") and r.get("mutant_demo_fails") and r.get("suite_passes") and r.get("builds_all_features")
            r["confirmed"] = bool(ok)
            print(json.dumps({k: v for k, v in r.items() if k not in ("pristine_tail",) or not ok}))
            allr.append(r)
old = {}
if os.path.exists(ROOT + "/validation.json"):
    old = {r["id"]: r for r in json.load(open(ROOT + "/validation.json"))}
old.update({r["id"]: r for r in allr})
json.dump(list(old.values()), open(ROOT + "/validation.json", "w"), indent=1)
print("confirmed", sum(r["confirmed"] for r in allr), "of", len(allr))
