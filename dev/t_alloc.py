import sys, re
sys.path.insert(0,'/verif')
from jsv import facts
P,I,info=facts.load()
roots=[v for k,v in P.roots.items() if k.startswith("root_parse") or "traverse" in k]
print(len(roots), [k for k in P.roots if k.startswith("root_parse")][:20])
reach=P.reachable(roots)
rx=re.compile(r"::(with_capacity|with_capacity_in|reserve|reserve_exact|try_reserve|try_reserve_exact|resize|resize_with|from_elem|repeat|extend_from_within|set_len|with_capacity_and_hasher)$")
for iid in sorted(reach):
    inst=P.inst[iid]
    if inst["crate"] not in ("json_syntax","jsvroots"): continue
    for s in P.sites(iid):
        c=s["callee"]
        if c is None: continue
        ci=P.inst[c]
        if rx.search(ci["path"]):
            print(inst["name"][:90], "->", ci["path"], "|", s.get("bb"))
