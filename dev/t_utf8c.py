import sys, time
sys.path.insert(0,'/verif')
from jsv import facts, shape, entry
from jsv.absint import *
P,I,info=facts.load()
for root in ('root_parse_slice','root_parse_str'):
    it, outs, opt = entry.run_entry(P, root, False)
    for o in outs:
        print(root, o.outcome[0])
        if o.outcome[0]=='cut':
            pref=o.outcome[2][0]
            parser=it.read_path(o,pref.base,pref.proj)
            print(repr(parser.fields[0])[:700])
