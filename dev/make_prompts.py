#!/usr/bin/env python3
"""Generate the sub-agent prompts for seeded changes from properties.jsonl (only the property text and the scratch
worktree are given to the agent).  usage: make_prompts.py <root dir> [ids...]"""
import json, os, re, sys
root = sys.argv[1]
ids = sys.argv[2:]
tmpl = open("/verif/dev/prompts/seeded_change_example_C06.txt").read()
a = tmpl.index("The property under study (id C06):")
b = tmpl.index("TASK. Produce up to THREE")
head, tail = tmpl[:a], tmpl[b:]
for l in open("/verif/properties.jsonl"):
    p = json.loads(l)
    pid = p["id"]
    if ids and pid not in ids:
        continue
    mid = "The property under study (id %s):\n\nTITLE: %s\n\nSTATEMENT: %s\n\nQUANTIFIER: %s\n\nWHY THE EXISTING TESTS CANNOT SETTLE IT: %s\n\nCODE ANCHORS (where the relevant mechanism lives): %s\n\n" % (
        pid, p["title"], p["statement"], p["quantifier"]["text"], p["why_tests_cant"], json.dumps(p["anchors"], indent=1))
    txt = (head + mid + tail).replace("/tmp/mut/C06", "%s/%s" % (root, pid)).replace("(id C06)", "(id %s)" % pid)
    os.makedirs(root, exist_ok=True)
    open("%s/%s.prompt.txt" % (root, pid), "w").write(txt)
    print("wrote", pid)
