"""Reviewed allowlist of panic sources (key = generic function path + kind + detail), one reason each.
An entry never suppresses a *different* source in the same function."""

PANIC_ALLOW = [
    {"path": "json_syntax::object::index_map::IndexMap::<S>::insert", "detail": "BoundsCheck",
     "reason": "`entries[index]`: every caller passes an index < entries.len() — push_entry passes the pre-push length after the push, "
               "push_entry_front passes 0 after inserting at 0, from_vec/sort pass 0..len (rule C06.model interprets every writer on all small objects; its specification of IndexMap::insert is undecided, hence a violation, for a position beyond the entries)"},
    {"path": "json_syntax::object::index_map::Indexes::insert", "detail": "Vec index API",
     "reason": "`other.insert(i, index)` with i the Err position of binary_search on the same vector, hence i <= len (rule C06.sorted)"},
    {"path": "<json_syntax::Traverse<'a> as std::iter::Iterator>::next", "detail": "Overflow(Add)",
     "reason": "`offset += 1` once per yielded fragment: bounded by the number of fragments of a value that exists in memory"},
    {"path": "json_syntax::parse::Parser::<C, E>::next_char::{closure#1}", "detail": "Overflow(Add)",
     "reason": "`position += len`: position is bounded by the total length of the input consumed (E2 records the assumption)"},
    {"path": "json_syntax::parse::decode_utf8", "detail": "Index::index",
     "reason": "`&content[..n]` with n = e.valid_up_to() of the validation error of the same slice, or content.len(): n <= content.len() "
               "(rule C01.entry/source checks exactly this data flow)"},
    {"path": "json_syntax::parse::decode_utf8", "detail": "slice API (core::slice::<impl [T]>::split_at)",
     "reason": "`content.split_at(e.valid_up_to())` with `e` the error of `from_utf8(content)` of the same slice: valid_up_to() <= content.len() by the contract of "
               "Utf8Error (rule C01.entry/source checks exactly this data flow: prefix(content, valid_up_to(utf8error-of(content))))"},
    {"path": None, "callback_on": "json_syntax::object::index_map::Indexes", "detail": "BoundsCheck",
     "reason": "`entries[indexes.rep]` in the hash table's callbacks (closures of the index-map module taking `&Indexes`: the re-hash callback reached through hashbrown's `&dyn Fn`, the probe's equality callback): every representative stored in the table is a position "
               "of the entries slice passed to the IndexMap operation — the precondition that rule C06.model checks at every IndexMap::get / insert / remove "
               "call while interpreting every Object operation on all small objects (objmodel.World.precond)"},
]


def allowed(path, detail, P=None, inst=None):
    for a in PANIC_ALLOW:
        if a["path"] is not None and a["path"] == path and a["detail"] in detail:
            return a
        if a["path"] is None and P is not None and inst is not None and a["detail"] in detail and _is_callback_on(P, inst, a["callback_on"]):
            return a
    return None


def _is_callback_on(P, inst, adt):
    """A closure defined in the module of `adt` whose only argument is `&adt` (identified by type, not by the name of the
    function that builds it)."""
    if inst.get("def_kind") != "Closure" or not inst["path"].startswith(adt.rsplit("::", 1)[0] + "::"):
        return False
    if inst.get("arg_count") != 2:
        return False
    t = P.types[inst["locals"][2]]
    return t["k"] == "ref" and P.types[t["to"]].get("name") == adt
