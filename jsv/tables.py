"""Extraction of per-character tables from loops over `str::chars()` (string_literal,
printed_string_size) and comparison helpers."""
import re

from . import iset, summ
from .absint import Agg, Conc, Expr, Interp, Obj, Ref, State, Str, Sym, Top, Undecided
from .explore import Explorer, path_domain
from .pmodel import role_of
from .summ import FmtLib, Lib

CHARS_NEXT = re.compile(r"^<std::str::Chars<'_> as std::iter::Iterator>::next$")


def mk(P):
    it = Interp(P)
    Lib(role_of).install(it)
    FmtLib().install(it)
    return it


def chars_handler(ex, st):
    """Resume `Chars::next`: None, or Some(fresh char)."""
    it = ex.it
    f = st.frames[-1]
    term = ex.p.inst[f.inst]["blocks"][f.bb]["t"]
    opt = it.place_ty(f, term["dest"])
    out = []
    s1 = st.copy()
    s1.outcome = st.outcome
    it.resume_cut(s1, Agg(opt, 0, ()))
    out.append((("end",), s1))
    s2 = st.copy()
    s2.outcome = st.outcome
    c = s2.fresh_sym(iset.CHAR, kind="input")
    it.resume_cut(s2, Agg(opt, 1, (c,)))
    out.append((("char", c), s2))
    return out


def char_loop_table(P, root, extra_args=None):
    """Explore a root of the shape `for c in s.chars() { ... }`. Returns (explorer, rows) where
    rows = list of dict(src, dom, events, dst, final, state)."""
    it = mk(P)
    it.cuts.append((lambda inst: bool(CHARS_NEXT.search(inst["name"])), "CHARS"))
    ex = Explorer(P, it)
    ex.handlers["CHARS"] = chars_handler
    ex.edge_info = lambda label, o: path_domain(it, o, label[1]) if label[0] == "char" else None
    rinst = P.inst[P.roots[root]]
    st = State()
    args = [Top(rinst["locals"][i], "arg%d" % i) for i in range(1, rinst["arg_count"] + 1)]
    it.push_frame(st, rinst["id"], args, None, None)
    ex.explore(st)
    rows = []
    for e in ex.edges:
        if e.label == "init":
            rows.append({"src": None, "kind": "init", "events": e.events, "dst": e.dst, "final": e.final, "state": e.state})
            continue
        if e.label[0] == "end":
            rows.append({"src": e.src, "kind": "end", "events": e.events, "dst": e.dst, "final": e.final, "state": e.state})
        else:
            sym = e.label[1]
            dom = e.info
            rows.append({"src": e.src, "kind": "char", "sym": sym, "dom": dom, "events": e.events, "dst": e.dst, "final": e.final, "state": e.state})
    return ex, rows


def render(it, events, env):
    """Concrete text written by a list of write events under an assignment of symbols."""
    out = []
    for e in events:
        if e[0] == "w":
            s = e[1]
            if not isinstance(s, Str):
                raise Undecided("write_str of a non-constant string")
            out.append(s.s if isinstance(s.s, str) else s.s.decode())
        elif e[0] == "wc":
            out.append(chr(it.eval_expr(e[1], env)))
        else:
            raise Undecided("cannot render event %r" % (e[0],))
    return "".join(out)


def rfc8785_escape(c):
    """RFC 8785 section 3.2.2.2 serialisation of one character inside a string."""
    if c == 0x22:
        return '\\"'
    if c == 0x5C:
        return "\\\\"
    short = {0x08: "\\b", 0x09: "\\t", 0x0A: "\\n", 0x0C: "\\f", 0x0D: "\\r"}
    if c in short:
        return short[c]
    if c < 0x20:
        return "\\u%04x" % c
    return chr(c)


def rfc8259_unescape(s):
    """Decode one string element per RFC 8259 section 7 (used to check the printer's escapes are
    the inverse of what the parser accepts); returns code point or None if not a valid element."""
    if len(s) == 1:
        c = ord(s)
        return None if c < 0x20 or c in (0x22, 0x5C) else c
    if s[0] != "\\":
        return None
    simple = {'"': 0x22, "\\": 0x5C, "/": 0x2F, "b": 8, "f": 0xC, "n": 0xA, "r": 0xD, "t": 9}
    if len(s) == 2:
        return simple.get(s[1])
    if len(s) == 6 and s[1] == "u" and all(ch in "0123456789abcdefABCDEF" for ch in s[2:]):
        return int(s[2:], 16)
    return None
