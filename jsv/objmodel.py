"""C06.model — every mutating operation of Object, interpreted from its MIR on every small abstract object whose key
index is exact, must (i) leave the entries that the documented list semantics prescribe, (ii) return what the list model
returns and (iii) leave the key index exact again.  By induction over histories this is the statement of C06 for
objects within the bound; the hash table itself is replaced by its specification (a multimap key -> sorted positions)
at the IndexMap API, whose bucket-level code is checked separately (C06.shift, C06.sorted).

Abstract values: a key is Top(("key", k)), a value Top(("val", v)); an Object is
Agg(Object, (entries: AVec of Entry(key, value), indexes: Obj -> IdxModel)).  IdxModel is immutable and lives in the
state's heap, so it forks with the paths."""
import itertools
import re

from . import shape
from .absint import FALSE, TRUE, UNIT, Agg, CallThen, Conc, FnItem, Obj, Ref, Top, Undecided
from .summ import AVec, ret_ty


class IdxModel:
    kind = "idx-model"

    def __init__(self, m=()):
        self.m = tuple(sorted((k, tuple(p)) for k, p in m))

    def get(self, k):
        for kk, p in self.m:
            if kk == k:
                return p
        return ()

    def with_(self, k, pos):
        d = dict(self.m)
        if pos:
            d[k] = tuple(pos)
        else:
            d.pop(k, None)
        return IdxModel(d.items())

    def map_positions(self, f):
        return IdxModel((k, tuple(f(x) for x in p)) for k, p in self.m)

    def __repr__(self):
        return "Idx%r" % (self.m,)

    def __eq__(self, o):
        return isinstance(o, IdxModel) and o.m == self.m

    def __hash__(self):
        return hash(self.m)


def exact_index(entries):
    d = {}
    for i, (k, _) in enumerate(entries):
        d.setdefault(k, []).append(i)
    return IdxModel(d.items())


KEYS = ("k", "m")
VALS = (1, 2)
# two abstract keys on which code-point order and UTF-16 code-unit order disagree: "\u{e000}" and "\u{10000}"
# (code points: E000 < 10000; UTF-16: D800 DC00 < E000)
UKEYS = ("e000", "10000")
CP_RANK = {"k": 0, "m": 1, "z": 2, "e000": 3, "10000": 4}
U16_RANK = {"k": 0, "m": 1, "z": 2, "10000": 3, "e000": 4}


class World:
    """One Shape with the IndexMap specification installed and helpers to build / read abstract objects."""

    def __init__(self, P):
        self.P = P
        self.sh = shape.Shape(P)
        self.it = self.sh.it
        T = P.types
        ot = [t for t in T if t.get("name") == "json_syntax::Object" and t["k"] == "adt"]
        et = [t for t in T if t.get("name") == "json_syntax::object::Entry" and t["s"] == "json_syntax::object::Entry<smallstr::string::SmallString<[u8; 16]>>"]
        if len(ot) != 1 or len(et) != 1:
            raise Undecided("Object / Entry types not found")
        self.oty, self.ety = ot[0]["id"], et[0]["id"]
        names = [f["name"] for f in ot[0]["variants"][0]["fields"]]
        if names != ["entries", "indexes"]:
            raise Undecided("Object is no longer { entries, indexes }: %r" % (names,))
        # dropping a removal iterator runs its Drop impl (which must finish the removal)
        self.permute_instead_of_sort = False
        self.it.drop_policy = lambda inst: bool(re.search(r"json_syntax::object::Removed", inst["name"]))
        self.install()

    # ---- construction / inspection ------------------------------------------------------------------------------
    def key(self, k):
        return Top(None, ("key", k))

    def val(self, v):
        return Top(None, ("val", v))

    def entry(self, k, v):
        return Agg(self.ety, 0, (self.key(k), self.val(v)))

    def mk_object(self, st, entries, index=None):
        vec = st.new_obj(AVec(tuple(self.entry(k, v) for k, v in entries), "entries"))
        idx = st.new_obj(index if index is not None else exact_index(entries))
        cell = st.new_obj(Agg(self.oty, 0, (vec, idx)))
        return Ref(("H", cell.id), ()), cell.id

    def read_object(self, st, cell_id):
        o = st.heap[cell_id]
        if not isinstance(o, Agg) or len(o.fields) != 2:
            raise Undecided("object cell holds %r" % (o,))
        vec, idx = o.fields
        if not (isinstance(vec, Obj) and isinstance(st.heap.get(vec.id), AVec)):
            raise Undecided("entries are no longer a tracked vector: %r" % (vec,))
        if not (isinstance(idx, Obj) and isinstance(st.heap.get(idx.id), IdxModel)):
            raise Undecided("indexes are no longer the tracked index: %r" % (idx,))
        return [self.entry_kv(st, e) for e in st.heap[vec.id].items], st.heap[idx.id]

    def entry_kv(self, st, e):
        e = shape.deref(self.it, st, e, 3)
        if not (isinstance(e, Agg) and len(e.fields) == 2):
            raise Undecided("not an entry: %r" % (e,))
        k, v = (shape.deref(self.it, st, x, 3) for x in e.fields)
        if not (isinstance(k, Top) and isinstance(k.tag, tuple) and k.tag[0] == "key"):
            raise Undecided("entry key %r" % (k,))
        if not (isinstance(v, Top) and isinstance(v.tag, tuple) and v.tag[0] == "val"):
            raise Undecided("entry value %r" % (v,))
        return (k.tag[1], v.tag[1])

    def key_of(self, st, v):
        k = shape.deref(self.it, st, v, 4)
        if not (isinstance(k, Top) and isinstance(k.tag, tuple) and k.tag[0] == "key"):
            raise Undecided("not a key: %r" % (k,))
        return k.tag[1]

    # ---- the specification of IndexMap --------------------------------------------------------------------------
    def idx_of(self, st, ref):
        v = ref
        for _ in range(4):
            if isinstance(v, Ref):
                v = self.it.read_path(st, v.base, v.proj)
            else:
                break
        if isinstance(v, Obj) and isinstance(st.heap.get(v.id), IdxModel):
            return v.id, st.heap[v.id]
        raise Undecided("index map argument is %r" % (v,))

    def slice_items(self, st, ref):
        v = ref
        for _ in range(4):
            if isinstance(v, Ref) and v.base[0] == "H" and not v.proj and isinstance(st.heap.get(v.base[1]), AVec):
                return st.heap[v.base[1]].items
            if isinstance(v, Ref):
                v = self.it.read_path(st, v.base, v.proj)
            elif isinstance(v, Obj) and isinstance(st.heap.get(v.id), AVec):
                return st.heap[v.id].items
            else:
                break
        raise Undecided("entries argument is %r" % (v,))

    def precond(self, st, m, items, op):
        """Precondition of every IndexMap operation that takes the entries slice: the hash and equality callbacks read
        `entries[indexes.rep].key` for the buckets they visit (all of them on a re-hash), so every representative stored in
        the table must be a position of the slice passed, holding the bucket's key.  (This is what discharges the bounds
        checks inside `make_hasher` / `equivalent_key`, and what makes the probe compare the right keys.)"""
        for k, pos in m.m:
            if not pos:
                continue
            rep = pos[0]
            if rep >= len(items):
                raise Undecided("IndexMap::%s is called with %d entries while the index still holds the representative position %d (key %s): "
                                "the hash / equality callback would read entries[%d] out of bounds" % (op, len(items), rep, k, rep))
            have = self.entry_kv(st, items[rep])[0]
            if have != k:
                raise Undecided("IndexMap::%s is called while the representative position %d of key %s holds an entry with key %s in the slice passed: "
                                "the probe would hash / compare the wrong key" % (op, rep, k, have))

    def install(self):
        sh, P = self.sh, self.P
        W = self

        def im_get(it, st, c, a):
            _, m = W.idx_of(st, a[0])
            W.precond(st, m, W.slice_items(st, a[1]), "get")
            pos = m.get(W.key_of(st, a[2]))
            rt = shape.ret_ty(it, c)
            if not pos:
                return Agg(rt, 0, ())
            ity = P.types[P.types[rt]["variants"][1]["fields"][0]["ty"]]["to"]
            other = st.new_obj(AVec(tuple(Conc(p) for p in pos[1:]), "other"))
            cell = st.new_obj(Agg(ity, 0, (Conc(pos[0]), other)))
            return Agg(rt, 1, (Ref(("H", cell.id), ()),))

        sh.cut(r"^json_syntax::object::index_map::IndexMap::get::<", "im_get", ret=im_get)

        def pos_arg(v):
            if not isinstance(v, Conc):
                raise Undecided("index map called with a non-concrete position %r" % (v,))
            return v.v

        def im_insert(it, st, c, a):
            iid, m = W.idx_of(st, a[0])
            items = W.slice_items(st, a[1])
            i = pos_arg(a[2])
            if i >= len(items):
                raise Undecided("IndexMap::insert(%d) beyond the %d entries" % (i, len(items)))
            W.precond(st, m, items, "insert")
            k = W.entry_kv(st, items[i])[0]
            old = m.get(k)
            st.heap[iid] = m.with_(k, sorted(set(old) | {i}))
            return Conc(0 if old else 1)

        sh.cut(r"^json_syntax::object::index_map::IndexMap::insert$", "im_insert", ret=im_insert)

        def im_remove(it, st, c, a):
            iid, m = W.idx_of(st, a[0])
            items = W.slice_items(st, a[1])
            i = pos_arg(a[2])
            if i >= len(items):
                raise Undecided("IndexMap::remove(%d) beyond the %d entries" % (i, len(items)))
            W.precond(st, m, items, "remove")
            k = W.entry_kv(st, items[i])[0]
            st.heap[iid] = m.with_(k, [p for p in m.get(k) if p != i])
            rt = shape.ret_ty(it, c)
            t = P.types[rt] if rt is not None else None
            return UNIT if (t is not None and t["k"] == "tuple") else Top(rt, "removed")

        sh.cut(r"^json_syntax::object::index_map::IndexMap::remove$", "im_remove", ret=im_remove)

        def im_shift(up):
            def fn(it, st, c, a):
                iid, m = W.idx_of(st, a[0])
                i = pos_arg(a[1])
                st.heap[iid] = m.map_positions((lambda p: p + 1 if p >= i else p) if up else (lambda p: p - 1 if p > i else p))
                return UNIT
            return fn

        sh.cut(r"^json_syntax::object::index_map::IndexMap::shift_up$", "im_shift_up", ret=im_shift(True))
        sh.cut(r"^json_syntax::object::index_map::IndexMap::shift_down$", "im_shift_down", ret=im_shift(False))

        def im_clear(it, st, c, a):
            iid, m = W.idx_of(st, a[0])
            st.heap[iid] = IdxModel()
            return UNIT

        sh.cut(r"^json_syntax::object::index_map::IndexMap::clear$", "im_clear", ret=im_clear)

        def im_new(it, st, c, a):
            return st.new_obj(IdxModel())

        sh.cut(r"^json_syntax::object::index_map::IndexMap::new$|^<json_syntax::object::index_map::IndexMap as std::default::Default>::default$", "im_new", ret=im_new)

        # vectors of entries are tracked exactly
        sh.cut(r"^std::vec::Vec::<json_syntax::object::Entry<.*>>::new$|^<std::vec::Vec<json_syntax::object::Entry<.*>> as std::default::Default>::default$", "vec_new",
               ret=lambda it, st, c, a: st.new_obj(AVec((), "entries")))

        # cloning: the table's clone holds the same positions; a vector of entries is cloned element by element
        def im_clone(it, st, c, a):
            _, m = W.idx_of(st, a[0])
            return st.new_obj(m)

        sh.cut(r"^<json_syntax::object::index_map::IndexMap(<.*>)? as std::clone::Clone>::clone$", "im_clone", ret=im_clone)

        def im_clone_from(it, st, c, a):
            iid, _ = W.idx_of(st, a[0])
            _, m = W.idx_of(st, a[1])
            st.heap[iid] = m
            return UNIT

        sh.cut(r"^<json_syntax::object::index_map::IndexMap(<.*>)? as std::clone::Clone>::clone_from$", "im_clone_from", ret=im_clone_from)

        def vec_clone(it, st, c, a):
            return st.new_obj(AVec(tuple(W.slice_items(st, a[0])), "entries"))

        sh.cut(r"^<std::vec::Vec<json_syntax::object::Entry<.*>> as std::clone::Clone>::clone$", "vec_clone", ret=vec_clone)

        def vec_clone_from(it, st, c, a):
            from .summ import _obj_of
            oid = _obj_of(it, st, a[0], "clone_from")
            st.heap[oid] = AVec(tuple(W.slice_items(st, a[1])), "entries")
            return UNIT

        sh.cut(r"^<std::vec::Vec<json_syntax::object::Entry<.*>> as std::clone::Clone>::clone_from$", "vec_clone_from", ret=vec_clone_from)

        def im_dup(it, st, c, a):
            _, m = W.idx_of(st, a[0])
            return Conc(int(any(len(p) > 1 for _, p in m.m)))

        sh.cut(r"IndexMap::contains_duplicate_keys$", "im_dup", ret=im_dup)

        # keys and values are compared through their tags
        def key_eq(it, st, c, a):
            return Conc(int(W.key_of(st, a[0]) == W.key_of(st, a[1])))

        sh.cut(r"^<smallstr::string::SmallString<\[u8; 16\]> as std::cmp::PartialEq>::eq$", "key_eq", ret=key_eq)

        def ordering(it, c, x, y):
            rt = shape.ret_ty(it, c)
            return Agg(rt, 0 if x < y else (1 if x == y else 2), ())

        def key_cmp(it, st, c, a):
            # String / str ordering is code-point order
            return ordering(it, c, CP_RANK[W.key_of(st, a[0])], CP_RANK[W.key_of(st, a[1])])

        sh.cut(r"^<smallstr::string::SmallString<\[u8; 16\]> as std::cmp::Ord>::cmp$", "key_cmp", ret=key_cmp)

        def key_partial_cmp(it, st, c, a):
            rt = shape.ret_ty(it, c)
            oty = P.types[rt]["variants"][1]["fields"][0]["ty"]
            x, y = CP_RANK[W.key_of(st, a[0])], CP_RANK[W.key_of(st, a[1])]
            return Agg(rt, 1, (Agg(oty, 0 if x < y else (1 if x == y else 2), ()),))

        sh.cut(r"^<smallstr::string::SmallString<\[u8; 16\]> as std::cmp::PartialOrd>::partial_cmp$", "key_cmp", ret=key_partial_cmp)

        for opn, fn in (("lt", lambda x, y: x < y), ("le", lambda x, y: x <= y), ("gt", lambda x, y: x > y), ("ge", lambda x, y: x >= y)):
            sh.cut(r"^<smallstr::string::SmallString<\[u8; 16\]> as std::cmp::PartialOrd>::%s$" % opn, "key_cmp",
                   ret=lambda it, st, c, a, fn=fn: Conc(int(fn(CP_RANK[W.key_of(st, a[0])], CP_RANK[W.key_of(st, a[1])]))))
        sh.cut(r"^<smallstr::string::SmallString<\[u8; 16\]> as std::cmp::PartialEq>::ne$", "key_eq",
               ret=lambda it, st, c, a: Conc(int(W.key_of(st, a[0]) != W.key_of(st, a[1]))))

        def val_cmp(it, st, c, a):
            x, y = (shape.deref(it, st, v, 4) for v in a[:2])
            if not all(isinstance(v, Top) and isinstance(v.tag, tuple) and v.tag[0] == "val" for v in (x, y)):
                raise Undecided("value comparison of %r and %r" % (x, y))
            return ordering(it, c, x.tag[1], y.tag[1])

        sh.cut(r"^<json_syntax::Value as std::cmp::Ord>::cmp$", "val_cmp", ret=val_cmp)
        sh.cut(r"^<str as std::cmp::Ord>::cmp$|^core::str::traits::<impl std::cmp::Ord for str>::cmp$", "str_cmp", ret=key_cmp)

        # canonicalisation: nested values are abstract (their own canonicalisation is another rule's business, the call is
        # recorded); a key's UTF-16 form is compared in UTF-16 code-unit order
        def val_canon(it, st, c, a):
            st.emit("canon", shape.deref(it, st, a[0], 3))
            return UNIT

        sh.cut(r"^json_syntax::Value::canonicalize_with$", "val_canon", ret=val_canon)
        sh.cut(r"^<smallstr::string::SmallString<\[u8; 16\]> as std::ops::Deref>::deref$|^smallstr::string::SmallString::<\[u8; 16\]>::as_str$", "key_deref", ret=lambda it, st, c, a: a[0])

        def utf16(it, st, c, a):
            return Top(shape.ret_ty(it, c), ("utf16", W.key_of(st, a[0])))

        sh.cut(r"^core::str::<impl str>::encode_utf16$", "encode_utf16", ret=utf16)

        def utf16_cmp(it, st, c, a):
            x, y = (shape.deref(it, st, v, 3) for v in a[:2])
            if not all(isinstance(v, Top) and isinstance(v.tag, tuple) and v.tag[0] == "utf16" for v in (x, y)):
                raise Undecided("Iterator::cmp over something that is not a key's UTF-16 form: %r ~ %r" % (x, y))
            return ordering(it, c, U16_RANK[x.tag[1]], U16_RANK[y.tag[1]])

        sh.cut(r"^<std::str::EncodeUtf16<'_> as std::iter::Iterator>::cmp::<", "utf16_cmp", ret=utf16_cmp)

        # `slice.sort_by(cmp)`: a stable insertion sort that calls the interpreted comparator
        def sort_by(it, st, inst, args, call):
            from .summ import _obj_of
            try:
                oid = _obj_of(it, st, args[0], "sort_by")
            except Undecided:
                return NotImplemented
            if not isinstance(st.heap.get(oid), AVec):
                return NotImplemented
            if W.permute_instead_of_sort:
                m_ = st.heap[oid]
                st.heap[oid] = AVec(tuple(reversed(m_.items)), m_.role)
                return UNIT
            bodies = [c_ for c_ in (s_["callee"] for s_ in it.p.sites(inst["id"])) if c_ is not None and it.p.inst[c_].get("def_kind") == "Closure"]
            body = None
            if bodies:
                body = bodies[0]
            elif isinstance(args[1], FnItem) and args[1].inst is not None:
                body = args[1].inst  # a named function used as comparator
            else:
                # the comparator is passed down to the sorting routine: find the closure type among the generic arguments
                for a_ in inst.get("args", []):
                    t = it.p.types[a_]
                    if t["k"] == "closure":
                        from .summ import closure_instance
                        ci = closure_instance(it.p, a_)
                        if ci is not None:
                            body = ci
            if body is None:
                raise Undecided("cannot identify the comparator passed to %s" % inst["name"][:80])
            fcell = st.new_obj(args[1])
            n = len(st.heap[oid].items)

            # insertion sort: for i in 1..n: j = i; while j > 0 and cmp(a[j-1], a[j]) == Greater: swap
            def loop(it_, st_, i, j):
                while True:
                    if i >= n:
                        return UNIT
                    if j == 0:
                        i, j = i + 1, i + 1
                        continue
                    x = Ref(("H", oid), (("el", j - 1),))
                    y = Ref(("H", oid), (("el", j),))

                    def then(it2, st2, rv, i=i, j=j):
                        if not isinstance(rv, Agg):
                            raise Undecided("comparator returned %r" % (rv,))
                        if rv.variant == 2:  # Greater: swap and continue leftwards
                            items = list(st2.heap[oid].items)
                            items[j - 1], items[j] = items[j], items[j - 1]
                            st2.heap[oid] = AVec(tuple(items), st2.heap[oid].role)
                            return loop(it2, st2, i, j - 1)
                        return loop(it2, st2, i + 1, i + 1)

                    if isinstance(args[1], FnItem):
                        return CallThen(body, [x, y], then)
                    return CallThen(body, [Ref(("H", fcell.id), ()), x, y], then)

            return loop(it, st, 1, 1)

        self.it.summaries.insert(0, (lambda inst: bool(re.search(r"^(std|core|alloc)::slice::<impl \[T\]>::sort_by$", inst["path"])), sort_by))

    # ---- running -------------------------------------------------------------------------------------------------
    def call(self, st, inst, args):
        """Run `inst(args)` from state `st` to completion; returns the finished states."""
        st.outcome = None
        self.it.push_frame(st, inst["id"], args, None, None)
        return self.it.run(st)


def list_objects(max_len):
    ents = [(k, v) for k in KEYS for v in VALS]
    out = [()]
    for n in range(1, max_len + 1):
        out.extend(itertools.product(ents, repeat=n))
    return out
