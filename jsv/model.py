"""Model extraction on top of the abstract interpreter: liveness, garbage collection and
canonicalisation of suspended states (so that equal abstract states are recognised), and a
generic exploration loop over cut points."""
from . import iset
from .absint import (Agg, Conc, Expr, FnItem, Obj, Ref, State, Str, Sym, Top, Undecided, Uninit, V)
from .summ import AIter, AVec, AZip, LogVec, Ordlen, Ordv


# ---------------------------------------------------------------------------------------------
# liveness of MIR locals (whole-local granularity)
# ---------------------------------------------------------------------------------------------
def _place_uses(pl, out):
    out.add(pl["l"])
    for e in pl.get("p", ()):
        if isinstance(e, dict) and "i" in e:
            out.add(e["i"])


def _operand_uses(o, out):
    if "copy" in o:
        _place_uses(o["copy"], out)
    elif "move" in o:
        _place_uses(o["move"], out)


def _rvalue_uses(r, out):
    k = r["k"]
    if k in ("use", "cast", "un", "repeat"):
        _operand_uses(r["a"], out)
    elif k == "bin":
        _operand_uses(r["a"], out)
        _operand_uses(r["b"], out)
    elif k in ("ref", "rawptr", "discr"):
        _place_uses(r["p"], out)
    elif k == "agg":
        for o in r["ops"]:
            _operand_uses(o, out)


class Liveness:
    def __init__(self, program):
        self.p = program
        self.cache = {}

    def live_in(self, iid):
        if iid in self.cache:
            return self.cache[iid]
        inst = self.p.inst[iid]
        blocks = inst["blocks"]
        n = len(blocks)
        use = [set() for _ in range(n)]
        deff = [set() for _ in range(n)]
        succ = [[] for _ in range(n)]
        for bi, b in enumerate(blocks):
            u, d = use[bi], deff[bi]

            def add_use(s):
                for l in s:
                    if l not in d:
                        u.add(l)

            for s in b["s"]:
                k = s["k"]
                if k == "assign":
                    tmp = set()
                    _rvalue_uses(s["r"], tmp)
                    pl = s["p"]
                    if pl.get("p"):
                        _place_uses(pl, tmp)
                        add_use(tmp)
                    else:
                        add_use(tmp)
                        d.add(pl["l"])
                elif k == "setdiscr":
                    tmp = set()
                    _place_uses(s["p"], tmp)
                    add_use(tmp)
                elif k in ("live", "dead"):
                    d.add(s["l"])
            t = b["t"]
            k = t["k"]
            tmp = set()
            if k == "switch":
                _operand_uses(t["discr"], tmp)
                succ[bi] = [bb for _, bb in t["targets"]] + [t["otherwise"]]
            elif k == "goto":
                succ[bi] = [t["target"]]
            elif k in ("call", "tailcall"):
                for a in t["args"]:
                    _operand_uses(a, tmp)
                if "func" in t:
                    _operand_uses(t["func"], tmp)
                add_use(tmp)
                tmp = set()
                if k == "call":
                    pl = t["dest"]
                    if pl.get("p"):
                        _place_uses(pl, tmp)
                    else:
                        d.add(pl["l"])
                    if "target" in t:
                        succ[bi] = [t["target"]]
            elif k == "drop":
                _place_uses(t["p"], tmp)
                succ[bi] = [t["target"]]
            elif k == "assert":
                _operand_uses(t["cond"], tmp)
                succ[bi] = [t["target"]]
            elif k == "return":
                tmp.add(0)
            add_use(tmp)
        live_in = [set() for _ in range(n)]
        changed = True
        while changed:
            changed = False
            for bi in range(n - 1, -1, -1):
                out = set()
                for s in succ[bi]:
                    out |= live_in[s]
                new = use[bi] | (out - deff[bi])
                if new != live_in[bi]:
                    live_in[bi] = new
                    changed = True
        self.cache[iid] = live_in
        return live_in


# ---------------------------------------------------------------------------------------------
# garbage collection + canonical key of a suspended state
# ---------------------------------------------------------------------------------------------
class Canon:
    def __init__(self, interp, liveness):
        self.it = interp
        self.lv = liveness

    def live_locals(self, st):
        """frame index -> set of live locals, for a state suspended at a cut (top frame) with all
        callers suspended at their call terminators."""
        res = []
        for fi, f in enumerate(st.frames):
            inst = self.it.p.inst[f.inst]
            t = inst["blocks"][f.bb]["t"]
            live_in = self.lv.live_in(f.inst)
            if t["k"] == "call" and "target" in t:
                live = set(live_in[t["target"]])
                pl = t["dest"]
                if not pl.get("p"):
                    live.discard(pl["l"])
                else:
                    tmp = set()
                    _place_uses(pl, tmp)
                    live |= tmp
            elif t["k"] == "drop":
                live = set(live_in[t["target"]])
            else:
                live = set(f.locals.keys())
            res.append(live)
        return res

    def clean(self, st, extra_roots=()):
        """Drop dead locals and unreachable heap objects / symbols (in place)."""
        live = self.live_locals(st)
        uid_index = {f.uid: i for i, f in enumerate(st.frames)}
        keep_locals = [set() for _ in st.frames]
        keep_objs = set()
        keep_syms = set()
        work = []

        def visit(v):
            work.append(v)

        for fi, f in enumerate(st.frames):
            for l in live[fi]:
                if l in f.locals:
                    keep_locals[fi].add(l)
                    visit(f.locals[l])
            if f.dest is not None:
                visit(f.dest)
        for v in extra_roots:
            visit(v)
        # definitions of folded symbols keep their operands alive only while someone needs them
        while work:
            v = work.pop()
            if isinstance(v, (Conc, Str, FnItem, Uninit, Top, Ordlen)):
                continue
            if isinstance(v, Sym):
                keep_syms.add(v.id)
            elif isinstance(v, Expr):
                work.extend(v.args)
            elif isinstance(v, Agg):
                work.extend(v.fields)
            elif isinstance(v, Ref):
                b = v.base
                if b[0] == "L":
                    fi = uid_index.get(b[1])
                    if fi is not None and b[2] not in keep_locals[fi]:
                        keep_locals[fi].add(b[2])
                        fr = st.frames[fi]
                        if b[2] in fr.locals:
                            work.append(fr.locals[b[2]])
                else:
                    work.append(Obj(b[1]))
                for step in v.proj:
                    if step[0] == "i" and isinstance(step[1], V):
                        work.append(step[1])
            elif isinstance(v, Obj):
                if v.id not in keep_objs:
                    keep_objs.add(v.id)
                    m = st.heap.get(v.id)
                    if isinstance(m, V):
                        work.append(m)
                    elif isinstance(m, AVec):
                        work.extend(m.items)
                    elif isinstance(m, LogVec):
                        for _, cid in m.cells:
                            work.append(Obj(cid))
                    elif isinstance(m, AIter):
                        work.append(Obj(m.vec))
                    elif isinstance(m, AZip):
                        work.append(Obj(m.a))
                        work.append(Obj(m.b))
            elif isinstance(v, Ordv):
                if isinstance(v.space, tuple) and v.space[0] == "len":
                    work.append(Obj(v.space[1]))
        for fi, f in enumerate(st.frames):
            f.locals = {l: v for l, v in f.locals.items() if l in keep_locals[fi]}
        st.heap = {o: m for o, m in st.heap.items() if o in keep_objs}
        # symbols: keep live ones plus those related to live ones through retained predicates
        st.preds = [(e, t) for e, t in st.preds if _syms_of(e) and _syms_of(e) <= keep_syms]
        st.edom = {e: d for e, d in st.edom.items() if _syms_of(e) <= keep_syms}
        st.cons = {s: d for s, d in st.cons.items() if s in keep_syms}
        st.syminfo = {s: d for s, d in st.syminfo.items() if s in keep_syms}
        return st

    def key(self, st, extra=None, alias=None):
        """Canonical hashable key of a cleaned state. Returns (key, renaming dict)."""
        alias = alias or {}
        symn = {}
        objn = {}
        uid_index = {f.uid: i for i, f in enumerate(st.frames)}
        ords = {}  # space(canonical) -> set of n
        out = []

        def sname(sid):
            if sid not in symn:
                symn[sid] = len(symn)
            return symn[sid]

        def oname(oid):
            if oid not in objn:
                objn[oid] = len(objn)
                pending.append(oid)
            return objn[oid]

        pending = []

        def cv(v):
            if isinstance(v, Conc):
                return ("c", v.v)
            if isinstance(v, Sym):
                return ("s", sname(v.id))
            if isinstance(v, Expr):
                return ("e", v.op, v.ty, tuple(cv(a) for a in v.args))
            if isinstance(v, Agg):
                return ("a", v.ty, v.variant, tuple(cv(a) for a in v.fields))
            if isinstance(v, Ref):
                b = v.base
                if b[0] == "L":
                    bb = ("L", uid_index.get(b[1], -1), b[2])
                else:
                    bb = ("H", oname(b[1]))
                return ("r", bb, tuple((s[0], cv(s[1])) if s[0] == "i" and isinstance(s[1], V) else s for s in v.proj))
            if isinstance(v, Obj):
                return ("o", oname(v.id))
            if isinstance(v, Top):
                return ("t", v.ty, v.tag)
            if isinstance(v, Uninit):
                return ("u",)
            if isinstance(v, Str):
                return ("str", v.s)
            if isinstance(v, FnItem):
                return ("fn", v.name)
            if isinstance(v, Ordv):
                sp = v.space
                if sp in alias:
                    sp = alias[sp]
                elif isinstance(sp, tuple) and sp[0] == "len":
                    sp = ("len", oname(sp[1]))
                ords.setdefault(sp, set()).add(v.n)
                return ("ord", sp, v.n)
            if isinstance(v, Ordlen):
                ords.setdefault("pos", set()).add(v.k)
                return ("ordlen", v.k)
            raise Undecided("cannot canonicalise %r" % (v,))

        for fi, f in enumerate(st.frames):
            fr = [f.inst, f.bb, cv(f.dest) if f.dest is not None else None, f.target]
            for l in sorted(f.locals):
                fr.append((l, cv(f.locals[l])))
            out.append(tuple(fr))
        heap_out = []
        i = 0
        while i < len(pending):
            oid = pending[i]
            i += 1
            m = st.heap.get(oid)
            if isinstance(m, V):
                heap_out.append((objn[oid], "cell", cv(m)))
            elif isinstance(m, AVec):
                heap_out.append((objn[oid], "avec", m.role, tuple(cv(x) for x in m.items)))
            elif isinstance(m, LogVec):
                sp = alias.get(("len", oid), ("len", objn[oid]))
                ords.setdefault(sp, set()).add(m.n)
                heap_out.append((objn[oid], "log", m.role, ("ord", sp, m.n), tuple((("ord", sp, n), oname(cid)) for n, cid in m.cells)))
                for n, _ in m.cells:
                    ords[sp].add(n)
            elif isinstance(m, AIter):
                heap_out.append((objn[oid], "aiter", m.role, oname(m.vec), m.pos, m.end))
            elif isinstance(m, AZip):
                heap_out.append((objn[oid], "azip", oname(m.a), oname(m.b)))
            elif m is None:
                heap_out.append((objn[oid], "gone"))
            else:
                raise Undecided("cannot canonicalise heap model %r" % (m,))
        if extra is not None:
            ex = extra(cv, ords)
        else:
            ex = None
        # order-preserving renaming of ordinals
        rank = {sp: {n: r for r, n in enumerate(sorted(ns))} for sp, ns in ords.items()}

        def rn(x):
            if isinstance(x, tuple):
                if len(x) == 3 and x[0] == "ord":
                    return ("ord", x[1], rank[x[1]][x[2]])
                if len(x) == 2 and x[0] == "ordlen":
                    return ("ordlen", rank["pos"][x[1]])
                return tuple(rn(y) for y in x)
            return x

        cons = tuple(sorted((symn[s], d) for s, d in st.cons.items() if s in symn))
        preds = tuple(sorted(repr((cv(e), t)) for e, t in st.preds))
        edom = tuple(sorted(repr((cv(e), d)) for e, d in st.edom.items()))
        key = (rn(tuple(out)), rn(tuple(heap_out)), cons, preds, edom, rn(ex) if ex is not None else None)
        return key, {"sym": symn, "obj": objn, "rank": rank}


def _syms_of(v, acc=None):
    acc = set() if acc is None else acc
    if isinstance(v, Sym):
        acc.add(v.id)
    elif isinstance(v, Expr):
        for a in v.args:
            _syms_of(a, acc)
    elif isinstance(v, Agg):
        for a in v.fields:
            _syms_of(a, acc)
    return acc
