"""Command line driver of the checks."""
import importlib
import json
import os
import sys
import time
import traceback

from . import core, facts


def main(argv):
    if not argv:
        print("usage: ./check <ID> [--tier quick|thorough] [--replay <file>]")
        return 2
    pid = argv[0]
    tier = os.environ.get("VERIF_TIER", "quick")
    replay = None
    i = 1
    while i < len(argv):
        if argv[i] == "--tier":
            tier = argv[i + 1]
            i += 2
        elif argv[i] == "--replay":
            replay = argv[i + 1]
            i += 2
        else:
            i += 1
    if tier not in ("quick", "thorough"):
        tier = "quick"
    seed = int(os.environ.get("VERIF_SEED", "0") or 0)
    if replay:
        # a replay file holds the violations of an earlier run; the check itself is deterministic, so
        # replaying = re-running the check and showing whether the same keys are still reported
        old = json.load(open(replay))
        print("replaying %s (%d recorded violation(s)); re-running the check on the current tree" % (replay, len(old.get("violations", []))))
    t0 = time.time()
    mod = importlib.import_module("jsv.rules." + pid)
    res = core.Result(pid)
    level = getattr(mod, "LEVEL", "other")
    try:
        P, I, info = facts.load()
        res.analysed["instances_in_program"] = len(P.inst)
        res.analysed["roots"] = len(P.roots)
        res.notes.append("facts: %s (%s)" % (info.get("key"), "cached" if info.get("cached") else "extracted in %ss" % info.get("extract_s")))
        ctx = Ctx(P, I, info, tier, seed)
        mod.run(ctx, res)
    except RecursionError as e:
        traceback.print_exc(limit=12)
        res.violation(pid + ".internal", pid + "/internal/RecursionError", "internal error in the checker (failing closed): %s" % e)
    except facts._extract.ExtractionError as e:
        res.violation(pid + ".build", pid + "/build", "fact extraction failed: %s" % e)
    except Exception as e:  # fail closed on any internal error
        traceback.print_exc()
        res.violation(pid + ".internal", pid + "/internal/" + type(e).__name__, "internal error in the checker (failing closed): %s" % e)
    return core.finish(res, tier, level, t0, seed=seed)


class Ctx:
    def __init__(self, P, I, info, tier, seed):
        self.P = P
        self.I = I
        self.info = info
        self.tier = tier
        self.seed = seed
