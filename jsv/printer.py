"""Printer model (C13, C04, C08.nows): scenario-driven abstract interpretation of
`pre_compute_array_size`, `pre_compute_object_size`, `print_array`, `print_object` and of the
value-level dispatch, with a symbolic option record.  A *scenario* fixes the number of children
n (0..N), the layout decision read from `sizes` (Expanded / Width) or the sizes returned by the
children and the limit variant; everything else (option fields, child widths, thresholds) is
symbolic.  Children, key widths, string literals, `Spaces` and `IndentBy` are cut points whose
calls are recorded as events; `Spaces`/`IndentBy`/`Indent` are analysed as lemmas of their own."""
import re

from . import iset, summ
from .absint import (FALSE, TRUE, UNIT, Agg, Conc, Expr, IndexOnAbstract, Interp, Obj, Ref, State, Str, Sym, Top, Undecided, V)
from .pmodel import role_of
from .summ import FmtLib, Lib, LogVec, Ordv, mk_none, mk_some, ret_ty

OPT_FIELDS = ["indent", "array_begin", "array_end", "array_empty", "array_before_comma", "array_after_comma", "array_limit",
              "object_begin", "object_end", "object_empty", "object_before_comma", "object_after_comma", "object_before_colon",
              "object_after_colon", "object_limit"]

LIMITS = ["None", "Always", "Item", "Width", "ItemOrWidth"]


def _role(elem):
    if elem == "json_syntax::print::Size":
        return ("log", "sizes")
    return role_of(elem)


summ.CELL_ROLES.add("sizes")


class SizesSlice:
    """The `sizes: &[Size]` argument of the emitters: the slot at the incoming index holds the
    scenario's decision; other slots are unknown."""
    kind = "sizes-slice"

    def __init__(self, value, at):
        self.value = value
        self.at = at
        self.reads = 0

    def length(self, it, st):
        return Conc(1 << 40)


class Scenario:
    def __init__(self, n, child_sizes=None, size_kind=None, limit="None", kind="array"):
        self.n = n
        self.child_sizes = child_sizes or ["W"] * n  # 'W' width / 'E' expanded per child
        self.size_kind = size_kind  # for emitters: 'Expanded' | 'Width'
        self.limit = limit
        self.kind = kind

    def tag(self):
        return "%s/n=%d/%s%s%s" % (self.kind, self.n, "".join(self.child_sizes) or "-", "/" + self.size_kind if self.size_kind else "", "/limit=" + self.limit)


class PrinterModel:
    def __init__(self, program):
        self.p = program
        self.names = {}  # sym id -> readable name

    # ---- interpreter with the printer's cut points turned into scripted summaries -----------------------
    def mk_interp(self, sc, st):
        P = self.p
        it = Interp(P)
        Lib(_role).install(it)
        FmtLib().install(it)
        S = it.summaries
        name = lambda rx: (lambda inst, _rx=re.compile(rx): bool(_rx.search(inst["name"])))
        path = lambda rx: (lambda inst, _rx=re.compile(rx): bool(_rx.search(inst["path"])))
        self.sc = sc
        self.item_i = 0
        self.items = []
        S.insert(0, (name(r"^<std::slice::Iter<'_, json_syntax::Value> as std::iter::Iterator>::next$"), self.next_value))
        S.insert(0, (name(r"^<std::slice::Iter<'_, json_syntax::object::Entry<.*>> as std::iter::Iterator>::next$"), self.next_entry))
        S.insert(0, (name(r"^<std::slice::Iter<'_, .*> as std::iter::ExactSizeIterator>::len$"), lambda it_, st_, i, a, c: Conc(sc.n)))
        S.insert(0, (name(r"^<&json_syntax::Value as json_syntax::print::PrecomputeSize>::pre_compute_size$"), self.child_size))
        S.insert(0, (name(r"^<&json_syntax::Value as json_syntax::print::PrintWithSize>::fmt_with_size$"), self.child_print))
        S.insert(0, (name(r"^json_syntax::print::printed_string_size$"), self.key_size))
        S.insert(0, (name(r"^json_syntax::print::string_literal$"), self.strlit))
        S.insert(0, (name(r"^<json_syntax::print::Spaces as std::fmt::Display>::fmt$"), self.spaces))
        S.insert(0, (name(r"^<json_syntax::print::IndentBy as std::fmt::Display>::fmt$"), self.indent_by))
        S.insert(0, (path(r"^<&'a std::vec::Vec<T, A> as std::iter::IntoIterator>::into_iter$|^core::slice::<impl \[T\]>::iter$"), lambda it_, st_, i, a, c: Top(ret_ty(it_, c), "iter")))
        S.insert(0, (path(r"^smallstr::string::SmallString::<A>::as_str$|^<smallstr::string::SmallString<A> as std::ops::Deref>::deref$"), lambda it_, st_, i, a, c: a[0]))
        S.insert(0, (path(r"^<std::vec::Vec<T, A> as std::ops::IndexMut<I>>::index_mut$|^<std::vec::Vec<T, A> as std::ops::Index<I>>::index$"), self.vec_index))
        it.overflow_hooks.append(self.no_overflow)
        it.index_read_hook = self.index_read
        return it

    def no_overflow(self, st, base, a, b, tid):
        # widths and counters are bounded by the length of the output: usize additions of symbolic
        # widths are assumed not to overflow (recorded as an assumption)
        if base in ("Add",) and not (isinstance(a, Conc) and isinstance(b, Conc)):
            self.assumed_no_overflow = True
            return (Expr("Add", (a, b), (64, False)) if not (isinstance(b, Conc) and b.v == 0) else a, FALSE)
        return None

    def index_read(self, it, st, model, idx):
        if isinstance(model, SizesSlice):
            st.emit("read_size", idx)
            if idx == model.at:
                return model.value
            return Top(None, "other-slot")
        raise Undecided("index into %r" % (model,))

    def vec_index(self, it, st, inst, args, call):
        oid = summ._obj_of(it, st, args[0], "index")
        m = st.heap[oid]
        idx = args[1]
        if isinstance(m, LogVec) and isinstance(idx, Ordv):
            for n, cid in m.cells:
                if n == idx.n:
                    st.emit("slot_access", idx.n)
                    return Ref(("H", cid), ())
        raise Undecided("Vec index %r on %r" % (idx, m))

    def next_value(self, it, st, inst, args, call):
        rty = ret_ty(it, call)
        k = st.ctr.get("item", 0)
        if k >= self.sc.n:
            st.emit("items_end")
            return mk_none(rty)
        st.ctr["item"] = k + 1
        cell = st.new_obj(Top(None, "item%d" % k))
        st.emit("item", k)
        return mk_some(rty, Ref(("H", cell.id), ()))

    def next_entry(self, it, st, inst, args, call):
        rty = ret_ty(it, call)
        k = st.ctr.get("item", 0)
        if k >= self.sc.n:
            st.emit("items_end")
            return mk_none(rty)
        st.ctr["item"] = k + 1
        ety = self.p.types[rty]["variants"][1]["fields"][0]["ty"]
        ety = self.p.types[ety]["to"]
        cell = st.new_obj(Agg(ety, 0, (Top(None, "key%d" % k), Top(None, "item%d" % k))))
        st.emit("item", k)
        return mk_some(rty, Ref(("H", cell.id), ()))

    def ident(self, it, st, v):
        """Which scenario object a reference designates: 'item3' / 'key3' / None."""
        for _ in range(4):
            if isinstance(v, Ref):
                try:
                    v = it.read_path(st, v.base, v.proj)
                except Exception:  # noqa
                    return None
            else:
                break
        if isinstance(v, Top):
            return v.tag
        return None

    def child_size(self, it, st, inst, args, call):
        who = self.ident(it, st, args[0])
        k = st.ctr.get("child", 0)
        st.ctr["child"] = k + 1
        st.emit("child_size", who, "options" if args[1] == self.opt_ref else "other-options", "sizes" if args[2] == self.sizes_ref else "other-sizes")
        rty = ret_ty(it, call)
        vn = [v["name"] for v in self.p.types[rty]["variants"]]
        kind = self.sc.child_sizes[k] if k < len(self.sc.child_sizes) else "W"
        if kind == "E":
            return Agg(rty, vn.index("Expanded"), ())
        w = st.fresh_sym(iset.full(64, False), kind="child_width")
        self.names[w.id] = "w%d" % k
        return Agg(rty, vn.index("Width"), (w,))

    def child_print(self, it, st, inst, args, call):
        who = self.ident(it, st, args[0])
        cur_index = it.read_path(st, args[5].base, args[5].proj) if isinstance(args[5], Ref) else None
        st.emit("child", who, args[3], "options" if args[2] == self.opt_ref else "other-options",
                "sizes" if args[4] == self.sizes_ref else "other-sizes", "index" if args[5] == self.index_ref else "other-index", cur_index)
        # the child consumes its own slots
        idx = args[5]
        if isinstance(idx, Ref):
            it.write_path(st, idx.base, idx.proj, st.fresh_sym(iset.full(64, False), kind="index-after-child"))
        return Agg(ret_ty(it, call), 0, (UNIT,))

    def key_size(self, it, st, inst, args, call):
        who = self.ident(it, st, args[0])
        w = st.fresh_sym(iset.full(64, False), kind="key_width")
        self.names[w.id] = "kw(%s)" % who
        st.emit("key_size", who)
        return w

    def strlit(self, it, st, inst, args, call):
        st.emit("strlit", self.ident(it, st, args[0]))
        return Agg(ret_ty(it, call), 0, (UNIT,))

    def spaces(self, it, st, inst, args, call):
        v = it.read_path(st, args[0].base, args[0].proj)
        st.emit("sp", v.fields[0])
        return Agg(ret_ty(it, call), 0, (UNIT,))

    def indent_by(self, it, st, inst, args, call):
        v = it.read_path(st, args[0].base, args[0].proj)
        st.emit("ind", v.fields[0], v.fields[1])
        return Agg(ret_ty(it, call), 0, (UNIT,))

    # ---- symbolic option record -------------------------------------------------------------------------
    def mk_options(self, st, opt_ty, limits):
        P = self.p
        t = P.types[opt_ty]
        fields = []
        self.opt_syms = {}
        for f in t["variants"][0]["fields"]:
            ft = P.types[f["ty"]]
            n = f["name"]
            if ft["k"] == "int":
                s = st.fresh_sym(iset.full(64, False), kind="opt")
                self.names[s.id] = n
                self.opt_syms[n] = s
                fields.append(s)
            elif n == "indent":
                tok = Top(f["ty"], "options.indent")
                self.opt_syms[n] = tok
                fields.append(tok)
            elif n.endswith("_limit"):
                which = limits.get(n, "None")
                fields.append(self.mk_limit(st, f["ty"], which, n))
            else:
                raise Undecided("unknown option field %s of type %s" % (n, ft["s"]))
        return Agg(opt_ty, 0, fields)

    def mk_limit(self, st, opt_limit_ty, which, fname):
        P = self.p
        t = P.types[opt_limit_ty]
        if which == "None":
            return Agg(opt_limit_ty, 0, ())
        lim_ty = t["variants"][1]["fields"][0]["ty"]
        lt = P.types[lim_ty]
        vn = [v["name"] for v in lt["variants"]]
        vi = vn.index(which)
        fs = []
        for j, f in enumerate(lt["variants"][vi]["fields"]):
            s = st.fresh_sym(iset.full(64, False), kind="limit")
            nm = "%s.%s" % (fname, {("Item", 0): "items", ("Width", 0): "width", ("ItemOrWidth", 0): "items", ("ItemOrWidth", 1): "width"}[(which, j)])
            self.names[s.id] = nm
            self.opt_syms[nm] = s
            fs.append(s)
        return Agg(opt_limit_ty, 1, (Agg(lim_ty, vi, fs),))

    # ---- units ---------------------------------------------------------------------------------------------------
    def find(self, rx):
        r = [i for i in self.p.inst if re.search(rx, i["name"])]
        if len(r) != 1:
            raise Undecided("expected one instance matching %s, found %d" % (rx, len(r)))
        return r[0]

    def run_precompute(self, sc):
        """Returns list of final paths: dict(size=..., slot=..., events=[...], state, interp)."""
        P = self.p
        st = State()
        if sc.kind == "array":
            inst = self.find(r"^json_syntax::print::pre_compute_array_size::<&std::vec::Vec<json_syntax::Value>>$")
            opt_ty = P.types[inst["locals"][2]]["to"]
            args_first = [Top(inst["locals"][1], "items")]
        else:
            # start at the Value-level arm: Object(o) => pre_compute_object_size(o.iter().map(..), options, sizes)
            inst = self.find(r"^json_syntax::print::pre_compute_object_size::<")
            opt_ty = P.types[inst["locals"][2]]["to"]
            args_first = None
        it = self.mk_interp(sc, st)
        opts = self.mk_options(st, opt_ty, {("array_limit" if sc.kind == "array" else "object_limit"): sc.limit})
        ocell = st.new_obj(opts)
        self.opt_ref = Ref(("H", ocell.id), ())
        sz = st.new_obj(LogVec("sizes"))
        scell = st.new_obj(sz)
        self.sizes_ref = Ref(("H", scell.id), ())
        self.index_ref = None
        if sc.kind == "array":
            it.push_frame(st, inst["id"], args_first + [self.opt_ref, self.sizes_ref], None, None)
        else:
            # entries argument: Map<Iter<Entry>, closure>; build it by interpreting the caller's arm
            vinst = self.find(r"^<json_syntax::Value as json_syntax::print::PrecomputeSize>::pre_compute_size$")
            vty = P.types[vinst["locals"][1]]["to"]
            vt = P.types[vty]
            vn = [v["name"] for v in vt["variants"]]
            oi = vn.index("Object")
            oty = vt["variants"][oi]["fields"][0]["ty"]
            ents = st.new_obj(LogVec("entries"))
            ocell2 = Agg(oty, 0, (ents, Top(None, "indexes")))
            vcell = st.new_obj(Agg(vty, oi, (ocell2,)))
            it.push_frame(st, vinst["id"], [Ref(("H", vcell.id), ()), self.opt_ref, self.sizes_ref], None, None)
        outs = it.run(st)
        res = []
        for o in outs:
            if o.outcome[0] != "return":
                res.append({"outcome": o.outcome, "events": o.events, "state": o, "it": it})
                continue
            # the slot written
            m = o.heap[sz.id]
            slots = [(n, o.heap[cid]) for n, cid in m.cells]
            res.append({"outcome": o.outcome, "size": o.outcome[1], "slots": slots, "pushed": m.n, "events": o.events, "state": o, "it": it})
        return res

    def run_emit(self, sc):
        P = self.p
        st = State()
        if sc.kind == "array":
            inst = self.find(r"^json_syntax::print::print_array::<&std::vec::Vec<json_syntax::Value>>$")
            opt_ty = P.types[inst["locals"][3]]["to"]
        else:
            inst = self.find(r"^<json_syntax::Object as json_syntax::print::PrintWithSize>::fmt_with_size$")
            opt_ty = P.types[inst["locals"][3]]["to"]
        it = self.mk_interp(sc, st)
        opts = self.mk_options(st, opt_ty, {})
        ocell = st.new_obj(opts)
        self.opt_ref = Ref(("H", ocell.id), ())
        # the size type
        size_ty = None
        for t in P.types:
            if t.get("name") == "json_syntax::print::Size":
                size_ty = t["id"]
        vn = [v["name"] for v in P.types[size_ty]["variants"]]
        if sc.size_kind == "Expanded":
            sval = Agg(size_ty, vn.index("Expanded"), ())
        else:
            wsym = st.fresh_sym(iset.full(64, False), kind="own_width")
            self.names[wsym.id] = "own_width"
            sval = Agg(size_ty, vn.index("Width"), (wsym,))
        j0 = Conc(0)
        szm = st.new_obj(None)
        st.heap[szm.id] = SizesSlice(sval, j0)
        self.sizes_ref = Ref(("H", szm.id), ())
        icell = st.new_obj(j0)
        self.index_ref = Ref(("H", icell.id), ())
        ind = st.fresh_sym(((0, 1 << 32),), kind="indent")
        self.names[ind.id] = "depth"
        self.indent_sym = ind
        f = Top(None, "formatter")
        if sc.kind == "array":
            args = [Top(inst["locals"][1], "items"), f, self.opt_ref, ind, self.sizes_ref, self.index_ref]
        else:
            oty = P.types[inst["locals"][1]]["to"]
            ents = st.new_obj(LogVec("entries"))
            ocell2 = st.new_obj(Agg(oty, 0, (ents, Top(None, "indexes"))))
            args = [Ref(("H", ocell2.id), ()), f, self.opt_ref, ind, self.sizes_ref, self.index_ref]
        it.push_frame(st, inst["id"], args, None, None)
        outs = it.run(st)
        res = []
        for o in outs:
            res.append({"outcome": o.outcome, "events": o.events, "state": o, "it": it, "index_after": o.heap.get(icell.id)})
        return res
