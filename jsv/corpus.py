"""C19 corpus: a bounded-exhaustive family of `json!` invocations, emitted as a Rust crate that is
only *compiled* (by the driver); the expanded body of each function is then interpreted
abstractly and compared with the constructor tree expected for the document."""
import itertools
import os
import random
import shutil
import struct
import tempfile

LEAVES = [("null",), ("bool", 1), ("bool", 0), ("int", 0), ("int", -1), ("float", 1.5), ("str", "a")]
KEYS = [("lit", "a"), ("lit", "a"), ("paren", "b"), ("ident", "KEY_C")]


def render(doc):
    k = doc[0]
    if k == "null":
        return "null"
    if k == "bool":
        return "true" if doc[1] else "false"
    if k == "int":
        return str(doc[1])
    if k == "float":
        return repr(doc[1])
    if k == "str":
        return '"%s"' % doc[1]
    if k == "arr":
        return "[" + ", ".join(render(x) for x in doc[1]) + ("," if doc[2] and doc[1] else "") + "]"
    if k == "obj":
        parts = []
        for key, v in doc[1]:
            if key[0] == "lit":
                ks = '"%s"' % key[1]
            elif key[0] == "paren":
                ks = '("%s")' % key[1]
            else:
                ks = key[1]
            parts.append("%s: %s" % (ks, render(v)))
        return "{" + ", ".join(parts) + ("," if doc[2] and doc[1] else "") + "}"
    raise ValueError(k)


def key_text(key):
    return {"lit": key[1], "paren": key[1], "ident": "c"}[key[0]]


def docs(max_members, depth, seed=0, extra=0):
    """Every array / object of up to `max_members` members over the leaf alphabet, with and without
    trailing comma, nested to `depth`."""
    out = []
    level0 = list(LEAVES) + [("arr", [], False), ("obj", [], False)]
    out.extend(level0)
    inner = level0
    for d in range(depth):
        containers = []
        # to keep the family bounded: members are drawn from a rotating window over the inner alphabet
        alphabet = inner if d == 0 else [("null",), ("int", 0), ("str", "a")] + [c for c in inner if c[0] in ("arr", "obj")][:6]
        for n in range(1, max_members + 1):
            combos = list(itertools.product(range(len(alphabet)), repeat=n))
            rnd = random.Random(seed * 7919 + n * 31 + d)
            if len(combos) > 60:
                combos = rnd.sample(combos, 60)
            for combo in combos:
                members = [alphabet[i] for i in combo]
                for trailing in (False, True):
                    containers.append(("arr", members, trailing))
                keys = [KEYS[(i + j) % len(KEYS)] for j, i in enumerate(combo)]
                for trailing in (False, True):
                    containers.append(("obj", list(zip(keys, members)), trailing))
        out.extend(containers)
        inner = containers
    rnd = random.Random(seed)
    for _ in range(extra):
        out.append(random_doc(rnd, 4))
    # de-duplicate by rendering
    seen = set()
    res = []
    for dct in out:
        r = render(dct)
        if r not in seen:
            seen.add(r)
            res.append(dct)
    return res


def random_doc(rnd, depth):
    if depth == 0 or rnd.random() < 0.3:
        return rnd.choice(LEAVES)
    n = rnd.randint(0, 5)
    if rnd.random() < 0.5:
        return ("arr", [random_doc(rnd, depth - 1) for _ in range(n)], rnd.random() < 0.5)
    return ("obj", [(rnd.choice(KEYS), random_doc(rnd, depth - 1)) for _ in range(n)], rnd.random() < 0.5)


def write_crate(dirpath, documents):
    os.makedirs(os.path.join(dirpath, "src"), exist_ok=True)
    with open(os.path.join(dirpath, "Cargo.toml"), "w") as f:
        f.write('[package]\nname = "jsvcorpus"\nversion = "0.1.0"\nedition = "2021"\n\n[workspace]\n\n[dependencies]\njson-syntax = { path = "/repo" }\n')
    lines = ["#![allow(unused, clippy::all)]", "use json_syntax::{json, Value};", 'pub const KEY_C: &str = "c";', ""]
    for t in ("u8", "u16", "u32", "u64", "i8", "i16", "i32", "i64", "bool"):
        lines.append("pub fn root_from_%s(x: %s) -> Value { Value::from(x) }" % (t, t))
    lines.append("pub fn root_from_str(x: &str) -> Value { Value::from(x) }")
    lines.append("pub fn root_from_string(x: String) -> Value { Value::from(x) }")
    lines.append("pub fn root_try_from_f64(x: f64) -> Option<Value> { Value::try_from(x).ok() }")
    for i, d in enumerate(documents):
        lines.append("pub fn root_p%d() -> Value { json!(%s) }" % (i, render(d)))
    with open(os.path.join(dirpath, "src", "lib.rs"), "w") as f:
        f.write("\n".join(lines) + "\n")


def float_bits(x):
    return struct.unpack("<Q", struct.pack("<d", x))[0]
