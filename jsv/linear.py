"""Linear normal forms of extracted integer expressions: const + sum coeff*symbol."""
from .absint import Conc, Expr, Sym, Undecided


class NotLinear(Exception):
    pass


def lin(e):
    """(const, {sym id: coeff}) of an expression built from Add/Sub/Mul-by-constant/value-preserving casts."""
    if isinstance(e, Conc):
        return (e.v, {})
    if isinstance(e, Sym):
        return (0, {e.id: 1})
    if isinstance(e, Expr):
        if e.op in ("Add", "AddUnchecked"):
            return add(lin(e.args[0]), lin(e.args[1]))
        if e.op in ("Sub", "SubUnchecked"):
            return add(lin(e.args[0]), scale(lin(e.args[1]), -1))
        if e.op in ("Mul", "MulUnchecked"):
            a, b = lin(e.args[0]), lin(e.args[1])
            if not a[1]:
                return scale(b, a[0])
            if not b[1]:
                return scale(a, b[0])
            raise NotLinear(repr(e))
        if e.op in ("cast", "id"):
            return lin(e.args[0])
    raise NotLinear(repr(e))


def add(a, b):
    d = dict(a[1])
    for k, v in b[1].items():
        d[k] = d.get(k, 0) + v
    return (a[0] + b[0], {k: v for k, v in d.items() if v != 0})


def scale(a, c):
    return (a[0] * c, {k: v * c for k, v in a[1].items() if v * c != 0})


def show(l, names=None):
    names = names or {}
    parts = []
    if l[0] or not l[1]:
        parts.append(str(l[0]))
    for k in sorted(l[1], key=lambda s: str(names.get(s, s))):
        c = l[1][k]
        n = str(names.get(k, "$%s" % k))
        parts.append(n if c == 1 else "%d*%s" % (c, n))
    return " + ".join(parts)


def atom(op, a, b):
    """Canonical form of the comparison `a op b` over linear forms: ('gt'|'ge'|'eq'|'ne', linear form) meaning form > 0 etc."""
    d = add(a, scale(b, -1))
    if op == "Gt":
        return ("gt", freeze(d))
    if op == "Ge":
        return ("ge", freeze(d))
    if op == "Lt":
        return ("gt", freeze(scale(d, -1)))
    if op == "Le":
        return ("ge", freeze(scale(d, -1)))
    if op == "Eq":
        return ("eq", freeze(d))
    if op == "Ne":
        return ("ne", freeze(d))
    raise NotLinear(op)


def freeze(l):
    return (l[0], tuple(sorted(l[1].items(), key=repr)))


def negate(at):
    k, f = at
    neg = (-f[0], tuple((s, -c) for s, c in f[1]))
    if k == "gt":  # not (d > 0)  <=>  -d >= 0
        return ("ge", neg)
    if k == "ge":  # not (d >= 0) <=> -d > 0
        return ("gt", neg)
    if k == "eq":
        return ("ne", f)
    return ("eq", f)
