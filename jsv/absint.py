"""E2 — abstract interpreter over the dumped monomorphic MIR.

Values are symbolic: concrete scalars, symbols with an exact interval-set domain kept in the
path's constraint store, expression DAGs over symbols, aggregates (struct / enum variant /
tuple / closure), references to places, abstract heap objects and TOP.  A branch whose
condition is not decided by the store forks the path and refines the store on both sides
(trace partitioning).  Nothing from the analysed crate is ever executed.

The interpreter is driven by a client that
  * registers *summaries* for callees without MIR (or callees it wants to abstract),
  * registers *cut points* (callees at which a path is suspended and handed back to the client,
    e.g. the input iterator's `next`), and
  * consumes the *events* emitted by summaries.
"""
import itertools
import re

from . import iset


class Undecided(Exception):
    """The abstraction cannot decide something the rule needs: reported, fails closed."""

    def __init__(self, msg, site=None):
        Exception.__init__(self, msg)
        self.site = site


# ---------------------------------------------------------------------------------------------
# values
# ---------------------------------------------------------------------------------------------
class V:
    __slots__ = ()


class Conc(V):
    """Concrete scalar (int / bool / char as Python int)."""
    __slots__ = ("v",)

    def __init__(self, v):
        self.v = int(v)

    def __eq__(self, o):
        return isinstance(o, Conc) and o.v == self.v

    def __hash__(self):
        return hash(("c", self.v))

    def __repr__(self):
        return "%d" % self.v


class Sym(V):
    """Symbol; its domain (interval set) lives in the state's constraint store."""
    __slots__ = ("id",)

    def __init__(self, id):
        self.id = id

    def __eq__(self, o):
        return isinstance(o, Sym) and o.id == self.id

    def __hash__(self):
        return hash(("s", self.id))

    def __repr__(self):
        return "$%s" % (self.id,)


class Expr(V):
    """Pure operator application over values. `op` is a MIR BinOp/UnOp name or a summary-defined
    function name; `ty` is a (bits, signed) pair or None."""
    __slots__ = ("op", "args", "ty", "_h")

    def __init__(self, op, args, ty=None):
        self.op = op
        self.args = tuple(args)
        self.ty = ty
        self._h = hash(("e", op, self.args, ty))

    def __eq__(self, o):
        return isinstance(o, Expr) and o._h == self._h and o.op == self.op and o.args == self.args and o.ty == self.ty

    def __hash__(self):
        return self._h

    def __repr__(self):
        return "%s(%s)" % (self.op, ",".join(map(repr, self.args)))


class Agg(V):
    """struct / enum variant / tuple / closure / array value."""
    __slots__ = ("ty", "variant", "fields", "_h")

    def __init__(self, ty, variant, fields):
        self.ty = ty  # type id or None (tuples)
        self.variant = variant  # variant index (0 for structs/tuples)
        self.fields = tuple(fields)
        self._h = hash(("a", ty, variant, self.fields))

    def __eq__(self, o):
        return isinstance(o, Agg) and o._h == self._h and o.ty == self.ty and o.variant == self.variant and o.fields == self.fields

    def __hash__(self):
        return self._h

    def __repr__(self):
        return "Agg#%s.%s%r" % (self.ty, self.variant, self.fields)


class Ref(V):
    """Reference / raw pointer to a place: base is ('L', frame_uid, local) or ('H', obj_id);
    proj is a tuple of ('f', i) / ('d', variant) / ('i', Value) steps."""
    __slots__ = ("base", "proj")

    def __init__(self, base, proj=()):
        self.base = base
        self.proj = tuple(proj)

    def __eq__(self, o):
        return isinstance(o, Ref) and o.base == self.base and o.proj == self.proj

    def __hash__(self):
        return hash(("r", self.base, self.proj))

    def __repr__(self):
        return "&%r%r" % (self.base, self.proj)


class Top(V):
    """Unknown value of a type (type id or None)."""
    __slots__ = ("ty", "tag")

    def __init__(self, ty=None, tag=None):
        self.ty = ty
        self.tag = tag

    def __eq__(self, o):
        return isinstance(o, Top) and o.ty == self.ty and o.tag == self.tag

    def __hash__(self):
        return hash(("t", self.ty, self.tag))

    def __repr__(self):
        return "TOP%s" % ("" if self.tag is None else "<%s>" % (self.tag,))


class Uninit(V):
    __slots__ = ()

    def __eq__(self, o):
        return isinstance(o, Uninit)

    def __hash__(self):
        return hash("uninit")

    def __repr__(self):
        return "_"


UNINIT = Uninit()


class FnItem(V):
    __slots__ = ("inst", "name")

    def __init__(self, inst, name):
        self.inst = inst
        self.name = name

    def __eq__(self, o):
        return isinstance(o, FnItem) and o.inst == self.inst and o.name == self.name

    def __hash__(self):
        return hash(("fn", self.inst, self.name))

    def __repr__(self):
        return "fn<%s>" % self.name


class Str(V):
    """&'static str / byte-string constant."""
    __slots__ = ("s",)

    def __init__(self, s):
        self.s = s

    def __eq__(self, o):
        return isinstance(o, Str) and o.s == self.s

    def __hash__(self):
        return hash(("str", self.s))

    def __repr__(self):
        return "str%r" % (self.s,)


class Obj(V):
    """Handle of an abstract heap object (kept in State.heap)."""
    __slots__ = ("id",)

    def __init__(self, id):
        self.id = id

    def __eq__(self, o):
        return isinstance(o, Obj) and o.id == self.id

    def __hash__(self):
        return hash(("o", self.id))

    def __repr__(self):
        return "obj%s" % (self.id,)


UNIT = Agg(None, 0, ())
TRUE = Conc(1)
FALSE = Conc(0)


# ---------------------------------------------------------------------------------------------
# state
# ---------------------------------------------------------------------------------------------
class CallThen:
    """Result of a summary that needs to call back into interpreted code: call instance `iid` with `args`; when it
    returns, `then(interp, state, return value)` yields the value of the summarised call or another CallThen."""

    def __init__(self, iid, args, then):
        self.iid = iid
        self.args = args
        self.then = then


class Frame:
    __slots__ = ("inst", "locals", "bb", "si", "dest", "target", "uid", "then")

    def __init__(self, inst, uid):
        self.inst = inst
        self.locals = {}
        self.bb = 0
        self.si = 0
        self.dest = None  # Ref into the caller where the return value goes
        self.target = None  # caller bb to continue at
        self.uid = uid
        self.then = None  # continuation of a summary that called this frame (CallThen)

    def copy(self):
        f = Frame(self.inst, self.uid)
        f.locals = dict(self.locals)
        f.bb = self.bb
        f.si = self.si
        f.dest = self.dest
        f.target = self.target
        f.then = self.then
        return f


class State:
    def __init__(self):
        self.frames = []
        self.cons = {}  # sym id -> iset
        self.syminfo = {}  # sym id -> dict (kind, ...)
        self.preds = []  # (Expr bool-valued, truth) assumed on this path
        self.edom = {}  # Expr -> iset: domains of compound expressions refined by assumed predicates
        self.heap = {}  # obj id -> abstract object (immutable values / tuples)
        self.events = []
        self.ctr = {"sym": 0, "obj": 0, "frame": 0}
        self.outcome = None  # None while running; ('return', value) | ('panic', info) | ('cut', name, args, dest info) | ('unreachable',)
        self.steps = 0
        self.trace = []  # (inst id, bb) of forks, for diagnostics

    def copy(self):
        s = State()
        s.frames = [f.copy() for f in self.frames]
        s.cons = dict(self.cons)
        s.syminfo = dict(self.syminfo)
        s.preds = list(self.preds)
        s.edom = dict(self.edom)
        s.heap = dict(self.heap)
        s.events = list(self.events)
        s.ctr = dict(self.ctr)
        s.outcome = self.outcome
        s.steps = self.steps
        s.trace = list(self.trace)
        return s

    def fresh_sym(self, dom, **info):
        self.ctr["sym"] += 1
        sid = self.ctr["sym"]
        self.cons[sid] = dom
        self.syminfo[sid] = info
        return Sym(sid)

    def new_obj(self, value):
        self.ctr["obj"] += 1
        oid = self.ctr["obj"]
        self.heap[oid] = value
        return Obj(oid)

    def emit(self, *ev):
        self.events.append(tuple(ev))


# ---------------------------------------------------------------------------------------------
# helpers on scalar types
# ---------------------------------------------------------------------------------------------
def wrap(v, bits, signed):
    m = (1 << bits) - 1
    v &= m
    if signed and v >> (bits - 1):
        v -= 1 << bits
    return v


class Interp:
    def __init__(self, program, step_limit=200000, fork_limit=20000):
        self.p = program
        self.summaries = []  # list of (predicate(inst dict) -> bool, fn(interp, state, inst, args, call) -> list[State] | None)
        self.cuts = []  # list of (predicate, name)
        self.step_limit = step_limit
        self.fork_limit = fork_limit
        self.drop_policy = lambda inst: False  # which drop glue instances are interpreted
        self.unknown_calls = []  # names of callees that returned TOP because nothing was known
        self.assert_hook = None  # fn(state, frame, term, outcome) for recording assert discharges
        self.max_call_depth = 120
        self.skip_pointer_checks = False  # debug-build UB checks on raw pointer dereferences are not part of the semantics
        self.on_unknown_call = None
        self.index_read_hook = None  # fn(interp, st, heap model, index value) -> value
        self.cov = set()  # (instance id, bb) executed at least once
        self.unop_hooks = []  # fn(st, op, a, tid) -> value | None
        self.binop_hooks = []  # fn(st, op, a, b, tid) -> value | None (extension values such as ordinals)
        self.overflow_hooks = []  # fn(st, base_op, a, b, tid) -> (result, flag) | None

    # ---- types -------------------------------------------------------------------------
    def tinfo(self, tid):
        return self.p.types[tid]

    def scalar_ty(self, tid):
        """(bits, signed) for ints/bool/char, else None."""
        if tid is None:
            return None
        t = self.p.types[tid]
        k = t["k"]
        if k == "int":
            return (t["bits"], t["signed"])
        if k == "bool":
            return (1, False)
        if k == "char":
            return (32, False)
        return None

    def full_dom(self, tid):
        t = self.p.types[tid]
        k = t["k"]
        if k == "int":
            return iset.full(t["bits"], t["signed"])
        if k == "bool":
            return iset.BOOL
        if k == "char":
            return iset.CHAR
        return None

    def variant_of_discr(self, tid, d):
        t = self.p.types[tid]
        for vi, v in enumerate(t["variants"]):
            if int(v.get("discr", vi)) == d:
                return vi
        return None

    def discr_of_variant(self, tid, vi):
        t = self.p.types[tid]
        v = t["variants"][vi]
        return int(v.get("discr", vi))

    def materialize(self, st, tid, tag=None, variant=None):
        """One-level lazy initialisation of a TOP of type `tid`."""
        if tid is None:
            return Top(None, tag)
        t = self.p.types[tid]
        k = t["k"]
        if k in ("int", "bool", "char"):
            return st.fresh_sym(self.full_dom(tid), ty=tid, tag=tag)
        if k == "tuple":
            return Agg(None, 0, [Top(f, tag) for f in t["fields"]])
        if k == "adt" and t["adt_kind"] == "struct":
            return Agg(tid, 0, [Top(f["ty"], tag) for f in t["variants"][0]["fields"]])
        if k == "adt" and t["adt_kind"] == "enum" and variant is not None:
            return Agg(tid, variant, [Top(f["ty"], tag) for f in t["variants"][variant]["fields"]])
        return Top(tid, tag)

    # ---- place access ---------------------------------------------------------------------
    def frame_by_uid(self, st, uid):
        for f in st.frames:
            if f.uid == uid:
                return f
        raise Undecided("dangling reference to a popped frame")

    def read_base(self, st, base):
        if base[0] == "L":
            return self.frame_by_uid(st, base[1]).locals.get(base[2], UNINIT)
        return st.heap[base[1]]

    def write_base(self, st, base, val):
        if base[0] == "L":
            self.frame_by_uid(st, base[1]).locals[base[2]] = val
        else:
            st.heap[base[1]] = val

    def resolve_place(self, st, frame, place):
        """MIR place -> (base, proj) with derefs resolved through Ref values."""
        base = ("L", frame.uid, place["l"])
        proj = []
        cur_ty = self.p.inst[frame.inst]["locals"][place["l"]]
        for e in place.get("p", ()):
            if e == "*":
                v = self.read_path(st, base, tuple(proj), cur_ty_hint=None)
                if isinstance(v, Ref):
                    base, proj = v.base, list(v.proj)
                elif isinstance(v, Obj):
                    base, proj = ("H", v.id), []
                elif isinstance(v, (Top, Uninit)):
                    # pointer to unknown memory: allocate an unknown cell once and store the ref back
                    pointee = None
                    if isinstance(v, Top) and v.ty is not None:
                        pt = self.p.types[v.ty]
                        pointee = pt.get("to")
                    o = st.new_obj(Top(pointee, getattr(v, "tag", None)))
                    nv = Ref(("H", o.id), ())
                    self.write_path(st, base, tuple(proj), nv)
                    base, proj = ("H", o.id), []
                else:
                    raise Undecided("deref of non-reference value %r" % (v,))
            elif isinstance(e, dict):
                if "f" in e:
                    if proj and proj[-1] == ("wrap",) and e["f"] == 0:
                        proj.pop()  # field 0 of a transparent wrapper the reference was transmuted to: the value itself
                    else:
                        proj.append(("f", e["f"]))
                elif "d" in e:
                    proj.append(("d", e["d"]))
                elif "i" in e:
                    idx = frame.locals.get(e["i"], UNINIT)
                    proj.append(("i", idx))
                elif "ci" in e:
                    proj.append(("ci", e["ci"], e.get("from_end", False)))
                else:
                    raise Undecided("unsupported projection %r" % (e,))
            else:
                raise Undecided("unsupported projection %r" % (e,))
        return base, tuple(proj)

    def _step_into(self, st, v, step, write_back):
        """Project one step into value v; returns (sub-value, possibly-updated v)."""
        kind = step[0]
        if isinstance(v, Top) and v.ty is not None:
            t = self.p.types[v.ty]
            if kind == "f" and ((t["k"] == "adt" and t["adt_kind"] == "struct") or t["k"] == "tuple"):
                v = self.materialize(st, v.ty, v.tag)
            elif kind == "d" and t["k"] == "adt" and t["adt_kind"] == "enum":
                v = self.materialize(st, v.ty, v.tag, variant=step[1])
        if kind == "f":
            if isinstance(v, Agg):
                if step[1] >= len(v.fields):
                    raise Undecided("field %d out of range in %r" % (step[1], v))
                return v.fields[step[1]], v
            if isinstance(v, (Top, Uninit)):
                return Top(None, getattr(v, "tag", None)), v
            raise Undecided("field projection on %r" % (v,))
        if kind == "d":
            if isinstance(v, Agg):
                if v.variant != step[1]:
                    raise Undecided("downcast to variant %d of value with variant %d" % (step[1], v.variant))
                return v, v
            return v, v
        if kind in ("i", "ci"):
            if isinstance(v, Agg) and kind == "ci" and not step[2]:
                return v.fields[step[1]], v
            if isinstance(v, Agg) and kind == "i" and isinstance(step[1], Conc):
                return v.fields[step[1].v], v
            raise IndexOnAbstract(v, step)
        raise Undecided("projection %r" % (step,))

    def _norm_elem(self, st, base, proj):
        """Constant / concrete indexing into an exactly modelled vector is an element access."""
        if proj and base[0] == "H" and proj[0][0] in ("ci", "i"):
            root = st.heap.get(base[1])
            if root is not None and not isinstance(root, V) and hasattr(root, "items"):
                step = proj[0]
                if step[0] == "ci":
                    n = len(root.items) - step[1] if step[2] else step[1]
                elif isinstance(step[1], Conc):
                    n = step[1].v
                else:
                    return proj
                if 0 <= n < len(root.items):
                    return (("el", n),) + tuple(proj[1:])
        return proj

    def read_path(self, st, base, proj, cur_ty_hint=None):
        v = self.read_base(st, base)
        if ("wrap",) in proj:
            proj = tuple(s_ for s_ in proj if s_ != ("wrap",))
        proj = self._norm_elem(st, base, proj)
        if not proj:
            return v
        # walk, materialising TOPs on the way (and storing them back so identity persists)
        path_vals = [v]
        changed = False
        cur = v
        for step in proj:
            if isinstance(cur, Obj):
                # element access into an abstract heap object is handled by its model
                cur = st.heap[cur.id]
            if not isinstance(cur, V):
                if step[0] == "el" and hasattr(cur, "items"):
                    sub = cur.items[step[1]]
                    path_vals.append(sub)
                    cur = sub
                    continue
                if step[0] == "i" and self.index_read_hook is not None:
                    sub = self.index_read_hook(self, st, cur, step[1])
                    path_vals.append(sub)
                    cur = sub
                    continue
                raise IndexOnAbstract(cur, step)
            sub, cur2 = self._step_into(st, cur, step, True)
            if cur2 is not cur:
                changed = True
                path_vals[-1] = cur2
            path_vals.append(sub)
            cur = sub
        if changed:
            # rebuild from the inside out
            newv = path_vals[-1]
            for i in range(len(proj) - 1, -1, -1):
                parent = path_vals[i]
                step = proj[i]
                if step[0] == "f" and isinstance(parent, Agg):
                    fs = list(parent.fields)
                    fs[step[1]] = newv
                    newv = Agg(parent.ty, parent.variant, fs)
                else:
                    newv = parent if step[0] != "d" else newv
            self.write_base(st, base, newv)
        return cur

    def write_path(self, st, base, proj, val):
        if ("wrap",) in proj:
            proj = tuple(s_ for s_ in proj if s_ != ("wrap",))
        proj = self._norm_elem(st, base, proj)
        if not proj:
            self.write_base(st, base, val)
            return
        root = self.read_base(st, base)
        if not isinstance(root, V) and proj[0][0] == "el" and hasattr(root, "items"):
            items = list(root.items)
            if len(proj) == 1:
                items[proj[0][1]] = val
            else:
                cell = ("H", -1)
                # nested write below an element: rebuild the element functionally
                tmp = State()
                tmp.heap[-1] = items[proj[0][1]]
                sub = Interp.write_path
                st.heap[-1] = items[proj[0][1]]
                self.write_path(st, ("H", -1), proj[1:], val)
                items[proj[0][1]] = st.heap.pop(-1)
            self.write_base(st, base, type(root)(tuple(items), root.role))
            return

        def upd(v, i):
            if i == len(proj):
                return val
            step = proj[i]
            if isinstance(v, (Top, Uninit)):
                ty = getattr(v, "ty", None)
                if ty is not None:
                    t = self.p.types[ty]
                    if step[0] == "d":
                        v = self.materialize(st, ty, getattr(v, "tag", None), variant=step[1])
                    else:
                        v = self.materialize(st, ty, getattr(v, "tag", None))
            if step[0] == "f":
                if isinstance(v, Agg):
                    fs = list(v.fields)
                    while len(fs) <= step[1]:
                        fs.append(UNINIT)
                    fs[step[1]] = upd(fs[step[1]], i + 1)
                    return Agg(v.ty, v.variant, fs)
                if isinstance(v, (Top, Uninit)):
                    # unknown shape: build a sparse aggregate
                    fs = [UNINIT] * (step[1] + 1)
                    fs[step[1]] = upd(UNINIT, i + 1)
                    return Agg(getattr(v, "ty", None), 0, fs)
                raise Undecided("field write into %r" % (v,))
            if step[0] == "d":
                if isinstance(v, Agg):
                    if v.variant != step[1]:
                        # writing fields of another variant before SetDiscriminant: start afresh
                        v = Agg(v.ty, step[1], ())
                    return upd_same(v, i + 1)
                return upd(Agg(getattr(v, "ty", None), step[1], ()), i)
            if step[0] in ("i", "ci"):
                if isinstance(v, Agg) and step[0] == "i" and isinstance(step[1], Conc):
                    fs = list(v.fields)
                    fs[step[1].v] = upd(fs[step[1].v], i + 1)
                    return Agg(v.ty, v.variant, fs)
                raise IndexOnAbstract(v, step)
            raise Undecided("write projection %r" % (step,))

        def upd_same(v, i):
            # continue below a downcast without consuming a value level
            if i == len(proj):
                return val
            step = proj[i]
            if step[0] == "f":
                fs = list(v.fields)
                while len(fs) <= step[1]:
                    fs.append(UNINIT)
                fs[step[1]] = upd(fs[step[1]], i + 1)
                return Agg(v.ty, v.variant, fs)
            return upd(v, i)

        self.write_base(st, base, upd(root, 0))

    def read_place(self, st, frame, place):
        base, proj = self.resolve_place(st, frame, place)
        return self.read_path(st, base, proj)

    def write_place(self, st, frame, place, val):
        base, proj = self.resolve_place(st, frame, place)
        self.write_path(st, base, proj, val)

    def place_ty(self, frame, place):
        """Type id of a MIR place (walks the type table)."""
        tid = self.p.inst[frame.inst]["locals"][place["l"]]
        variant = None
        for e in place.get("p", ()):
            t = self.p.types[tid]
            if e == "*":
                tid = t.get("to")
                if tid is None:
                    return None
                variant = None
            elif isinstance(e, dict) and "f" in e:
                if t["k"] == "tuple":
                    tid = t["fields"][e["f"]]
                elif t["k"] == "adt":
                    vi = variant if variant is not None else 0
                    tid = t["variants"][vi]["fields"][e["f"]]["ty"]
                elif t["k"] == "closure":
                    tid = t["upvars"][e["f"]]
                else:
                    return None
                variant = None
            elif isinstance(e, dict) and "d" in e:
                variant = e["d"]
            elif isinstance(e, dict) and ("i" in e or "ci" in e):
                tid = t.get("of")
                if tid is None:
                    return None
            else:
                return None
        return tid

    # ---- operands ----------------------------------------------------------------------------
    def const_value(self, st, c):
        k = c["k"]
        if k == "bool":
            return Conc(1 if c["v"] else 0)
        if k in ("char",):
            return Conc(int(c["v"]))
        if k == "int" or k == "scalar":
            return Conc(int(c["v"]))
        if k == "str":
            return Str(c["v"])
        if k == "bytes":
            return Str(bytes(c["v"]))
        if k == "fn":
            return FnItem(c.get("inst"), c["name"])
        if k == "agg":
            ty = c["ty"]
            if self.p.types[ty]["k"] in ("tuple", "array"):
                ty = None
            return Agg(ty, c.get("variant", 0), [self.const_value(st, f) for f in c["fields"]])
        if k == "ref":
            cell = st.new_obj(self.const_value(st, c["to"]))
            return Ref(("H", cell.id), ())
        if k == "opaque":
            t = self.p.types[c["ty"]]
            if t["k"] == "tuple" and not t["fields"]:
                return UNIT
            if t["k"] == "adt" and t["adt_kind"] == "struct" and not t["variants"][0]["fields"]:
                return Agg(c["ty"], 0, ())
            if t["k"] == "closure" and not t["upvars"]:
                return Agg(c["ty"], 0, ())
            if t["k"] == "float" and re.match(r"^Scalar\(0x[0-9a-f]+\)$", c.get("dbg", "")):
                # a floating-point literal: opaque to arithmetic, but its bit pattern stays visible in the tag
                return Top(c["ty"], "float:" + c["dbg"][7:-1])
            return Top(c["ty"], "const")
        raise Undecided("constant kind %r" % k)

    def operand(self, st, frame, o):
        if "copy" in o:
            return self.read_place(st, frame, o["copy"])
        if "move" in o:
            pl = o["move"]
            v = self.read_place(st, frame, pl)
            if not pl.get("p"):
                frame.locals[pl["l"]] = UNINIT
            return v
        if "const" in o:
            return self.const_value(st, o["const"])
        if "runtime_checks" in o:
            return FALSE  # UB checks / overflow checks of the std build: disabled
        raise Undecided("operand %r" % (o,))

    # ---- scalar abstract domain ------------------------------------------------------------------
    def dom(self, st, v, ty=None):
        """Interval-set over-approximation of a scalar value, or None."""
        if isinstance(v, Conc):
            return ((v.v, v.v),)
        if isinstance(v, Sym):
            return st.cons.get(v.id)
        if isinstance(v, Expr):
            return self.expr_dom(st, v)
        return None

    def expr_dom(self, st, e):
        d = self.expr_dom0(st, e)
        r = st.edom.get(e)
        if r is not None:
            d = r if d is None else iset.inter(d, r)
        return d

    def refine_edom(self, st, e, keep):
        """Intersect the recorded domain of a compound expression with `keep`; False if empty."""
        d = self.expr_dom(st, e)
        nd = keep if d is None else iset.inter(d, keep)
        if iset.is_empty(nd):
            return False
        st.edom[e] = nd
        return True

    def maybe_mask(self, st, v, depth=0):
        """Over-approximation of the bits that can be 1 in a non-negative value (or None)."""
        if isinstance(v, Conc):
            return v.v if v.v >= 0 else None
        if isinstance(v, Sym):
            d = st.cons.get(v.id)
            if d is None or iset.is_empty(d) or iset.lo(d) < 0:
                return None
            return (1 << iset.hi(d).bit_length()) - 1
        if isinstance(v, Expr) and depth < 64:
            if v.op == "BitAnd":
                a, b = self.maybe_mask(st, v.args[0], depth + 1), self.maybe_mask(st, v.args[1], depth + 1)
                if a is None:
                    return b
                if b is None:
                    return a
                return a & b
            if v.op in ("BitOr", "BitXor"):
                a, b = self.maybe_mask(st, v.args[0], depth + 1), self.maybe_mask(st, v.args[1], depth + 1)
                if a is None or b is None:
                    return None
                return a | b
            if v.op == "Not" and v.ty is not None and v.ty[0] > 1 and not v.ty[1]:
                return (1 << v.ty[0]) - 1
            if v.op in ("Shl", "ShlUnchecked") and isinstance(v.args[1], Conc):
                a = self.maybe_mask(st, v.args[0], depth + 1)
                if a is None:
                    return None
                m = a << v.args[1].v
                return m & ((1 << v.ty[0]) - 1) if v.ty else m
            if v.op in ("Shr", "ShrUnchecked") and isinstance(v.args[1], Conc):
                a = self.maybe_mask(st, v.args[0], depth + 1)
                return None if a is None else a >> v.args[1].v
            if v.op in ("cast", "id"):
                return self.maybe_mask(st, v.args[0], depth + 1)
            d = self.expr_dom(st, v) if depth < 8 else None
            if d is not None and not iset.is_empty(d) and iset.lo(d) >= 0:
                return (1 << iset.hi(d).bit_length()) - 1
        return None

    def expr_dom0(self, st, e):
        if e.op == "BitAnd":
            m = self.maybe_mask(st, e)
            if m is not None:
                return ((0, m),)
        ds = [self.dom(st, a) for a in e.args]
        if any(d is None or iset.is_empty(d) for d in ds):
            return None if e.ty is None else iset.full(*e.ty)
        op = e.op
        lo = [iset.lo(d) for d in ds]
        hi = [iset.hi(d) for d in ds]
        r = None
        if op in ("Add", "AddUnchecked"):
            r = (lo[0] + lo[1], hi[0] + hi[1])
        elif op in ("Sub", "SubUnchecked"):
            r = (lo[0] - hi[1], hi[0] - lo[1])
        elif op in ("Mul", "MulUnchecked"):
            c = [lo[0] * lo[1], lo[0] * hi[1], hi[0] * lo[1], hi[0] * hi[1]]
            r = (min(c), max(c))
        elif op in ("Shl", "ShlUnchecked") and lo[1] == hi[1] and lo[0] >= 0:
            r = (lo[0] << lo[1], hi[0] << lo[1])
        elif op in ("Shr", "ShrUnchecked") and lo[1] == hi[1] and lo[0] >= 0:
            r = (lo[0] >> lo[1], hi[0] >> lo[1])
        elif op == "BitAnd" and lo[0] >= 0 and lo[1] >= 0:
            r = (0, min(hi[0], hi[1]))
        elif op in ("BitOr", "BitXor") and lo[0] >= 0 and lo[1] >= 0:
            m = max(hi[0], hi[1])
            r = (0 if op == "BitXor" else max(lo[0], lo[1]), (1 << m.bit_length()) - 1)
        elif op in ("Eq", "Ne", "Lt", "Le", "Gt", "Ge", "Not1"):
            r = (0, 1)
        elif op == "id":
            r = (lo[0], hi[0])
        if r is None:
            return None if e.ty is None else iset.full(*e.ty)
        if e.ty is not None:
            f = iset.full(*e.ty)
            if r[0] < f[0][0] or r[1] > f[0][1]:
                return f  # may wrap
        return ((r[0], r[1]),)

    def concretize_binop(self, op, a, b, ty):
        bits, signed = ty if ty else (128, True)
        if op in ("Add", "AddUnchecked"):
            return wrap(a + b, bits, signed)
        if op in ("Sub", "SubUnchecked"):
            return wrap(a - b, bits, signed)
        if op in ("Mul", "MulUnchecked"):
            return wrap(a * b, bits, signed)
        if op == "Div":
            if b == 0:
                raise Undecided("division by zero in concrete evaluation")
            q = abs(a) // abs(b)
            return wrap(q if (a < 0) == (b < 0) else -q, bits, signed)
        if op == "Rem":
            if b == 0:
                raise Undecided("remainder by zero in concrete evaluation")
            r = abs(a) % abs(b)
            return wrap(-r if a < 0 else r, bits, signed)
        if op == "BitXor":
            return wrap(a ^ b, bits, signed)
        if op == "BitAnd":
            return wrap(a & b, bits, signed)
        if op == "BitOr":
            return wrap(a | b, bits, signed)
        if op in ("Shl", "ShlUnchecked"):
            return wrap(a << (b % bits), bits, signed)
        if op in ("Shr", "ShrUnchecked"):
            return wrap(a >> (b % bits), bits, signed)
        if op == "Eq":
            return int(a == b)
        if op == "Ne":
            return int(a != b)
        if op == "Lt":
            return int(a < b)
        if op == "Le":
            return int(a <= b)
        if op == "Gt":
            return int(a > b)
        if op == "Ge":
            return int(a >= b)
        if op == "Cmp":
            return -1 if a < b else (1 if a > b else 0)
        raise Undecided("binop %s" % op)

    def eval_expr(self, e, env):
        """Concrete evaluation of an extracted expression under an assignment of its symbols
        (used to compare extracted tables with reference tables)."""
        if isinstance(e, Conc):
            return e.v
        if isinstance(e, Sym):
            return env[e.id]
        if hasattr(e, "evaluate"):
            return e.evaluate(self, env)
        if isinstance(e, Expr):
            if e.op in FUNCS:
                return FUNCS[e.op](*[self.eval_expr(a, env) for a in e.args])
            if e.op == "Not":
                a = self.eval_expr(e.args[0], env)
                bits, signed = e.ty if e.ty else (1, False)
                return wrap(~a, bits, signed) if bits > 1 else (1 - a)
            if e.op == "Neg":
                a = self.eval_expr(e.args[0], env)
                bits, signed = e.ty
                return wrap(-a, bits, signed)
            if e.op == "cast":
                a = self.eval_expr(e.args[0], env)
                return wrap(a, *e.ty)
            if e.op == "id":
                return self.eval_expr(e.args[0], env)
            a = self.eval_expr(e.args[0], env)
            b = self.eval_expr(e.args[1], env)
            return self.concretize_binop(e.op, a, b, e.ty)
        raise Undecided("cannot evaluate %r" % (e,))

    def binop(self, st, op, a, b, tid):
        for h in self.binop_hooks:
            r = h(st, op, a, b, tid)
            if r is not None:
                return r
        ty = self.scalar_ty(tid)
        cmp_ops = ("Eq", "Ne", "Lt", "Le", "Gt", "Ge")
        if isinstance(a, Conc) and isinstance(b, Conc):
            return Conc(self.concretize_binop(op, a.v, b.v, ty))
        if op in cmp_ops:
            if a == b and isinstance(a, (Sym, Conc, Expr)):
                return Conc(1 if op in ("Eq", "Le", "Ge") else 0)
            da, db = self.dom(st, a), self.dom(st, b)
            if da is not None and db is not None and not iset.is_empty(da) and not iset.is_empty(db):
                alo, ahi, blo, bhi = iset.lo(da), iset.hi(da), iset.lo(db), iset.hi(db)
                if op == "Lt":
                    if ahi < blo:
                        return TRUE
                    if alo >= bhi:
                        return FALSE
                elif op == "Le":
                    if ahi <= blo:
                        return TRUE
                    if alo > bhi:
                        return FALSE
                elif op == "Gt":
                    if alo > bhi:
                        return TRUE
                    if ahi <= blo:
                        return FALSE
                elif op == "Ge":
                    if alo >= bhi:
                        return TRUE
                    if ahi < blo:
                        return FALSE
                elif op in ("Eq", "Ne"):
                    if iset.is_empty(iset.inter(da, db)):
                        return FALSE if op == "Eq" else TRUE
                    if iset.single(da) is not None and da == db:
                        return TRUE if op == "Eq" else FALSE
            return Expr(op, (a, b), (1, False))
        if isinstance(a, (Conc, Sym, Expr)) and isinstance(b, (Conc, Sym, Expr)):
            # algebraic identities that keep symbol identity
            if op in ("Add", "Sub", "BitOr", "BitXor", "Shl", "Shr") and isinstance(b, Conc) and b.v == 0:
                return a
            if op in ("Add", "BitOr", "BitXor") and isinstance(a, Conc) and a.v == 0:
                return b
            if op == "Mul" and isinstance(b, Conc) and b.v == 1:
                return a
            return Expr(op, (a, b), ty)
        if op == "Offset":
            return Top(None, "ptr")
        # pointer comparisons etc.
        if op in cmp_ops or op == "Cmp":
            return Top(None, "cmp")
        return Top(tid, "binop")

    def with_overflow(self, st, op, a, b, tid):
        base = op[: -len("WithOverflow")]
        for h in self.overflow_hooks:
            r = h(st, base, a, b, tid)
            if r is not None:
                return Agg(None, 0, r)
        ty = self.scalar_ty(tid)
        if isinstance(a, Conc) and isinstance(b, Conc):
            exact = {"Add": a.v + b.v, "Sub": a.v - b.v, "Mul": a.v * b.v}[base]
            w = wrap(exact, *ty)
            return Agg(None, 0, (Conc(w), Conc(int(w != exact))))
        res = self.binop(st, base, a, b, tid)
        # decide the overflow flag from the un-wrapped interval
        flag = None
        da, db = self.dom(st, a), self.dom(st, b)
        if da is not None and db is not None and ty is not None and not iset.is_empty(da) and not iset.is_empty(db):
            alo, ahi, blo, bhi = iset.lo(da), iset.hi(da), iset.lo(db), iset.hi(db)
            if base == "Add":
                lo, hi = alo + blo, ahi + bhi
            elif base == "Sub":
                lo, hi = alo - bhi, ahi - blo
            else:
                c = [alo * blo, alo * bhi, ahi * blo, ahi * bhi]
                lo, hi = min(c), max(c)
            f = iset.full(*ty)
            if lo >= f[0][0] and hi <= f[0][1]:
                flag = FALSE
            elif hi < f[0][0] or lo > f[0][1]:
                flag = TRUE
        if flag is None:
            flag = Expr("overflow_" + base, (a, b), (1, False))
        return Agg(None, 0, (res, flag))

    def unop(self, st, op, a, tid):
        for h in self.unop_hooks:
            r = h(st, op, a, tid)
            if r is not None:
                return r
        ty = self.scalar_ty(tid)
        if op == "PtrMetadata":
            return self.ptr_metadata(st, a)
        if isinstance(a, Conc):
            if op == "Not":
                if ty == (1, False):
                    return Conc(1 - a.v)
                return Conc(wrap(~a.v, *ty))
            if op == "Neg":
                return Conc(wrap(-a.v, *ty))
        if isinstance(a, (Sym, Expr)):
            if op == "Not" and ty == (1, False) and isinstance(a, Expr):
                neg = {"Eq": "Ne", "Ne": "Eq", "Lt": "Ge", "Ge": "Lt", "Le": "Gt", "Gt": "Le"}
                if a.op in neg:
                    return Expr(neg[a.op], a.args, a.ty)
            return Expr(op, (a,), ty)
        return Top(tid, "unop")

    def ptr_metadata(self, st, a):
        # length of a slice reference
        if isinstance(a, Ref):
            try:
                v = self.read_path(st, a.base, a.proj)
            except IndexOnAbstract:
                v = None
            if v is not None and not isinstance(v, V) and hasattr(v, "length"):
                return v.length(self, st)
            if isinstance(v, Agg) and v.ty is None:
                return Conc(len(v.fields))
            if isinstance(v, Str):
                return Conc(len(v.s.encode() if isinstance(v.s, str) else v.s))
            if isinstance(v, Obj):
                m = st.heap[v.id]
                if hasattr(m, "length"):
                    return m.length(self, st)
        if isinstance(a, Str):
            return Conc(len(a.s.encode() if isinstance(a.s, str) else a.s))
        if isinstance(a, Obj):
            m = st.heap[a.id]
            if hasattr(m, "length"):
                return m.length(self, st)
        return Top(None, "len")

    def cast(self, st, kind, a, to_tid, from_tid):
        to = self.scalar_ty(to_tid)
        if kind == "IntToInt":
            if isinstance(a, Conc):
                return Conc(wrap(a.v, *to))
            d = self.dom(st, a)
            if d is not None and to is not None and not iset.is_empty(d):
                f = iset.full(*to)
                if iset.lo(d) >= f[0][0] and iset.hi(d) <= f[0][1]:
                    return a  # value-preserving: keep the identity
            if isinstance(a, (Sym, Expr)):
                return Expr("cast", (a,), to)
            return Top(to_tid, "cast")
        if kind == "Transmute":
            tk = self.p.types[to_tid]["k"]
            fk = self.p.types[from_tid]["k"] if from_tid is not None else None
            if tk in ("int", "char", "bool") and fk in ("int", "char", "bool") and isinstance(a, (Conc, Sym, Expr)):
                return a
            if tk in ("ref", "ptr") and fk in ("ref", "ptr"):
                if isinstance(a, Ref):
                    # &T -> &Wrapper<T> for a single-field (transparent) wrapper: remember the wrapping so that `.0` is the value
                    tp, fp = self.p.types[to_tid].get("to"), self.p.types[from_tid].get("to")
                    if tp is not None and fp is not None and tp != fp:
                        tt = self.p.types[tp]
                        if tt["k"] == "adt" and tt.get("adt_kind") == "struct" and len(tt["variants"][0]["fields"]) == 1 and tt["variants"][0]["fields"][0]["ty"] == fp:
                            return Ref(a.base, a.proj + (("wrap",),))
                        ft = self.p.types[fp]
                        if ft["k"] == "adt" and ft.get("adt_kind") == "struct" and len(ft["variants"][0]["fields"]) == 1 and ft["variants"][0]["fields"][0]["ty"] == tp:
                            if a.proj and a.proj[-1] == ("wrap",):
                                return Ref(a.base, a.proj[:-1])
                            return Ref(a.base, a.proj + (("f", 0),))
                return a
            if tk in ("ref", "ptr") and fk == "adt" and isinstance(a, Agg) and len(a.fields) == 1 and isinstance(a.fields[0], Ref):
                return a.fields[0]  # NonNull<T> -> *T
            if tk == "adt" and fk == "adt":
                # repr(transparent) wrappers (e.g. Unordered<T>) — keep the value opaque
                return a if isinstance(a, (Ref,)) else Top(to_tid, "transmute")
            return Top(to_tid, "transmute")
        if kind.startswith("PointerCoercion") or kind in ("PtrToPtr", "FnPtrToPtr", "Subtype"):
            return a
        if kind in ("FloatToInt", "FloatToFloat", "IntToFloat"):
            return Top(to_tid, "float")
        if kind in ("PointerExposeProvenance", "PointerWithExposedProvenance"):
            return Top(to_tid, "ptrint")
        return Top(to_tid, "cast")

    # ---- assumptions / forking ----------------------------------------------------------------------
    def assume_eq(self, st, v, c):
        """Refine the store with v == c (c concrete int). Returns False when infeasible."""
        if isinstance(v, Conc):
            return v.v == c
        if isinstance(v, Sym):
            d = iset.inter(st.cons[v.id], ((c, c),))
            if iset.is_empty(d):
                return False
            st.cons[v.id] = d
            return True
        if isinstance(v, Expr):
            return self.assume_expr(st, v, c)
        return True

    def assume_ne_all(self, st, v, cs):
        if isinstance(v, Conc):
            return v.v not in cs
        if isinstance(v, Sym):
            d = iset.sub(st.cons[v.id], iset.normalize([(c, c) for c in cs]))
            if iset.is_empty(d):
                return False
            st.cons[v.id] = d
            return True
        if isinstance(v, Expr):
            if v.ty == (1, False) and set(cs) == {0}:
                return self.assume_expr(st, v, 1)
            if v.ty == (1, False) and set(cs) == {1}:
                return self.assume_expr(st, v, 0)
            d = self.dom(st, v)
            if d is not None and iset.is_empty(iset.sub(d, iset.normalize([(c, c) for c in cs]))):
                return False
            for c in cs:
                st.preds.append((Expr("Ne", (v, Conc(c)), (1, False)), 1))
            return True
        return True

    def fold(self, st, e):
        """Lazy definition folding: name the compound expression `e` (over two or more symbols) by a
        fresh symbol u with the same domain, remember `u := e`, and replace e by u everywhere in the
        state, so that predicates on e refine one symbol exactly."""
        d = self.expr_dom(st, e)
        if d is None:
            d = iset.full(*e.ty) if e.ty else ((-(1 << 127), (1 << 127) - 1),)
        u = st.fresh_sym(d, kind="fold")
        st.syminfo[u.id]["def"] = e

        memo = {}

        def sub(v):
            if v is e or v == e:
                return u
            if isinstance(v, Expr):
                k = id(v)
                if k in memo:
                    return memo[k]
                na = tuple(sub(a) for a in v.args)
                r = v if all(x is y for x, y in zip(na, v.args)) else Expr(v.op, na, v.ty)
                memo[k] = r
                return r
            if isinstance(v, Agg):
                nf = tuple(sub(a) for a in v.fields)
                return v if all(x is y for x, y in zip(nf, v.fields)) else Agg(v.ty, v.variant, nf)
            return v

        for f in st.frames:
            for l, v in list(f.locals.items()):
                nv = sub(v)
                if nv is not v:
                    f.locals[l] = nv
        for o, m in list(st.heap.items()):
            if isinstance(m, V):
                nv = sub(m)
                if nv is not m:
                    st.heap[o] = nv
            elif hasattr(m, "items") and isinstance(getattr(m, "items"), tuple):
                ni = tuple(sub(x) for x in m.items)
                if any(x is not y for x, y in zip(ni, m.items)):
                    st.heap[o] = type(m)(ni, m.role)
        st.preds = [(sub(p), t) for p, t in st.preds]
        st.edom = {sub(k): v for k, v in st.edom.items() if not (k == e)}
        return u

    def should_fold(self, e):
        return isinstance(e, Expr) and len(_collect_syms(e)) >= 2

    def assume_expr(self, st, e, c):
        """Assume (e == c) for an expression value; boolean comparisons refine symbol domains."""
        if e.op in ("in_range", "is_char", "Eq", "Ne", "Lt", "Le", "Gt", "Ge") and e.args and self.should_fold(e.args[0]) \
                and all(isinstance(a, Conc) for a in e.args[1:]):
            u = self.fold(st, e.args[0])
            e = Expr(e.op, (u,) + tuple(e.args[1:]), e.ty)
        if e.ty == (1, False) and c in (0, 1) and e.op in ("Eq", "Ne", "Lt", "Le", "Gt", "Ge"):
            a, b = e.args
            op = e.op
            if not c:
                op = {"Eq": "Ne", "Ne": "Eq", "Lt": "Ge", "Ge": "Lt", "Le": "Gt", "Gt": "Le"}[op]
            flip = {"Eq": "Eq", "Ne": "Ne", "Lt": "Gt", "Gt": "Lt", "Le": "Ge", "Ge": "Le"}
            if isinstance(a, Conc) and not isinstance(b, Conc):
                a, b, op = b, a, flip[op]
            if isinstance(a, Sym) and isinstance(b, Conc):
                t, _ = iset.cmp_split(st.cons[a.id], op, b.v)
                if iset.is_empty(t):
                    return False
                st.cons[a.id] = t
                return True
            # id-expressions (value preserving casts) unwrap
            if isinstance(a, Expr) and a.op in ("cast", "id") and isinstance(a.args[0], Sym) and isinstance(b, Conc):
                d = self.dom(st, a.args[0])
                f = iset.full(*a.ty) if a.ty else None
                if d is not None and f is not None and iset.lo(d) >= f[0][0] and iset.hi(d) <= f[0][1]:
                    return self.assume_expr(st, Expr(op, (a.args[0], b), (1, False)), 1)
            if isinstance(a, Expr) and isinstance(b, Conc):
                big = ((-(1 << 200), 1 << 200),)
                keep, _ = iset.cmp_split(big, op, b.v)
                if not self.refine_edom(st, a, keep):
                    return False
                st.preds.append((Expr(op, (a, b), (1, False)), 1))
                return True
            # feasibility through interval bounds
            da, db = self.dom(st, a), self.dom(st, b)
            if da is not None and db is not None and not iset.is_empty(da) and not iset.is_empty(db):
                r = self.binop(st, op, _bounds_sym(da), _bounds_sym(db), None) if False else None
                alo, ahi, blo, bhi = iset.lo(da), iset.hi(da), iset.lo(db), iset.hi(db)
                feasible = {
                    "Eq": not (ahi < blo or alo > bhi),
                    "Ne": not (alo == ahi == blo == bhi),
                    "Lt": alo < bhi,
                    "Le": alo <= bhi,
                    "Gt": ahi > blo,
                    "Ge": ahi >= blo,
                }[op]
                if not feasible:
                    return False
            st.preds.append((Expr(op, (a, b), (1, False)), 1))
            return True
        if e.op == "Not" and e.ty == (1, False):
            return self.assume_eq(st, e.args[0], 1 - c)
        if e.op == "in_range" and c in (0, 1) and isinstance(e.args[0], Sym):
            x, lo_, hi_ = e.args
            rng = ((lo_.v, hi_.v),) if lo_.v <= hi_.v else ()
            d = iset.inter(st.cons[x.id], rng) if c else iset.sub(st.cons[x.id], rng)
            if iset.is_empty(d):
                return False
            st.cons[x.id] = d
            return True
        if e.op == "is_char" and c in (0, 1) and isinstance(e.args[0], Sym):
            x = e.args[0]
            d = iset.inter(st.cons[x.id], iset.CHAR) if c else iset.sub(st.cons[x.id], iset.CHAR)
            if iset.is_empty(d):
                return False
            st.cons[x.id] = d
            return True
        if e.op in ("in_range", "is_char") and c in (0, 1):
            rng = iset.CHAR if e.op == "is_char" else (((e.args[1].v, e.args[2].v),) if e.args[1].v <= e.args[2].v else ())
            big = ((-(1 << 200), 1 << 200),)
            keep = rng if c else iset.sub(big, rng)
            if isinstance(e.args[0], Expr):
                if not self.refine_edom(st, e.args[0], keep):
                    return False
            st.preds.append((e, c))
            return True
        d = self.dom(st, e)
        if d is not None and not iset.contains(d, c):
            return False
        st.preds.append((Expr("Eq", (e, Conc(c)), (1, False)), 1))
        return True

    # ---- running ------------------------------------------------------------------------------------------
    def call_root(self, root_name, args, st=None):
        """Start a state at the entry of a root with the given argument values."""
        iid = self.p.roots[root_name] if root_name in self.p.roots else root_name
        st = st or State()
        self.push_frame(st, iid, args, None, None)
        return st

    def push_frame(self, st, iid, args, dest, target, spread=False):
        inst = self.p.inst[iid]
        if not inst.get("has_mir"):
            raise Undecided("no MIR for %s" % inst["name"])
        if len(st.frames) >= self.max_call_depth:
            raise Undecided("call depth %d exceeded in %s: unbounded recursion?" % (self.max_call_depth, inst["name"][:120]))
        st.ctr["frame"] += 1
        f = Frame(iid, st.ctr["frame"])
        f.dest = dest
        f.target = target
        n = inst["arg_count"]
        if spread or len(args) != n:
            # "rust-call" ABI of closures: (closure, (args...)) is spread
            if len(args) == 2 and isinstance(args[1], Agg) and args[1].ty is None and 1 + len(args[1].fields) == n:
                args = [args[0]] + list(args[1].fields)
            elif len(args) == 2 and args[1] == UNIT and n == 1:
                args = [args[0]]
            elif len(args) != n:
                raise Undecided("arity mismatch calling %s: %d args for %d params" % (inst["name"], len(args), n))
        for i, a in enumerate(args):
            f.locals[i + 1] = a
        st.frames.append(f)
        return f

    def run(self, st):
        """Run one path until it forks, finishes, or hits a cut. Returns a list of states:
        finished ones have .outcome set; the caller re-submits running ones."""
        out = []
        work = [st]
        forks = 0
        while work:
            s = work.pop()
            try:
                succ = self.run_path(s)
            except IndexOnAbstract as e:
                raise Undecided("indexing into abstract value %r with %r" % (e.value, e.step), self.site(s))
            for t in succ:
                if t.outcome is not None:
                    out.append(t)
                else:
                    forks += 1
                    if forks > self.fork_limit:
                        raise Undecided("fork limit exceeded", self.site(t))
                    work.append(t)
        return out

    def site(self, st):
        if not st.frames:
            return None
        f = st.frames[-1]
        inst = self.p.inst[f.inst]
        return "%s @ %s (bb%d)" % (inst["name"], self.p.loc(f.inst, f.bb), f.bb)

    def run_path(self, st):
        """Advance until a fork (returns >1 states), a final outcome, or a cut."""
        while True:
            st.steps += 1
            if st.steps > self.step_limit:
                raise Undecided("step limit exceeded (unbounded loop without cut point?)", self.site(st))
            f = st.frames[-1]
            inst = self.p.inst[f.inst]
            blk = inst["blocks"][f.bb]
            self.cov.add((f.inst, f.bb))
            stmts = blk["s"]
            while f.si < len(stmts):
                self.exec_stmt(st, f, stmts[f.si])
                f.si += 1
            r = self.exec_term(st, f, blk["t"])
            if r is not None:
                return r

    def goto(self, f, bb):
        f.bb = bb
        f.si = 0

    def exec_stmt(self, st, f, s):
        k = s["k"]
        if k == "assign":
            v = self.rvalue(st, f, s["r"], s["p"])
            self.write_place(st, f, s["p"], v)
        elif k == "live":
            f.locals.pop(s["l"], None)
        elif k == "dead":
            f.locals.pop(s["l"], None)
        elif k == "setdiscr":
            cur = self.read_place(st, f, s["p"])
            tid = self.place_ty(f, s["p"])
            if isinstance(cur, Agg) and cur.variant == s["variant"]:
                return
            fields = cur.fields if isinstance(cur, Agg) else ()
            self.write_place(st, f, s["p"], Agg(tid, s["variant"], fields))
        elif k == "intrinsic":
            pass
        else:
            raise Undecided("statement kind %s" % k)

    def rvalue(self, st, f, r, dest_place):
        k = r["k"]
        if k == "use":
            return self.operand(st, f, r["a"])
        if k == "ref" or k == "rawptr":
            pl = r["p"]
            if pl.get("p") == ["*"]:
                # reborrow `&*x`: identity for string constants and plain references
                v0 = f.locals.get(pl["l"])
                if isinstance(v0, (Str, Ref)) or (isinstance(v0, Top) and v0.ty is not None and self.p.types[v0.ty]["k"] in ("ref", "ptr")):
                    return v0
            base, proj = self.resolve_place(st, f, pl)
            return Ref(base, proj)
        if k == "bin":
            op = r["op"]
            a = self.operand(st, f, r["a"])
            b = self.operand(st, f, r["b"])
            if op.endswith("WithOverflow"):
                return self.with_overflow(st, op, a, b, r["ty"])
            return self.binop(st, op, a, b, r["ty"])
        if k == "un":
            a = self.operand(st, f, r["a"])
            return self.unop(st, r["op"], a, r["ty"])
        if k == "cast":
            a = self.operand(st, f, r["a"])
            return self.cast(st, r["cast"], a, r["ty"], r.get("from"))
        if k == "discr":
            v = self.read_place(st, f, r["p"])
            tid = self.place_ty(f, r["p"])
            if isinstance(v, Agg) and tid is not None and self.p.types[tid]["k"] == "adt":
                return Conc(self.discr_of_variant(tid, v.variant))
            if isinstance(v, Agg):
                return Conc(v.variant)
            if isinstance(v, (Top, Uninit)) and tid is not None and self.p.types[tid]["k"] == "adt" and self.p.types[tid]["adt_kind"] == "enum":
                # symbolic discriminant: resolved by a fork at the switch (lazy initialisation)
                base, proj = self.resolve_place(st, f, r["p"])
                return Expr("discr", (Ref(base, proj),), None)
            if isinstance(v, (Conc, Sym)):
                return v
            raise Undecided("discriminant of %r" % (v,), self.site(st))
        if k == "agg":
            ops = [self.operand(st, f, o) for o in r["ops"]]
            a = r["agg"]
            if a == "tuple":
                return Agg(None, 0, ops)
            if a == "adt":
                if "union_field" in r:
                    return Top(r["ty"], "union")
                return Agg(r["ty"], r["variant"], ops)
            if a == "closure":
                return Agg(r["ty"], 0, ops)
            if a == "array":
                return Agg(None, 0, ops)
            if a == "rawptr":
                return ops[0]
            raise Undecided("aggregate kind %s" % a)
        if k == "repeat":
            return Top(None, "repeat")
        if k == "tls":
            return Top(None, "tls")
        raise Undecided("rvalue kind %s" % k)

    # ---- terminators ----------------------------------------------------------------------------------------
    def exec_term(self, st, f, t):
        k = t["k"]
        if k == "goto":
            self.goto(f, t["target"])
            return None
        if k == "switch":
            return self.do_switch(st, f, t)
        if k == "return":
            return self.do_return(st, f)
        if k == "call":
            return self.do_call(st, f, t)
        if k == "tailcall":
            raise Undecided("tail call")
        if k == "drop":
            return self.do_drop(st, f, t)
        if k == "assert":
            return self.do_assert(st, f, t)
        if k == "unreachable":
            st.outcome = ("unreachable",)
            return [st]
        if k in ("resume", "terminate"):
            st.outcome = ("unwind",)
            return [st]
        raise Undecided("terminator %s" % k, self.site(st))

    def do_return(self, st, f):
        rv = f.locals.get(0, UNIT)
        st.frames.pop()
        if f.then is not None:
            r = f.then(self, st, rv)
            if isinstance(r, CallThen):
                nf = self.push_frame(st, r.iid, r.args, f.dest, f.target)
                nf.then = r.then
                return None
            return self.finish_summary(st, st.frames[-1], r, f.dest, f.target)
        if not st.frames:
            st.outcome = ("return", rv)
            return [st]
        caller = st.frames[-1]
        if f.dest is not None:
            self.write_path(st, f.dest.base, f.dest.proj, rv)
        if f.target is None:
            st.outcome = ("diverged",)
            return [st]
        self.goto(caller, f.target)
        return None

    def do_switch(self, st, f, t):
        v = self.operand(st, f, t["discr"])
        targets = [(int(a), b) for a, b in t["targets"]]
        otherwise = t["otherwise"]
        if isinstance(v, Conc):
            for val, bb in targets:
                # bool/ints compare by value (targets are unsigned bit patterns)
                if val == v.v or (v.v < 0 and val == (v.v & ((1 << 128) - 1))):
                    self.goto(f, bb)
                    return None
            ty = self.scalar_ty(t["ty"])
            if ty and ty[1] and v.v < 0:
                u = v.v & ((1 << ty[0]) - 1)
                for val, bb in targets:
                    if val == u:
                        self.goto(f, bb)
                        return None
            self.goto(f, otherwise)
            return None
        if isinstance(v, Expr) and v.op == "discr":
            # lazy initialisation of an enum: one successor per variant
            ref = v.args[0]
            tid = None
            cur = self.read_path(st, ref.base, ref.proj)
            tid = getattr(cur, "ty", None)
            if tid is None:
                raise Undecided("switch on discriminant of untyped TOP", self.site(st))
            tinfo = self.p.types[tid]
            out = []
            for vi, var in enumerate(tinfo["variants"]):
                d = int(var.get("discr", vi))
                bb = otherwise
                for val, b in targets:
                    if val == d or val == (d & ((1 << 128) - 1)):
                        bb = b
                s2 = st.copy()
                f2 = s2.frames[-1]
                nv = self.materialize(s2, tid, getattr(cur, "tag", None), variant=vi)
                self.write_path(s2, ref.base, ref.proj, nv)
                self.on_materialize(s2, cur, nv, vi)
                self.goto(f2, bb)
                out.append(s2)
            return out
        if isinstance(v, Top) or isinstance(v, Uninit):
            if isinstance(v, Top) and v.ty is not None and self.scalar_ty(v.ty) is not None:
                v = self.materialize(st, v.ty, v.tag)
            else:
                raise Undecided("branch on unknown value %r" % (v,), self.site(st))
        signed_ty = self.scalar_ty(t["ty"])

        def norm(val):
            if signed_ty and signed_ty[1] and val >> (signed_ty[0] - 1):
                return val - (1 << signed_ty[0])
            return val

        out = []
        vals = [norm(val) for val, _ in targets]
        for (val, bb), nv in zip(targets, vals):
            s2 = st.copy()
            if self.assume_eq(s2, self._reread(s2, v), nv):
                self.goto(s2.frames[-1], bb)
                out.append(s2)
        s2 = st.copy()
        if self.assume_ne_all(s2, self._reread(s2, v), vals):
            self.goto(s2.frames[-1], otherwise)
            out.append(s2)
        if len(out) == 1:
            # no real fork: continue on the single feasible state (copy back)
            only = out[0]
            self._adopt(st, only)
            return None
        if not out:
            st.outcome = ("infeasible",)
            return [st]
        for s in out:
            s.trace.append((f.inst, f.bb))
        return out

    def _reread(self, st, v):
        return v

    def _adopt(self, st, other):
        st.frames = other.frames
        st.cons = other.cons
        st.syminfo = other.syminfo
        st.preds = other.preds
        st.edom = other.edom
        st.heap = other.heap
        st.events = other.events
        st.ctr = other.ctr

    def on_materialize(self, st, old, new, variant):
        pass

    def do_assert(self, st, f, t):
        if self.skip_pointer_checks and t["assert"] in ("MisalignedPointerDereference", "NullPointerDereference"):
            self.goto(f, t["target"])
            return None
        c = self.operand(st, f, t["cond"])
        exp = 1 if t["expected"] else 0
        if isinstance(c, Conc):
            if c.v == exp:
                if self.assert_hook:
                    self.assert_hook(st, f, t, "discharged")
                self.goto(f, t["target"])
                return None
            st.outcome = ("panic", {"kind": "assert:" + t["assert"], "inst": f.inst, "bb": f.bb})
            if self.assert_hook:
                self.assert_hook(st, f, t, "fails")
            return [st]
        if isinstance(c, (Top, Uninit)):
            c = st.fresh_sym(iset.BOOL, tag="assert-cond")
        ok = st.copy()
        bad = st.copy()
        out = []
        if self.assume_eq(ok, c, exp):
            self.goto(ok.frames[-1], t["target"])
            out.append(ok)
        if self.assume_eq(bad, c, 1 - exp):
            bad.outcome = ("panic", {"kind": "assert:" + t["assert"], "inst": f.inst, "bb": f.bb})
            out.append(bad)
            if self.assert_hook:
                self.assert_hook(st, f, t, "may-fail")
        else:
            if self.assert_hook:
                self.assert_hook(st, f, t, "discharged")
        if len(out) == 1 and out[0].outcome is None:
            self._adopt(st, out[0])
            return None
        return out

    def do_drop(self, st, f, t):
        callee = t.get("callee")
        if callee is not None and self.drop_policy(self.p.inst[callee]):
            base, proj = self.resolve_place(st, f, t["p"])
            self.goto(f, t["target"])  # continue here after the glue returns
            # rewind: push_frame will run the glue; on return we must land at target
            glue = self.p.inst[callee]
            if glue.get("has_mir"):
                f.bb = t["target"]
                f.si = 0
                self.push_frame(st, callee, [Ref(base, proj)], None, t["target"])
                return None
        self.goto(f, t["target"])
        return None

    def do_call(self, st, f, t):
        args = [self.operand(st, f, a) for a in t["args"]]
        dest_base, dest_proj = self.resolve_place(st, f, t["dest"])
        dest = Ref(dest_base, dest_proj)
        target = t.get("target")
        callee = t.get("callee")
        if callee is None:
            # indirect call through a function pointer / FnItem value
            fv = self.operand(st, f, t["func"]) if "func" in t else None
            if isinstance(fv, FnItem) and fv.inst is not None:
                callee = fv.inst
            else:
                return self.unknown_call(st, f, t, args, dest, target, "indirect call")
        inst = self.p.inst[callee]
        # cut points
        for pred, name in self.cuts:
            if pred(inst):
                st.outcome = ("cut", name, args, dest, target, callee)
                return [st]
        # summaries
        for pred, fn in self.summaries:
            if pred(inst):
                r = fn(self, st, inst, args, {"dest": dest, "target": target, "term": t, "frame": f})
                if r is NotImplemented:
                    continue
                if isinstance(r, CallThen):
                    nf = self.push_frame(st, r.iid, r.args, dest, target)
                    nf.then = r.then
                    return None
                return self.finish_summary(st, f, r, dest, target)
        if "ctor" in inst:
            return self.finish_summary(st, f, Agg(inst["ctor"]["ty"], inst["ctor"]["variant"], args), dest, target)
        if inst.get("has_mir"):
            spread = inst["kind"] == "item" and inst.get("def_kind") == "Closure" and t.get("callee_path", "").startswith("std::ops::Fn")
            self.push_frame(st, callee, args, dest, target, spread)
            return None
        return self.unknown_call(st, f, t, args, dest, target, inst["name"])

    def finish_summary(self, st, f, r, dest, target):
        """r: a value (single successor), or a list of (state, value) pairs, or ('diverge', state)."""
        if isinstance(r, V):
            r = [(st, r)]
        out = []
        for s2, val in r:
            if s2.outcome is not None:
                out.append(s2)
                continue
            if target is None:
                s2.outcome = ("diverged",)
                out.append(s2)
                continue
            f2 = s2.frames[-1]
            self.write_path(s2, dest.base, dest.proj, val)
            self.goto(f2, target)
            out.append(s2)
        if len(out) == 1 and out[0] is st and st.outcome is None:
            return None
        return out

    def unknown_call(self, st, f, t, args, dest, target, name):
        self.unknown_calls.append(name)
        if self.on_unknown_call is not None:
            self.on_unknown_call(st, name, args)
        # havoc everything reachable through &mut arguments (one level)
        for a in args:
            if isinstance(a, Ref):
                try:
                    self.write_path(st, a.base, a.proj, Top(None, "havoc"))
                except (Undecided, IndexOnAbstract):
                    pass
        if target is None:
            st.outcome = ("panic", {"kind": "diverging-call:" + name, "inst": f.inst, "bb": f.bb})
            return [st]
        rty = self.place_ty(f, t["dest"])
        self.write_path(st, dest.base, dest.proj, Top(rty, "ret:" + name))
        self.goto(f, target)
        return None

    def resume_cut(self, st, value):
        """Continue a state suspended at a cut point with the given return value."""
        _, name, args, dest, target, callee = st.outcome
        st.outcome = None
        f = st.frames[-1]
        self.write_path(st, dest.base, dest.proj, value)
        self.goto(f, target)
        return st


def _bounds_sym(d):
    return None


def _collect_syms(v, acc=None):
    acc = set() if acc is None else acc
    if isinstance(v, Sym):
        acc.add(v.id)
    elif isinstance(v, Expr):
        for a in v.args:
            _collect_syms(a, acc)
    return acc


class IndexOnAbstract(Exception):
    def __init__(self, value, step):
        Exception.__init__(self, "index on abstract value")
        self.value = value
        self.step = step


# functions usable inside Expr (registered by summaries), evaluated only on extracted expressions
FUNCS = {}
