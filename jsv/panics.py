"""Panic reachability (E1): panic sources in crate / sibling-crate code reachable from a root."""
import re

from . import facts

PANIC_ENTRY = re.compile(
    r"^(core|std)::panicking::|^core::option::(unwrap_failed|expect_failed)$|^std::option::(unwrap_failed|expect_failed)$"
    r"|^(core|std)::result::unwrap_failed$|^core::slice::index::slice_|^core::str::slice_error_fail|^std::rt::begin_panic"
    r"|^core::cell::panic_already|^std::cell::panic_already|^core::panicking|^std::process::abort$|^std::intrinsics::abort$"
    r"|^alloc::raw_vec::capacity_overflow$|^alloc::alloc::handle_alloc_error$|^std::alloc::handle_alloc_error$|^alloc::raw_vec::handle_error$")

# std / dependency APIs whose *contract* includes a panic that the caller must rule out.
CONTRACT_PANIC = [
    (re.compile(r"^std::option::Option::<T>::(unwrap|expect)$"), "Option::unwrap/expect"),
    (re.compile(r"^std::result::Result::<T, E>::(unwrap|expect|unwrap_err|expect_err)$"), "Result::unwrap/expect"),
    (re.compile(r"^std::vec::Vec::<T, A>::(remove|insert|swap_remove|drain|split_off|truncate_front)$"), "Vec index API"),
    (re.compile(r"^smallvec::SmallVec::<A>::(remove|insert|swap_remove|drain)$"), "SmallVec index API"),
    (re.compile(r"::ops::Index(Mut)?<.*>>::index(_mut)?$|^std::ops::Index(Mut)?::index(_mut)?$"), "Index::index"),
    (re.compile(r"^core::slice::<impl \[T\]>::(copy_from_slice|clone_from_slice|split_at|split_at_mut|swap|rotate_left|rotate_right|chunks|chunks_exact|windows|select_nth_unstable)"), "slice API"),
    (re.compile(r"^std::char::from_digit$|^core::char::from_digit$|^std::char::methods::<impl char>::from_digit$"), "char::from_digit"),
    (re.compile(r"^core::str::<impl str>::(split_at|split_at_mut)$|^std::string::String::(insert|insert_str|remove|drain|replace_range|split_off)$"), "str/String index API"),
    (re.compile(r"^std::cell::RefCell::<T>::(borrow|borrow_mut)$"), "RefCell borrow"),
    (re.compile(r"^std::iter::Iterator::step_by$"), "step_by(0)"),
    (re.compile(r"^core::unreachable|^std::hint::unreachable_unchecked$"), "unreachable"),
    (re.compile(r"^std::collections::VecDeque::<T, A>::(remove|insert|swap|range|drain)"), "VecDeque index API"),
]


def is_own(inst):
    return inst["crate"] in facts.SIBLING_CRATES


def sources(P, iid):
    """Panic sources located in this instance: list of dicts(kind, detail, bb)."""
    inst = P.inst[iid]
    out = []
    if not inst.get("has_mir"):
        return out
    for bi, b in enumerate(inst["blocks"]):
        if b.get("cleanup"):
            continue
        t = b["t"]
        if t["k"] == "assert":
            if t["assert"] in ("MisalignedPointerDereference", "NullPointerDereference"):
                continue
            out.append({"kind": "assert", "detail": t["assert"], "bb": bi})
        elif t["k"] == "call":
            c = t.get("callee")
            cp = t.get("callee_path", "")
            if PANIC_ENTRY.search(cp):
                if re.search(r"capacity_overflow|handle_alloc_error|handle_error", cp):
                    continue
                out.append({"kind": "panic-call", "detail": cp, "bb": bi})
                continue
            for rx, label in CONTRACT_PANIC:
                if rx.search(cp) or (c is not None and rx.search(P.inst[c]["name"])):
                    out.append({"kind": "contract", "detail": label + " (" + cp + ")", "bb": bi})
                    break
    return out


def key_of(P, iid, src):
    inst = P.inst[iid]
    return "%s/%s/%s" % (inst["path"], src["kind"], src["detail"])


def reachable_sources(P, root_ids):
    """{key: {inst, src, path}} for panic sources in own code reachable from the roots."""
    out = {}
    reach = P.reachable(root_ids)
    for iid in sorted(reach):
        inst = P.inst[iid]
        if not is_own(inst):
            continue
        for src in sources(P, iid):
            k = key_of(P, iid, src)
            if k not in out:
                out[k] = {"inst": iid, "src": src}
    return out
