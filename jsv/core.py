"""Check framework: results, known findings, evidence, VIOLATION lines."""
import json
import os
import sys
import time

VERIF = os.path.dirname(os.path.dirname(os.path.abspath(__file__)))


class Violation:
    def __init__(self, rule, key, msg, site="", witness=None, details=None):
        self.rule = rule  # e.g. "C05.ts"
        self.key = key  # stable key without line numbers
        self.msg = msg
        self.site = site  # file:line (human-readable only)
        self.witness = witness
        self.details = details

    def to_json(self):
        d = {"rule": self.rule, "key": self.key, "msg": self.msg, "site": self.site}
        if self.witness is not None:
            d["witness"] = self.witness
        if self.details is not None:
            d["details"] = self.details
        return d


class Result:
    """What one property check produced."""

    def __init__(self, pid):
        self.pid = pid
        self.violations = []
        self.obligations = 0  # rule instances that had to be discharged
        self.discharged = 0
        self.samples = []  # actual rule instances (strings / small dicts)
        self.analysed = {}  # free-form counters: functions, instances, sites, ...
        self.assumptions = []
        self.trusted = []
        self.notes = []
        self.infos = []  # INFO lines (never violations)
        self.model = None  # for model_checking level: dict(states, transitions)
        self.programs = None  # for translation_validation
        self.rules_run = []

    def ob(self, ok, rule, key, msg, site="", witness=None, details=None, sample=None):
        """Record one obligation; returns ok."""
        self.obligations += 1
        if ok:
            self.discharged += 1
            if sample is not None and len(self.samples) < 40:
                self.samples.append(sample)
        else:
            self.violations.append(Violation(rule, key, msg, site, witness, details))
        return ok

    def violation(self, rule, key, msg, site="", witness=None, details=None):
        self.obligations += 1
        self.violations.append(Violation(rule, key, msg, site, witness, details))

    def count(self, name, n=1):
        self.analysed[name] = self.analysed.get(name, 0) + n

    def floor(self, rule, name, minimum):
        """Fail closed when fewer instances were analysed than were confirmed by hand."""
        got = self.analysed.get(name, 0)
        self.ob(got >= minimum, rule, "%s/floor/%s" % (rule, name),
                "rule matched %d %s, fewer than the %d confirmed by hand: an anchor was lost (undecided, failing closed)" % (got, name, minimum))


def load_known():
    p = os.path.join(VERIF, "known_findings.json")
    if not os.path.exists(p):
        return {"findings": [], "fixed": []}
    return json.load(open(p))


def finish(res, tier, level, t0, level_extra=None, seed=0):
    """Apply known findings, write evidence + replay files, print lines, return exit code."""
    known = load_known()
    known_keys = {}
    for f in known.get("findings", []):
        if f["property"] == res.pid:
            known_keys[f["key"]] = f
    new = []
    kf_lines = []
    for v in res.violations:
        if v.key in known_keys:
            kf_lines.append("KNOWN-FINDING: property=%s %s — %s" % (res.pid, v.key, known_keys[v.key].get("what", v.msg)))
        else:
            new.append(v)
    for l in sorted(set(kf_lines)):
        print(l)
    for l in res.infos:
        print("INFO: " + l)
    wall = round(time.time() - t0, 3)
    cov = {
        "explanation": "static analysis of the monomorphic MIR / item facts extracted from /repo's current tree by jsv-driver; "
                       "rules: " + ", ".join(res.rules_run),
        "obligations": res.obligations,
        "discharged": res.discharged + len(kf_lines),
        "known_findings_reported": len(kf_lines),
        "analysed": res.analysed,
        "samples": res.samples[:40] if res.samples else ["(no sample recorded)"],
        "trusted_base": res.trusted,
        "checker_cmd": "./check %s --tier %s" % (res.pid, tier),
        "rules": res.rules_run,
        "notes": res.notes,
    }
    # exploration-style counters (fallback keys of the evidence schema), all measured
    cov["evaluations"] = max(res.obligations, 1)
    cov["distinct_nontrivial"] = max(len(set(json.dumps(s, sort_keys=True) for s in res.samples)), 0)
    cov["rule"] = "one evaluation per rule instance (obligation); distinct_nontrivial counts the distinct recorded sample instances"
    if res.model is not None:
        cov.update(res.model)
    if res.programs is not None:
        cov.update(res.programs)
    if level_extra:
        cov.update(level_extra)
    ev = {
        "property_id": res.pid,
        "tier": tier,
        "seed": seed,
        "level": level,
        "coverage": cov,
        "assumptions": res.assumptions,
        "wall_s": wall,
        "violations": len(new),
    }
    outdir = os.environ.get("JSV_OUT_DIR", VERIF)
    os.makedirs(os.path.join(outdir, "evidence"), exist_ok=True)
    evp = os.path.join(outdir, "evidence", res.pid + ".json")
    tmp = evp + ".tmp"
    with open(tmp, "w") as f:
        json.dump(ev, f, indent=1)
    os.replace(tmp, evp)
    if new:
        os.makedirs(os.path.join(outdir, "replays"), exist_ok=True)
        rp = os.path.join(outdir, "replays", "%s.json" % res.pid)
        with open(rp, "w") as f:
            json.dump({"property": res.pid, "tier": tier, "violations": [v.to_json() for v in new]}, f, indent=1)
        for v in new[:60]:
            print("  [%s] %s %s — %s" % (v.rule, v.site, v.key, v.msg))
            if v.witness is not None:
                print("      witness: %s" % (json.dumps(v.witness) if not isinstance(v.witness, str) else v.witness))
        print("VIOLATION property=%s replay=%s" % (res.pid, rp))
        return 1
    print("OK property=%s tier=%s obligations=%d discharged=%d known=%d wall=%.1fs" % (
        res.pid, tier, res.obligations, res.discharged, len(kf_lines), wall))
    return 0
