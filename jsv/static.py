"""E1 helpers: syntactic walks over the dumped MIR (places, field accesses, calls, dominators)."""
import re


def iter_places(inst):
    """Yield (bb, stmt index or 't', access, place) for every place mentioned in an instance.
    access: 'read' | 'write' | 'ref' | 'refmut' | 'move' | 'drop' | 'discr'."""
    if not inst.get("has_mir"):
        return
    for bi, b in enumerate(inst["blocks"]):
        for si, s in enumerate(b["s"]):
            k = s["k"]
            if k == "assign":
                yield bi, si, "write", s["p"]
                yield from _rv_places(bi, si, s["r"])
            elif k == "setdiscr":
                yield bi, si, "write", s["p"]
        t = b["t"]
        k = t["k"]
        if k == "switch":
            yield from _op_places(bi, "t", t["discr"])
        elif k in ("call", "tailcall"):
            for a in t["args"]:
                yield from _op_places(bi, "t", a)
            if "dest" in t:
                yield bi, "t", "write", t["dest"]
            if "func" in t:
                yield from _op_places(bi, "t", t["func"])
        elif k == "drop":
            yield bi, "t", "drop", t["p"]
        elif k == "assert":
            yield from _op_places(bi, "t", t["cond"])


def _op_places(bi, si, o):
    if "copy" in o:
        yield bi, si, "read", o["copy"]
    elif "move" in o:
        yield bi, si, "move", o["move"]


def _rv_places(bi, si, r):
    k = r["k"]
    if k in ("use", "cast", "un", "repeat"):
        yield from _op_places(bi, si, r["a"])
    elif k == "bin":
        yield from _op_places(bi, si, r["a"])
        yield from _op_places(bi, si, r["b"])
    elif k == "ref":
        yield bi, si, "refmut" if r.get("mut") else "ref", r["p"]
    elif k == "rawptr":
        yield bi, si, "refmut", r["p"]
    elif k == "discr":
        yield bi, si, "discr", r["p"]
    elif k == "agg":
        for o in r["ops"]:
            yield from _op_places(bi, si, o)


def place_path(P, inst, place):
    """List of (owner type dict, field name) for the field projections of a place."""
    tid = inst["locals"][place["l"]]
    variant = None
    out = []
    for e in place.get("p", ()):
        t = P.types[tid]
        if e == "*":
            tid = t.get("to")
            if tid is None:
                return out
            variant = None
        elif isinstance(e, dict) and "f" in e:
            out.append((t, e["n"]))
            if t["k"] == "tuple":
                tid = t["fields"][e["f"]]
            elif t["k"] == "adt":
                vi = variant if variant is not None else 0
                try:
                    tid = t["variants"][vi]["fields"][e["f"]]["ty"]
                except IndexError:
                    return out
            elif t["k"] == "closure":
                tid = t["upvars"][e["f"]]
            else:
                return out
            variant = None
        elif isinstance(e, dict) and "d" in e:
            variant = e["d"]
        elif isinstance(e, dict) and ("i" in e or "ci" in e or "sub_from" in e):
            tid = t.get("of")
            if tid is None:
                return out
        else:
            return out
    return out


def field_accesses(P, inst, adt_name):
    """(bb, access, field name, remaining-projection-is-empty?) for accesses to fields of the ADT."""
    out = []
    for bi, si, acc, pl in iter_places(inst):
        path = place_path(P, inst, pl)
        for idx, (t, fname) in enumerate(path):
            if t.get("k") == "adt" and t.get("name") == adt_name:
                last = idx == len(path) - 1
                out.append((bi, acc, fname, last))
    return out


def calls(P, inst):
    """(bb, callee instance dict or None, term) for call terminators (cleanup blocks excluded)."""
    out = []
    if not inst.get("has_mir"):
        return out
    for bi, b in enumerate(inst["blocks"]):
        if b.get("cleanup"):
            continue
        t = b["t"]
        if t["k"] == "call":
            c = t.get("callee")
            out.append((bi, P.inst[c] if c is not None else None, t))
    return out


def successors(inst, bi, include_cleanup=False):
    t = inst["blocks"][bi]["t"]
    k = t["k"]
    if k == "goto":
        return [t["target"]]
    if k == "switch":
        return [bb for _, bb in t["targets"]] + [t["otherwise"]]
    if k in ("call", "drop", "assert"):
        return [t["target"]] if "target" in t else []
    return []


def dominators(inst):
    """Immediate-dominator-free simple dominator sets over the normal (non-unwind) CFG."""
    n = len(inst["blocks"])
    preds = [[] for _ in range(n)]
    for bi in range(n):
        for s in successors(inst, bi):
            preds[s].append(bi)
    dom = [set(range(n)) for _ in range(n)]
    dom[0] = {0}
    changed = True
    while changed:
        changed = False
        for bi in range(1, n):
            ps = [dom[p] for p in preds[bi]]
            new = (set.intersection(*ps) if ps else set()) | {bi}
            if new != dom[bi]:
                dom[bi] = new
                changed = True
    return dom


def reachable_blocks(inst, start, avoid=()):
    seen = set()
    work = [start]
    while work:
        b = work.pop()
        if b in seen or b in avoid:
            continue
        seen.add(b)
        work.extend(successors(inst, b))
    return seen


def return_blocks(inst):
    return [bi for bi, b in enumerate(inst["blocks"]) if b["t"]["k"] == "return"]


def defs_of(inst, local):
    """Assignments whose destination is exactly `local` (no projection): list of (bb, rvalue) plus
    call destinations (bb, 'call', term)."""
    out = []
    for bi, b in enumerate(inst["blocks"]):
        for s in b["s"]:
            if s["k"] == "assign" and s["p"]["l"] == local and not s["p"].get("p"):
                out.append((bi, s["r"]))
        t = b["t"]
        if t["k"] == "call" and t["dest"]["l"] == local and not t["dest"].get("p"):
            out.append((bi, {"k": "call", "term": t}))
    return out


def origin(inst, operand, depth=8):
    """Follow copies / moves / borrows of an operand back to a place rooted at a parameter or to a
    call result. Returns ('param', local, [field names...]) | ('call', callee_path, term) | ('const', c) | ('unknown',)."""
    if "const" in operand:
        return ("const", operand["const"])
    pl = operand.get("copy") or operand.get("move")
    return place_origin(inst, pl, depth)


def place_origin(inst, pl, depth=8):
    fields = [(e["n"] if "f" in e else "@" + e["n"]) for e in pl.get("p", ()) if isinstance(e, dict) and ("f" in e or "d" in e)]
    l = pl["l"]
    if 1 <= l <= inst["arg_count"]:
        return ("param", l, fields)
    if depth == 0:
        return ("unknown",)
    ds = defs_of(inst, l)
    if len(ds) != 1:
        return ("local", l, fields)
    bi, r = ds[0]
    if r["k"] == "call":
        return ("call", r["term"].get("callee_path"), r["term"], fields)
    if r["k"] == "use":
        o = origin(inst, r["a"], depth - 1)
    elif r["k"] in ("ref", "rawptr"):
        o = place_origin(inst, r["p"], depth - 1)
    elif r["k"] == "cast":
        o = origin(inst, r["a"], depth - 1)
    else:
        return ("unknown",)
    if o[0] in ("param", "local"):
        return (o[0], o[1], o[2] + fields)
    if o[0] == "call":
        return ("call", o[1], o[2], o[3] + fields)
    return o
