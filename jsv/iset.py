"""Interval sets over the integers: the exact finite abstraction used for chars, code units,
digits and small integers.  An ISet is a sorted tuple of disjoint inclusive (lo, hi) pairs."""

CHAR_MAX = 0x10FFFF


def mk(*pairs):
    return normalize(pairs)


def normalize(pairs):
    ps = sorted((lo, hi) for lo, hi in pairs if lo <= hi)
    out = []
    for lo, hi in ps:
        if out and lo <= out[-1][1] + 1:
            if hi > out[-1][1]:
                out[-1] = (out[-1][0], hi)
        else:
            out.append((lo, hi))
    return tuple(out)


EMPTY = ()
CHAR = ((0, 0xD7FF), (0xE000, CHAR_MAX))
BOOL = ((0, 1),)


def full(bits, signed):
    if signed:
        return ((-(1 << (bits - 1)), (1 << (bits - 1)) - 1),)
    return ((0, (1 << bits) - 1),)


def is_empty(s):
    return len(s) == 0


def size(s):
    return sum(hi - lo + 1 for lo, hi in s)


def single(s):
    if len(s) == 1 and s[0][0] == s[0][1]:
        return s[0][0]
    return None


def contains(s, v):
    for lo, hi in s:
        if lo <= v <= hi:
            return True
    return False


def inter(a, b):
    out = []
    i = j = 0
    while i < len(a) and j < len(b):
        lo = max(a[i][0], b[j][0])
        hi = min(a[i][1], b[j][1])
        if lo <= hi:
            out.append((lo, hi))
        if a[i][1] < b[j][1]:
            i += 1
        else:
            j += 1
    return tuple(out)


def sub(a, b):
    out = []
    for lo, hi in a:
        cur = lo
        for blo, bhi in b:
            if bhi < cur:
                continue
            if blo > hi:
                break
            if blo > cur:
                out.append((cur, blo - 1))
            cur = max(cur, bhi + 1)
            if cur > hi:
                break
        if cur <= hi:
            out.append((cur, hi))
    return tuple(out)


def union(a, b):
    return normalize(a + b)


def lo(s):
    return s[0][0]


def hi(s):
    return s[-1][1]


def cmp_split(s, op, c):
    """(subset where `x op c` holds, subset where it does not)."""
    if op == "Eq":
        t = inter(s, ((c, c),))
    elif op == "Ne":
        t = sub(s, ((c, c),))
    elif op == "Lt":
        t = inter(s, ((-(1 << 200), c - 1),))
    elif op == "Le":
        t = inter(s, ((-(1 << 200), c),))
    elif op == "Gt":
        t = inter(s, ((c + 1, 1 << 200),))
    elif op == "Ge":
        t = inter(s, ((c, 1 << 200),))
    else:
        raise ValueError(op)
    return t, sub(s, t)


def elems(s, limit=1 << 22):
    n = size(s)
    if n > limit:
        raise ValueError("set too large to enumerate: %d" % n)
    for lo_, hi_ in s:
        for v in range(lo_, hi_ + 1):
            yield v


def show(s, char=False):
    def f(v):
        if char and 0x21 <= v < 0x7F:
            return "'%s'" % chr(v)
        return ("U+%04X" % v) if char else str(v)

    return "{" + ",".join(f(a) if a == b else "%s..%s" % (f(a), f(b)) for a, b in s) + "}"
