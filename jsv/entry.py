"""C01.entry / C05.pos helpers: abstract interpretation of the public parsing entry points up to
the call of the shared core `Value::parse_in`, and of the character adaptors in front of it."""
import re

from . import iset, summ
from .absint import Agg, Conc, Expr, Interp, Obj, Ref, State, Str, Sym, Top, Undecided, V
from .pmodel import role_of
from .summ import Lib, LogVec

CORE = re.compile(r"^json_syntax::parse::value::<impl json_syntax::Parse for json_syntax::Value>::parse_in::<")

ENTRY_ROOTS = {
    # root name: (has options parameter, kind of input)
    "root_parse_slice": (False, "bytes"),
    "root_parse_slice_with": (True, "bytes"),
    "root_parse_str": (False, "str"),
    "root_parse_str_with": (True, "str"),
    "root_parse_infallible_utf8": (False, "iter"),
    "root_parse_utf8_infallible_with": (True, "iter"),
    "root_parse_utf8": (False, "iter"),
    "root_parse_utf8_with": (True, "iter"),
    "root_parse_infallible": (False, "iter"),
    "root_parse_infallible_with": (True, "iter"),
    "root_parse": (False, "iter"),
    "root_parse_with": (True, "iter"),
    "root_from_str": (False, "str"),
}


def mk_interp(P):
    it = Interp(P)
    Lib(role_of).install(it)
    install_source_summaries(it)
    return it


def run_entry(P, root, with_options):
    """Interpret an entry point until it calls the core. Returns (interp, list of suspended states)."""
    it = mk_interp(P)
    it.cuts.append((lambda inst: bool(CORE.search(inst["name"])), "CORE"))
    st = State()
    rinst = P.inst[P.roots[root]]
    args = []
    opt_syms = None
    for li in range(1, rinst["arg_count"] + 1):
        tid = rinst["locals"][li]
        t = P.types[tid]
        if t.get("name") == "json_syntax::parse::Options":
            a = st.fresh_sym(iset.BOOL, tag="opt.truncated")
            b = st.fresh_sym(iset.BOOL, tag="opt.invalid")
            opt_syms = (a, b)
            args.append(Agg(tid, 0, (a, b)))
        else:
            args.append(Top(tid, "input"))
    it.push_frame(st, rinst["id"], args, None, None)
    outs = it.run(st)
    return it, outs, opt_syms


NEXT_RX = re.compile(r"^<(.*) as std::iter::Iterator>::next$")


def find_next_instance(P, root):
    """The `<C as Iterator>::next` instance that the parser's lookahead primitives call in the
    monomorphic program of this root."""
    rid = P.roots[root]
    found = set()
    for iid in P.reachable([rid]):
        inst = P.inst[iid]
        if inst["path"] not in ("json_syntax::parse::Parser::<C, E>::peek_char", "json_syntax::parse::Parser::<C, E>::next_char"):
            continue
        for site in P.sites(iid):
            c = site["callee"]
            if c is not None and NEXT_RX.search(P.inst[c]["name"]):
                found.add(c)
    return found


def check_adaptor(P, next_iid):
    """Interpret the adaptor's `next` with the innermost source as a cut point; returns a list of
    (source item shape, adaptor result description) or raises Undecided."""
    inst = P.inst[next_iid]
    m = NEXT_RX.search(inst["name"])
    self_ty = m.group(1)
    it = mk_interp(P)
    is_adaptor = lambda s: s.startswith("std::iter::Map<")

    def cut_pred(i):
        mm = NEXT_RX.search(i["name"])
        return bool(mm) and not is_adaptor(mm.group(1))

    it.cuts.append((cut_pred, "SOURCE"))
    results = []
    if not is_adaptor(self_ty):
        return self_ty, [("identity", "the parser pulls directly from the caller's iterator")]
    st = State()
    self_tid = P.types[inst["locals"][1]]["to"]
    cell = st.new_obj(Top(self_tid, "adaptor"))
    it.push_frame(st, next_iid, [Ref(("H", cell.id), ())], None, None)
    outs = it.run(st)
    src = None
    for o in outs:
        if o.outcome[0] != "cut":
            raise Undecided("adaptor next() finished without pulling from its source: %r" % (o.outcome[:1],))
        callee = P.inst[o.outcome[5]]
        src = NEXT_RX.search(callee["name"]).group(1)
        f = o.frames[-1]
        term = P.inst[f.inst]["blocks"][f.bb]["t"]
        item_opt = it.place_ty(f, term["dest"])
        topt = P.types[item_opt]
        inner = topt["variants"][1]["fields"][0]["ty"]
        tin = P.types[inner]
        shapes = [("None", Agg(item_opt, 0, ()))]
        if tin.get("name") == "std::result::Result":
            okty = tin["variants"][0]["fields"][0]["ty"]
            errty = tin["variants"][1]["fields"][0]["ty"]
            c = mk_item(it, o, okty)
            shapes.append(("Some(Ok(x))", Agg(item_opt, 1, (Agg(inner, 0, (c,)),)), c))
            e = Top(errty, "the-error")
            shapes.append(("Some(Err(e))", Agg(item_opt, 1, (Agg(inner, 1, (e,)),)), e))
        else:
            c = mk_item(it, o, inner)
            shapes.append(("Some(x)", Agg(item_opt, 1, (c,)), c))
        for sh in shapes:
            s2 = o.copy()
            s2.outcome = o.outcome
            it.resume_cut(s2, sh[1])
            fin = it.run(s2)
            for fo in fin:
                results.append((sh[0], sh[2] if len(sh) > 2 else None, fo))
    return src, results


def mk_item(it, st, tid):
    t = it.p.types[tid]
    if t["k"] == "char":
        return st.fresh_sym(iset.CHAR, tag="x")
    if t.get("name") == "decoded_char::DecodedChar":
        return Agg(tid, 0, (st.fresh_sym(iset.CHAR, tag="x"), st.fresh_sym(iset.full(64, False), tag="xlen")))
    return Top(tid, "x")


def describe_adaptor_result(it, shape, item, fo, check_char=True, check_len=True):
    """None if the adaptor result is the expected per-item transformation, else a reason."""
    if fo.outcome[0] != "return":
        return "adaptor outcome %r" % (fo.outcome[0],)
    rv = fo.outcome[1]
    if shape == "None":
        return None if isinstance(rv, Agg) and rv.variant == 0 else "source None does not map to None: %r" % (rv,)
    if not (isinstance(rv, Agg) and rv.variant == 1):
        return "an item is dropped or replaced: %r" % (rv,)
    res = rv.fields[0]
    if shape == "Some(Err(e))":
        ok = isinstance(res, Agg) and res.variant == 1 and res.fields[0] == item
        return None if ok else "Err(e) is not passed through unchanged: %r" % (res,)
    if not (isinstance(res, Agg) and res.variant == 0):
        return "an Ok item does not stay Ok: %r" % (res,)
    dc = res.fields[0]
    if not (isinstance(dc, Agg) and len(dc.fields) == 2):
        return "the item is not a DecodedChar: %r" % (dc,)
    if isinstance(item, Sym):
        if check_char and dc.fields[0] != item:
            return "the character is altered: %r" % (dc.fields[0],)
        want = Expr("len_utf8", (item,), (64, False))
        if check_len and dc.fields[1] != want:
            return "the recorded length is not the character's UTF-8 length: %r" % (dc.fields[1],)
        return None
    if isinstance(item, Agg):  # already a DecodedChar: identity
        if check_char and dc.fields[0] != item.fields[0]:
            return "the decoded character is altered: %r" % (dc,)
        if check_len and dc.fields[1] != item.fields[1]:
            return "the length of the decoded character is altered: %r" % (dc,)
        return None
    return "unrecognised item %r" % (item,)


# ---- after the core: what the entry point does with the core's result ------------------------------------------------
def core_result_shapes(it, o):
    """Shapes of the value the core can return at the suspended call: Ok(Meta(v, i)) and one Err per
    Error variant with symbolic payloads.  Returns [(name, value, payload description)]."""
    P = it.p
    f = o.frames[-1]
    term = P.inst[f.inst]["blocks"][f.bb]["t"]
    rty = it.place_ty(f, term["dest"])
    t = P.types[rty]
    if t.get("name") != "std::result::Result":
        raise Undecided("core result type is %s" % t["s"])
    okty = t["variants"][0]["fields"][0]["ty"]
    errty = t["variants"][1]["fields"][0]["ty"]
    shapes = []
    tm = P.types[okty]
    mfields = tuple(Top(fl["ty"], "core." + fl["name"]) for fl in tm["variants"][0]["fields"])
    shapes.append(("Ok", Agg(rty, 0, (Agg(okty, 0, mfields),)), mfields))
    te = P.types[errty]
    for vi, var in enumerate(te["variants"]):
        skip = False
        payload = []
        for fl in var["fields"]:
            ft = P.types[fl["ty"]]
            if ft["k"] == "adt" and ft["adt_kind"] == "enum" and not ft["variants"]:
                skip = True  # uninhabited payload (Infallible): the variant cannot be constructed
            payload.append(Top(fl["ty"], "err.%s.%s" % (var["name"], fl["name"])))
        if skip:
            continue
        shapes.append(("Err(%s)" % var["name"], Agg(rty, 1, (Agg(errty, vi, tuple(payload)),)), tuple(payload)))
    return shapes


def run_tail(it, o, shape_value):
    s2 = o.copy()
    s2.outcome = o.outcome
    it.resume_cut(s2, shape_value)
    return it.run(s2)


def describe_tail(it, root, kind, name, payload, outs, parser_ref, o, verdict_only=False):
    """None when the entry point turns the core's result `name` into the documented result, else the reason."""
    P = it.p
    rets = [x for x in outs if x.outcome and x.outcome[0] == "return"]
    if len(outs) != 1 or len(rets) != 1:
        return "after the core returns %s the entry point has %d outcomes (%s) instead of one return" % (name, len(outs), [x.outcome[0] for x in outs][:4])
    fo = rets[0]
    rv = fo.outcome[1]
    if not isinstance(rv, Agg):
        return "result is not a constructed Result: %r" % (rv,)
    if name == "Ok":
        if rv.variant != 0:
            return "the core's Ok becomes %r" % (rv,)
        got = rv.fields[0]
        want_v = payload[0]
        if root == "root_from_str":
            return None if got == want_v else "from_str does not return the parsed value itself: %r" % (got,)
        if not (isinstance(got, Agg) and len(got.fields) == 2 and got.fields[0] == want_v):
            return "the parsed value is not returned unchanged: %r" % (got,)
        try:
            parser = it.read_path(o, parser_ref.base, parser_ref.proj)
            t = P.types[parser.ty]
            names = [f["name"] for f in t["variants"][0]["fields"]]
            cm = dict(zip(names, parser.fields))["code_map"]
        except Exception as e:  # noqa
            return "cannot read the parser's code map: %s" % e
        if got.fields[1] != cm:
            return "the code map returned is not the parser's: %r vs %r" % (got.fields[1], cm)
        return None
    # errors
    if rv.variant != 1:
        return "the core's %s becomes Ok: %r" % (name, rv)
    if verdict_only:
        return None  # an error stays an error: the verdict is the core's
    e = rv.fields[0]
    if not isinstance(e, Agg):
        return "error value not constructed: %r" % (e,)
    te = P.types[e.ty]
    vname = te["variants"][e.variant]["name"]
    src = name[4:-1]
    if src == "Stream" and kind == "bytes":
        ok = vname == "InvalidUtf8" and len(e.fields) == 1 and e.fields[0] == payload[0]
        return None if ok else "a decoding error at offset p must become InvalidUtf8(p): got %s%r" % (vname, e.fields)
    ok = vname == src and tuple(e.fields) == tuple(payload)
    return None if ok else "the core's error %s%r is reported as %s%r" % (src, payload, vname, e.fields)


# ---- the character source: where the parser's items ultimately come from ----------------------------------------------
class Tag(tuple):
    """Structured tag of an opaque value produced by one of the source summaries below."""


def _res(v, it, st):
    """Follow references to the value they point to (tags are compared on values, not on borrows)."""
    for _ in range(4):
        if isinstance(v, Ref):
            try:
                v = it.read_path(st, v.base, v.proj)
            except Exception:  # noqa
                return v
        else:
            break
    return v


def install_source_summaries(it):
    """Opaque models of the std text APIs an entry point may use to turn its input into characters.  Every result is an
    unknown value whose tag records the API and the (resolved) arguments, so that the rule can check the data flow:
    bytes-of(x), chars-of(s), from_utf8(x) -> Ok(str-of(x)) | Err(utf8error-of(x)), valid_up_to(e), prefix(x, n)."""
    P = it.p
    S = it.summaries
    path = lambda rx: (lambda inst, _rx=re.compile(rx): bool(_rx.search(inst["path"])))

    def opaque(kind, nargs):
        def fn(it_, st, inst, args, call):
            return Top(summ.ret_ty(it_, call), Tag((kind,) + tuple(_res(a, it_, st) for a in args[:nargs])))
        return fn

    def slice_iter(it_, st, inst, args, call):
        v = _res(args[0], it_, st)
        if isinstance(v, Top):
            return Top(summ.ret_ty(it_, call), Tag(("bytes-of", v)))
        return NotImplemented

    S.insert(0, (path(r"^core::slice::<impl \[T\]>::iter$"), slice_iter))
    S.insert(0, (path(r"^core::str::<impl str>::chars$"), opaque("chars-of", 1)))
    S.insert(0, (path(r"^core::str::<impl str>::as_bytes$"), opaque("as-bytes", 1)))

    def from_utf8(it_, st, inst, args, call):
        rt = summ.ret_ty(it_, call)
        t = P.types[rt]
        okty = t["variants"][0]["fields"][0]["ty"]
        errty = t["variants"][1]["fields"][0]["ty"]
        x = _res(args[0], it_, st)
        if isinstance(x, Top) and isinstance(x.tag, Tag) and x.tag[0] == "prefix":
            # the longest well-formed prefix reported by Utf8Error::valid_up_to is well-formed (std contract)
            return Agg(rt, 0, (Top(okty, Tag(("str-of", x))),))
        return [(st.copy(), Agg(rt, 0, (Top(okty, Tag(("str-of", x))),))), (st.copy(), Agg(rt, 1, (Top(errty, Tag(("utf8error-of", x))),)))]

    S.insert(0, (path(r"^core::str::converts::from_utf8$|^std::str::from_utf8$|^core::str::<impl str>::from_utf8$"), from_utf8))
    S.insert(0, (path(r"^core::str::converts::from_utf8_unchecked$|^std::str::from_utf8_unchecked$|^core::str::<impl str>::from_utf8_unchecked$"), opaque("str-of", 1)))
    S.insert(0, (path(r"^core::str::Utf8Error::valid_up_to$|^std::str::Utf8Error::valid_up_to$|^core::str::error::Utf8Error::valid_up_to$"), opaque("valid_up_to", 1)))

    def split_at(it_, st, inst, args, call):
        rt = summ.ret_ty(it_, call)
        x, n = _res(args[0], it_, st), _res(args[1], it_, st)
        return Agg(rt, 0, (Top(None, Tag(("prefix", x, n))), Top(None, Tag(("suffix", x, n)))))

    S.insert(0, (path(r"^core::slice::<impl \[T\]>::split_at$"), split_at))

    def index_range_to(it_, st, inst, args, call):
        x, r = _res(args[0], it_, st), _res(args[1], it_, st)
        if isinstance(r, Agg) and len(r.fields) == 1:
            n = _res(r.fields[0], it_, st)
            if isinstance(n, Top) and isinstance(n.tag, Tag) and n.tag[0] == "len-of" and n.tag[1] == x:
                return x  # `&x[..x.len()]` is x
            return Top(summ.ret_ty(it_, call), Tag(("prefix", x, n)))
        return NotImplemented

    S.insert(0, (lambda inst: bool(re.search(r"^core::slice::index::<impl std::ops::Index<I> for \[T\]>::index$", inst["path"])) and "RangeTo<usize>" in inst["name"] and "RangeToInclusive" not in inst["name"],
                 index_range_to))
    S.insert(0, (path(r"^std::io::Error::new$|^std::io::error::Error::new$|^std::io::Error::other$"), opaque("io-error", 0)))

    # pure observers of an opaque source (size_hint of the characters, len of the input): an unknown number, the source untouched
    def observer(it_, st, inst, args, call):
        v = _res(args[0], it_, st) if args else None
        if isinstance(v, Top) and (isinstance(v.tag, Tag) or v.tag == "input"):
            return Top(summ.ret_ty(it_, call), "observed")
        return NotImplemented

    S.insert(0, (path(r"as std::iter::Iterator>::size_hint$|^std::iter::Iterator::size_hint$|^core::str::<impl str>::is_empty$|^core::slice::<impl \[T\]>::is_empty$"), observer))

    def len_of(it_, st, inst, args, call):
        v = _res(args[0], it_, st) if args else None
        if isinstance(v, Top) and (isinstance(v.tag, Tag) or v.tag == "input"):
            return Top(summ.ret_ty(it_, call), Tag(("len-of", v)))
        return NotImplemented

    S.insert(0, (path(r"^core::str::<impl str>::len$|^core::slice::<impl \[T\]>::len$"), len_of))

    # trimming: the result is a sub-slice of the argument (whitespace removed at the ends)
    S.insert(0, (path(r"^core::str::<impl str>::trim(_start|_end)?$"), opaque("trimmed", 1)))


def peel_adaptors(P, v):
    """Strip std::iter::Map layers: returns (innermost source value, [mapping function values], outermost first)."""
    fns = []
    while isinstance(v, Agg) and v.ty is not None and P.types[v.ty].get("name") == "std::iter::Map":
        names = [f["name"] for f in P.types[v.ty]["variants"][0]["fields"]]
        fld = dict(zip(names, v.fields))
        fns.append(fld.get("f"))
        v = fld.get("iter")
    return v, fns


def tyname(P, v):
    return P.types[v.ty].get("name") if isinstance(v, Agg) and v.ty is not None else None


def fields_of(P, v):
    t = P.types[v.ty]
    return dict(zip([f["name"] for f in t["variants"][v.variant]["fields"]], v.fields))


def option_items(P, v):
    """Items yielded by an `Option<T>::into_iter()` / `iter::once` value; None when the shape is not recognised."""
    n = tyname(P, v)
    if n == "std::iter::Once":
        return option_items(P, v.fields[0])
    if n == "std::option::IntoIter":
        return option_items(P, v.fields[0])
    if n == "std::option::Item":
        return option_items(P, v.fields[0])
    if n == "std::option::Option":
        return [] if v.variant == 0 else [v.fields[0]]
    return None


def is_tag(v, kind):
    return isinstance(v, Top) and isinstance(v.tag, Tag) and v.tag[0] == kind


def describe_source(P, src, fns, kind, input_val):
    """Classify the innermost character source of an entry point.  Returns (form, problem|None, info).
    forms: 'str-chars' (all characters of the input string), 'caller-iterator', 'utf8-decode' (bytes of the input through
    utf8_decode::Decoder), 'std-valid' / 'std-invalid' (the two paths of a core::str::from_utf8 based decoder)."""
    def is_ok_ctor(f):
        from .absint import FnItem
        return isinstance(f, FnItem) and re.search(r"^std::result::Result::<char, .*>::Ok$", str(f.name if hasattr(f, "name") else f)) is not None

    if kind == "iter":
        if isinstance(src, Top) and src.tag == "input":
            return "caller-iterator", None, {}
        return "caller-iterator", "the parser does not pull from the caller's iterator itself: %r" % (src,), {}
    if kind == "str":
        if is_tag(src, "chars-of") and src.tag[1] == input_val:
            return "str-chars", None, {}
        if is_tag(src, "chars-of") and is_tag(src.tag[1], "trimmed") and src.tag[1].tag[1] == input_val:
            return "str-trimmed", "the parser reads the input with the whitespace at its ends trimmed off (str::trim*: Unicode White_Space, more than JSON's four characters), not the whole input", {}
        return "str-chars", "the parser does not read str::chars() of the whole input: %r" % (src,), {}
    # bytes
    if is_tag(src, "chars-of") and is_tag(src.tag[1], "str-of") and src.tag[1].tag[1] == input_val:
        # a path on which validation of the whole input succeeded and its characters are read directly
        return "std-valid", None, {}
    n = tyname(P, src)
    if n == "utf8_decode::safe::Decoder":
        b = src.fields[0]
        if tyname(P, b) == "std::iter::Copied" and is_tag(b.fields[0], "bytes-of") and b.fields[0].tag[1] == input_val:
            return "utf8-decode", None, {}
        return "utf8-decode", "the decoder is not fed content.iter().copied() of the whole input: %r" % (b,), {}
    if n == "std::iter::Chain":
        f = fields_of(P, src)
        a, b = f.get("a"), f.get("b")
        if not (tyname(P, a) == "std::option::Option" and a.variant == 1):
            return "std", "unrecognised first half of the chain: %r" % (a,), {}
        inner, ifns = peel_adaptors(P, a.fields[0])
        if len(ifns) != 1 or not is_ok_ctor(ifns[0]):
            return "std", "the characters of the valid prefix must be mapped with Ok and nothing else (%r)" % (ifns,), {}
        if not is_tag(inner, "chars-of"):
            return "std", "the first half of the chain is not str::chars(): %r" % (inner,), {}
        s = inner.tag[1]
        tail = option_items(P, b.fields[0]) if tyname(P, b) == "std::option::Option" and b.variant == 1 else ([] if tyname(P, b) == "std::option::Option" else None)
        if tail is None:
            return "std", "unrecognised second half of the chain: %r" % (b,), {}
        if not is_tag(s, "str-of"):
            return "std", "the string whose characters are read is not the result of a UTF-8 validation: %r" % (s,), {}
        origin = s.tag[1]
        if origin == input_val:
            # from_utf8(content) succeeded: all characters, no error item
            if tail:
                return "std-valid", "well-formed input is followed by an extra item %r" % (tail,), {}
            return "std-valid", None, {}
        if is_tag(origin, "prefix"):
            whole, n_ = origin.tag[1], origin.tag[2]
            ok = whole == input_val and is_tag(n_, "valid_up_to") and is_tag(n_.tag[1], "utf8error-of") and n_.tag[1].tag[1] == input_val
            if not ok:
                return "std-invalid", "the decoded prefix is not content[..e.valid_up_to()] of the validation error of the whole input: %r" % (origin,), {}
            if len(tail) != 1 or not (isinstance(tail[0], Agg) and tyname(P, tail[0]) == "std::result::Result" and tail[0].variant == 1):
                return "std-invalid", "ill-formed input must yield exactly one error item after the well-formed prefix, found %r" % (tail,), {}
            return "std-invalid", None, {}
        return "std", "the validated bytes are not the input: %r" % (origin,), {}
    return "unknown", "unrecognised byte decoder %r" % (src,), {}
