"""Shared runner of the P x R product (used by C01, C02, C03, C05, C07, C12); results are cached
next to the facts they were computed from."""
import json
import os
import time

from . import extract
from .pmodel import PModel
from .product import Product

VALUATIONS = [(0, 0), (1, 0), (0, 1), (1, 1)]


def depth_for(tier):
    return 2 if tier == "quick" else 4


def _code_hash():
    import hashlib
    h = hashlib.sha256()
    base = os.path.dirname(os.path.abspath(__file__))
    for dirpath, dirnames, filenames in os.walk(base):
        dirnames[:] = sorted(x for x in dirnames if x != "__pycache__")
        for fn in sorted(filenames):
            if fn.endswith(".py"):
                with open(os.path.join(dirpath, fn), "rb") as f:
                    h.update(fn.encode() + b"\0" + f.read())
    return h.hexdigest()[:12]


def run_product(ctx):
    K = depth_for(ctx.tier)
    d = os.path.join(extract.CACHE, ctx.info["key"])
    cp = os.path.join(d, "product_K%d_%s.json" % (K, _code_hash()))
    if os.path.exists(cp):
        return json.load(open(cp))
    out = {"K": K, "runs": []}
    # a recursive function in the parsing code makes the abstract call stack unbounded: the model cannot be extracted
    P = ctx.P
    rec_names = []
    if "root_parse_model" in P.roots:
        reach = P.reachable([P.roots["root_parse_model"]])
        for comp in P.sccs(reach):
            fns = [P.inst[x] for x in comp if P.inst[x].get("has_mir") and "drop_in_place" not in P.inst[x]["name"] and P.inst[x]["crate"] in ("json_syntax", "json_number", "locspan", "decoded_char", "utf8_decode")]
            if fns:
                rec_names.append(sorted(f["path"] for f in fns)[0])
    if rec_names:
        for (t, i) in VALUATIONS:
            out["runs"].append({
                "options": {"accept_truncated_surrogate_pair": bool(t), "accept_invalid_codepoints": bool(i)},
                "states": 1, "transitions": 1, "accepting": 0, "rejecting": 0, "cut_at_depth": 0, "wall_s": 0.0,
                "findings": [{"rule": "E2.undecided", "key": "recursion/" + n, "msg": "the parser model cannot be extracted: %s is part of a recursion cycle, so the abstract call stack is unbounded (undecided, failing closed)" % n,
                              "site": "", "witness": None} for n in sorted(set(rec_names))],
                "infos": [], "samples": [], "stats": {}, "asserts": {}, "assumptions": [], "unknown_calls": [], "anchors": [], "initial_position_ok": False, "coverage": [],
            })
        return out
    for (t, i) in VALUATIONS:
        pm = PModel(ctx.P)
        t0 = time.time()
        pr = Product(pm, bool(t), bool(i), K=K).run()
        asserts = {}
        for (fn, kind, bb), outcomes in pm.assert_log.items():
            asserts.setdefault("%s | %s" % (fn, kind), set()).update(outcomes)
        out["runs"].append({
            "options": {"accept_truncated_surrogate_pair": bool(t), "accept_invalid_codepoints": bool(i)},
            "states": pr.states,
            "transitions": pr.transitions,
            "accepting": pr.accepting,
            "rejecting": pr.errors,
            "cut_at_depth": pr.cut_depth,
            "wall_s": round(time.time() - t0, 2),
            "findings": [{"rule": f.rule, "key": f.key, "msg": f.msg, "site": f.site, "witness": f.witness} for f in pr.findings],
            "infos": pr.infos[:4] + (["... %d more" % (len(pr.infos) - 4)] if len(pr.infos) > 4 else []),
            "samples": pr.samples,
            "stats": {k: (len(v) if isinstance(v, set) else v) for k, v in pr.stats.items()},
            "asserts": {k: sorted(v) for k, v in asserts.items()},
            "assumptions": sorted(pm.assumptions),
            "unknown_calls": sorted(set(pm.it.unknown_calls)),
            "anchors": sorted(pm.anchors_seen),
            "initial_position_ok": getattr(pm, "initial_position_ok", False),
            "coverage": sorted(set("%s|%d" % (ctx.P.inst[i]["path"], bb) for i, bb in pm.it.cov)),
        })
    try:  # the cache is an optimisation: a concurrent clean-up of the cache directory must not fail the check
        os.makedirs(d, exist_ok=True)
        tmp = cp + ".tmp%d" % os.getpid()
        with open(tmp, "w") as f:
            json.dump(out, f)
        os.replace(tmp, cp)
    except OSError:
        pass
    return out


def apply(ctx, res, rule_prefixes, strict_only=True, lenient_only=False, pid=None, relative=False, key_filter=None, rename=None, finding_filter=None):
    """Copy the product findings whose rule starts with one of the prefixes into the result.
    relative=True (C12): a lenient valuation is judged against the strict one — a deviation from the reference that the
    strict parser shows in exactly the same way is not a defect of the *extension* (it belongs to C01/C02/C05/C07);
    reported are the deviations that exist under the lenient valuation and not, under the same key, under the strict one.
    (Deviations of the strict parser alone are reported by the strict checks; attributing them to C12 as well produced
    false alarms, because error-kind deviations around surrogates legitimately differ between the modes.)"""
    prod = run_product(ctx)
    K = prod["K"]
    states = trans = 0
    strict_keys = set()
    if relative:
        for run in prod["runs"]:
            o = run["options"]
            if not (o["accept_truncated_surrogate_pair"] or o["accept_invalid_codepoints"]):
                strict_keys = set((f["rule"], f["key"]) for f in run["findings"] if any(f["rule"].startswith(p) for p in rule_prefixes))
    for run in prod["runs"]:
        o = run["options"]
        strict = not (o["accept_truncated_surrogate_pair"] or o["accept_invalid_codepoints"])
        if strict_only and not strict:
            continue
        if lenient_only and strict:
            continue
        states += run["states"]
        trans += run["transitions"]
        tag = "strict" if strict else "options(truncated=%d,invalid=%d)" % (o["accept_truncated_surrogate_pair"], o["accept_invalid_codepoints"])
        n = 0
        for f in run["findings"]:
            if any(f["rule"].startswith(p) for p in rule_prefixes):
                if key_filter is not None and not f["rule"].startswith("E2.") and not key_filter(f["key"], f.get("witness")):
                    continue
                if finding_filter is not None and not f["rule"].startswith("E2."):
                    why = finding_filter(f, strict)
                    if why:
                        res.infos.append("[%s] not this property's business (%s): %s/%s" % (tag, why, f["rule"], f["key"]))
                        continue
                if relative and (f["rule"], f["key"]) in strict_keys:
                    res.infos.append("[%s] deviation shared with the strict parser, not attributed to C12: %s/%s" % (tag, f["rule"], f["key"]))
                    continue
                n += 1
                key = "%s/%s" % (f["rule"], f["key"]) if strict else "%s/%s/%s" % (f["rule"], tag, f["key"])
                rname = f["rule"] if strict or not lenient_only else "C12." + f["rule"]
                if rename and not f["rule"].startswith("E2."):
                    rname = rename
                res.violation(rname, key, "[%s] %s" % (tag, f["msg"]), f["site"], f["witness"])
        # one obligation per explored transition of the product
        res.obligations += run["transitions"]
        res.discharged += run["transitions"]
        for s in run["samples"][:6]:
            res.samples.append({"valuation": tag, **s})
        for i in run["infos"]:
            res.infos.append("[%s] %s" % (tag, i))
        for a in run["assumptions"]:
            if a not in res.assumptions:
                res.assumptions.append(a)
        if run["unknown_calls"]:
            res.violation("E2.unknown", "E2/unknown-callee/%s" % run["unknown_calls"][0][:80],
                          "the parser model called a function without MIR and without summary (undecided): %s" % run["unknown_calls"][:4])
        res.count("product_states_" + tag.split("(")[0], run["states"])
    res.model = {"states": states, "transitions": trans, "traces_validated_against_impl": 0,
                 "nesting_depth_explored_exactly": K,
                 "model_note": "P is extracted from the MIR of the current tree (nothing is replayed against a running implementation, hence 0 validated traces); R is the hand-written RFC 8259 transducer; joint states merged by canonical key"}
    res.trusted += ["summary table jsv/summ.py (std/smallvec/smallstr entry points)", "reference transducer jsv/refmodels/rfc8259.py",
                    "rustc nightly MIR construction", "private anchors: IndexMap::new/insert abstracted as index bookkeeping; NumberBuf::new_unchecked stores its buffer"]
    return prod
