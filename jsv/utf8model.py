"""C01.utf8 — byte-level model of the character source behind parse_slice / parse_slice_with.

The decoder's `next` is interpreted abstractly with the byte source as a cut point.  Every pull is
answered with "end of input" or with a symbolic byte restricted to one class of the partition of
0..=255 induced by the Unicode well-formedness table (Table 3-7), so that the reference verdict is
uniform on every class tuple.  The result of each path (None / Ok(char expression) / Err) together
with its path predicates is then evaluated over *all* byte tuples of the class product — only the
extracted expressions are evaluated, never the decoder — and compared with the reference:

  accepted  <=>  the bytes read are exactly one well-formed UTF-8 sequence, decoded to its scalar value
  rejected  <=>  no well-formed sequence starts with the bytes read (or input ends inside one)
"""
import itertools
import re

from . import exprs, iset
from .absint import Agg, Conc, Expr, Interp, Ref, State, Sym, Top, Undecided
from .pmodel import role_of
from .summ import Lib, ret_ty

LEAD = [(0x00, 0x7F), (0x80, 0xBF), (0xC0, 0xC1), (0xC2, 0xDF), (0xE0, 0xE0), (0xE1, 0xEC), (0xED, 0xED), (0xEE, 0xEF),
        (0xF0, 0xF0), (0xF1, 0xF3), (0xF4, 0xF4), (0xF5, 0xF7), (0xF8, 0xFF)]
CONT = [(0x00, 0x7F), (0x80, 0x8F), (0x90, 0x9F), (0xA0, 0xBF), (0xC0, 0xFF)]


def ref_decode(bs):
    """('ok', scalar) if bs is exactly one well-formed sequence, ('more',) if a proper prefix of one, else ('bad',)."""
    b0 = bs[0]
    if b0 <= 0x7F:
        return ("ok", b0) if len(bs) == 1 else ("bad",)
    if 0xC2 <= b0 <= 0xDF:
        need, lo, hi = 2, 0x80, 0xBF
    elif b0 == 0xE0:
        need, lo, hi = 3, 0xA0, 0xBF
    elif 0xE1 <= b0 <= 0xEC or 0xEE <= b0 <= 0xEF:
        need, lo, hi = 3, 0x80, 0xBF
    elif b0 == 0xED:
        need, lo, hi = 3, 0x80, 0x9F
    elif b0 == 0xF0:
        need, lo, hi = 4, 0x90, 0xBF
    elif 0xF1 <= b0 <= 0xF3:
        need, lo, hi = 4, 0x80, 0xBF
    elif b0 == 0xF4:
        need, lo, hi = 4, 0x80, 0x8F
    else:
        return ("bad",)
    if len(bs) > need:
        return ("bad",)
    for i, b in enumerate(bs[1:], 1):
        l, h = (lo, hi) if i == 1 else (0x80, 0xBF)
        if not (l <= b <= h):
            return ("bad",)
    if len(bs) < need:
        return ("more",)
    if need == 2:
        v = (b0 & 0x1F) << 6 | (bs[1] & 0x3F)
    elif need == 3:
        v = (b0 & 0x0F) << 12 | (bs[1] & 0x3F) << 6 | (bs[2] & 0x3F)
    else:
        v = (b0 & 0x07) << 18 | (bs[1] & 0x3F) << 12 | (bs[2] & 0x3F) << 6 | (bs[3] & 0x3F)
    return ("ok", v)


def cls_name(c):
    return "%02X" % c[0] if c[0] == c[1] else "%02X-%02X" % c


class Leaf:
    def __init__(self, classes, eof, syms, state, kind, value):
        self.classes = classes  # class per byte read
        self.eof = eof  # the last pull returned None
        self.syms = syms
        self.state = state
        self.kind = kind  # none | ok | err
        self.value = value


BYTE_NEXT = re.compile(r"^<std::iter::Copied<std::slice::Iter<'_, u8>> as std::iter::Iterator>::next$")


def explore(P, next_iid):
    it = Interp(P)
    Lib(role_of).install(it)
    it.cuts.append((lambda inst: bool(BYTE_NEXT.search(inst["name"])), "BYTE"))
    S = it.summaries
    # io::Error::new allocates: opaque
    S.insert(0, (lambda inst: inst["path"].startswith("std::io::Error::new") or inst["path"].startswith("std::io::error::Error::new"),
                 lambda it_, st, inst, args, call: Top(ret_ty(it_, call), "io-error")))

    def try_from_u32(it_, st, inst, args, call):
        x = args[0]
        rty = ret_ty(it_, call)
        t = P.types[rty]
        errty = t["variants"][1]["fields"][0]["ty"]
        ok = lambda v: Agg(rty, 0, (v,))
        err = Agg(rty, 1, (Top(errty, "char-try-from-error"),))
        if isinstance(x, Conc):
            return ok(x) if iset.contains(iset.CHAR, x.v) else err
        out = []
        s2 = st.copy()
        s2.preds.append((Expr("is_char", (x,), (1, False)), 1))
        out.append((s2, ok(x)))
        s3 = st.copy()
        s3.preds.append((Expr("is_char", (x,), (1, False)), 0))
        out.append((s3, err))
        return out

    S.insert(0, (lambda inst: inst["name"] in ("<char as std::convert::TryFrom<u32>>::try_from", "std::char::convert::<impl std::convert::TryFrom<u32> for char>::try_from")
                 or inst["path"] == "std::char::convert::<impl std::convert::TryFrom<u32> for char>::try_from", try_from_u32))
    inst = P.inst[next_iid]
    st = State()
    self_tid = P.types[inst["locals"][1]]["to"]
    cell = st.new_obj(Top(self_tid, "decoder"))
    it.push_frame(st, next_iid, [Ref(("H", cell.id), ())], None, None)
    leaves = []
    steps = [0]

    def finish(o, classes, eof, syms):
        if o.outcome[0] != "return":
            raise Undecided("decoder path ends with %r after %s" % (o.outcome[0], [cls_name(c) for c in classes]))
        rv = o.outcome[1]
        if not isinstance(rv, Agg):
            raise Undecided("decoder result not constructed: %r" % (rv,))
        if rv.variant == 0:
            leaves.append(Leaf(classes, eof, syms, o, "none", None))
            return
        r = rv.fields[0]
        if not isinstance(r, Agg):
            raise Undecided("decoder item not constructed: %r" % (r,))
        if r.variant == 0:
            leaves.append(Leaf(classes, eof, syms, o, "ok", r.fields[0]))
        else:
            leaves.append(Leaf(classes, eof, syms, o, "err", None))

    def go(states, classes, syms):
        for o in states:
            steps[0] += 1
            if o.outcome[0] != "cut":
                finish(o, classes, False, syms)
                continue
            if len(classes) >= 6:
                raise Undecided("the decoder reads more than 6 bytes for one character")
            f = o.frames[-1]
            term = P.inst[f.inst]["blocks"][f.bb]["t"]
            oty = it.place_ty(f, term["dest"])
            # end of input
            s2 = o.copy()
            s2.outcome = o.outcome
            it.resume_cut(s2, Agg(oty, 0, ()))
            for fo in it.run(s2):
                if fo.outcome[0] == "cut":
                    raise Undecided("the decoder pulls again after the end of input")
                finish(fo, classes, True, syms)
            for c in (LEAD if not classes else CONT):
                s3 = o.copy()
                s3.outcome = o.outcome
                b = s3.fresh_sym(iset.mk(c), tag="byte%d" % len(classes))
                it.resume_cut(s3, Agg(oty, 1, (b,)))
                go(it.run(s3), classes + [c], syms + [b])

    go(it.run(st), [], [])
    return it, leaves, steps[0]


REF_VALUE = {1: lambda a: a,
             2: lambda a, b: (a & 0x1F) << 6 | (b & 0x3F),
             3: lambda a, b, c: (a & 0x0F) << 12 | (b & 0x3F) << 6 | (c & 0x3F),
             4: lambda a, b, c, d: (a & 0x07) << 18 | (b & 0x3F) << 12 | (c & 0x3F) << 6 | (d & 0x3F)}


class _Path:
    """One extracted path, prepared for evaluation: per-byte admissible sets and the joint predicates."""

    def __init__(self, lf):
        self.lf = lf
        order = [s.id for s in lf.syms]
        pos = {sid: i for i, sid in enumerate(order)}
        k = len(order)
        single = [[] for _ in range(k)]
        self.joint = []
        self.joint_keys = []
        for p, t in lf.state.preds:
            ids = _syms_of(p)
            if not ids or not ids <= set(order):
                if ids & set(order):
                    raise Undecided("path predicate mixes byte symbols with other symbols: %r" % (p,))
                continue
            f = exprs.compile_expr(p, order, {})
            if len(ids) == 1:
                single[pos[next(iter(ids))]].append((f, t))
            else:
                self.joint.append((f, t))
                names = {sid: i for i, sid in enumerate(order)}
                self.joint_keys.append((exprs._canon(p, dict(names)), t))
        self.sets = []
        for i in range(k):
            c = lf.classes[i]
            d = lf.state.cons.get(order[i])
            vals = []
            for b in range(c[0], c[1] + 1):
                if d is not None and not iset.contains(d, b):
                    continue
                args = [0] * k
                args[i] = b
                if all(f(*args) == t for f, t in single[i]):
                    vals.append(b)
            self.sets.append(vals)
        self.feasible = all(self.sets)
        self.value = exprs.compile_expr(lf.value, order, {}) if lf.kind == "ok" and not isinstance(lf.value, Conc) else None

    def box_size(self):
        n = 1
        for s in self.sets:
            n *= len(s)
        return n

    def holds(self, vals):
        return all(f(*vals) == t for f, t in self.joint)


def _boxes_intersect(a, b):
    return all(set(x) & set(y) for x, y in zip(a.sets, b.sets))


def _complementary(a, b):
    for ka, ta in a.joint_keys:
        for kb, tb in b.joint_keys:
            if ka == kb and ta != tb:
                return True
    return False


def decide(it, leaves, limit=6_000_000):
    """Evaluate the extracted paths over their admissible byte tuples and compare with the reference.
    Returns (violations [(key, message)], stats)."""
    groups = {}
    for lf in leaves:
        groups.setdefault(tuple(lf.classes), []).append(lf)
    viol = {}
    stats = {"class_tuples": 0, "paths": len(leaves), "feasible_paths": 0, "byte_tuples_evaluated": 0, "accepted_sequences": 0,
             "rejected_tuples": 0, "truncated_prefixes": 0}
    accepted_values = set()
    term_at = {}  # length -> number of byte tuples on which the decoder stops after exactly that many bytes
    more_at = {0: 1}  # length -> number of byte tuples after which the decoder pulls another byte

    def report(key, msg):
        # one finding per kind and leading class pair (the deeper classes only multiply the examples)
        parts = key.split("/")
        cls = parts[-1].split(" ")
        key = "/".join(parts[:-1] + [" ".join(cls[:2])]) if len(parts) == 3 else key
        if key not in viol:
            viol[key] = msg

    for classes, lfs in sorted(groups.items()):
        stats["class_tuples"] += 1
        name = " ".join(cls_name(c) for c in classes)
        if not classes:
            ok = len(lfs) == 1 and lfs[0].kind == "none" and lfs[0].eof
            if not ok:
                report("C01.utf8/eof", "end of input before a character must end the stream (None); the decoder returns %s" % [l.kind for l in lfs])
            continue
        k = len(classes)
        paths = [p for p in (_Path(lf) for lf in lfs) if p.feasible]
        stats["feasible_paths"] += len(paths)
        # determinism: two paths of one class tuple never apply to the same bytes
        for i in range(len(paths)):
            for j in range(i + 1, len(paths)):
                a, b = paths[i], paths[j]
                if _boxes_intersect(a, b) and not _complementary(a, b):
                    raise Undecided("two extracted paths apply to the same bytes in %s (%s / %s)" % (name, a.lf.kind, b.lf.kind))
        ref_kind = ref_decode([c[0] for c in classes])[0]  # uniform on the class tuple by construction of the classes
        for p in paths:
            lf = p.lf
            size = p.box_size()
            if p.joint or lf.kind == "ok":
                if size > limit:
                    raise Undecided("path over %s needs %d evaluations" % (name, size))
                n = 0
                refv = REF_VALUE.get(k)
                bad_value = None
                example = None
                for vals in itertools.product(*p.sets):
                    stats["byte_tuples_evaluated"] += 1
                    if p.joint and not p.holds(vals):
                        continue
                    n += 1
                    if example is None:
                        example = vals
                    if lf.kind == "ok" and ref_kind == "ok":
                        v = p.value(*vals) if p.value is not None else lf.value.v
                        if v != refv(*vals):
                            bad_value = bad_value or (vals, v)
                        else:
                            accepted_values.add(v)
                if n == 0:
                    continue
            else:
                n = size
                example = tuple(s[0] for s in p.sets)
                bad_value = None
                stats["byte_tuples_evaluated"] += sum(len(s) for s in p.sets)
            hexs = bytes(example).hex()
            if lf.eof:
                more_at[k] = more_at.get(k, 0) + n
                stats["truncated_prefixes"] += n
                if lf.kind != "err":
                    report("C01.utf8/truncated/" + name, "input ending after bytes %s must be an error, the decoder returns %s (e.g. %s)" % (name, lf.kind, hexs))
                continue
            term_at[k] = term_at.get(k, 0) + n
            if lf.kind == "ok":
                if ref_kind != "ok":
                    what = "a proper prefix of a longer sequence" if ref_kind == "more" else "ill-formed (overlong, surrogate, above U+10FFFF or a stray byte)"
                    v = p.value(*example) if p.value is not None else lf.value.v
                    report("C01.utf8/accepts/" + name, "%d byte sequences in %s are %s but are decoded (e.g. %s -> U+%04X)" % (n, name, what, hexs, v))
                elif bad_value is not None:
                    report("C01.utf8/value/" + name, "bytes %s decode to U+%04X instead of U+%04X" % (bytes(bad_value[0]).hex(), bad_value[1], REF_VALUE[k](*bad_value[0])))
                else:
                    stats["accepted_sequences"] += n
            elif lf.kind == "err":
                stats["rejected_tuples"] += n
                if ref_kind == "ok":
                    report("C01.utf8/rejects/" + name, "%d well-formed sequences in %s are rejected (e.g. %s)" % (n, name, hexs))
                elif ref_kind == "more":
                    report("C01.utf8/rejects-prefix/" + name, "the decoder gives up after %s, a proper prefix of a well-formed sequence" % hexs)
            else:
                report("C01.utf8/none/" + name, "the decoder ends the stream after reading %s" % hexs)
    stats["distinct_scalars_accepted"] = len(accepted_values)
    # the extracted paths partition the byte tuples: whenever the decoder pulls a byte (after more_at[k] tuples of length k)
    # every one of the 256 answers either ends the character or leads to another pull
    depth = max(list(term_at) + list(more_at))
    for k in range(0, depth + 1):
        pulled = 256 * more_at.get(k, 0)
        seen = term_at.get(k + 1, 0) + more_at.get(k + 1, 0)
        if pulled != seen:
            raise Undecided("the extracted paths do not partition the inputs: %d byte tuples of length %d are pulled, %d are accounted for" % (pulled, k + 1, seen))
    stats["stops_by_length"] = {str(k): v for k, v in sorted(term_at.items())}
    return sorted(viol.items()), stats


def _syms_of(e, acc=None):
    acc = set() if acc is None else acc
    if isinstance(e, Sym):
        acc.add(e.id)
    elif isinstance(e, Expr):
        for a in e.args:
            _syms_of(a, acc)
    return acc


def _mentions(e, ids):
    if isinstance(e, Sym):
        return e.id in ids
    if isinstance(e, Expr):
        return any(_mentions(a, ids) for a in e.args)
    return False
