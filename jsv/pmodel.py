"""Parser model P: abstract interpretation of `Value::parse_with(In, options)` with the opaque
input iterator's `next` as the READ cut point.  Produces, for a suspended state and a read
result (EOF / stream error / character class), the successor suspended states or the final
outcome, together with the events of the step."""
import re

from . import iset, summ
from .absint import (FALSE, TRUE, UNIT, Agg, Conc, Expr, Interp, Obj, Ref, State, Str, Sym, Top, Undecided, Uninit, V)
from .model import Canon, Liveness
from .summ import AVec, Lib, LogVec, Ordlen, Ordv


def role_of(elem):
    if "StackItem" in elem:
        return ("exact", "stack")
    if elem == "json_syntax::Value":
        return ("log", "array")
    if elem.startswith("json_syntax::object::Entry<"):
        return ("log", "entries")
    if elem == "json_syntax::code_map::Entry":
        return ("log", "codemap")
    if elem == "u8":
        return ("log", "bytes")
    return (None, None)


class PModel:
    def __init__(self, program, root="root_parse_model", read_name=r"^<In as std::iter::Iterator>::next$"):
        self.p = program
        self.it = Interp(program)
        self.lib = Lib(role_of)
        self.lib.install(self.it)
        self.lv = Liveness(program)
        self.canon = Canon(self.it, self.lv)
        self.root = root
        rx = re.compile(read_name)
        self.it.cuts.append((lambda inst: bool(rx.search(inst["name"])), "READ"))
        self.it.binop_hooks.append(self.ord_binop)
        self.it.overflow_hooks.append(self.ord_overflow)
        self.assumptions = set()
        self.assert_log = {}  # (function name, assert kind) -> set of outcomes
        self.it.assert_hook = self.on_assert
        S = self.it.summaries
        name = lambda r: (lambda inst, _rx=re.compile(r): bool(_rx.search(inst["name"])))
        # private anchors: the hash index of Object is bookkeeping without effect on the parse model
        path = lambda r: (lambda inst, _rx=re.compile(r): bool(_rx.search(inst["path"])))
        S.insert(0, (path(r"^json_syntax::object::index_map::IndexMap::<S>::insert$"), self.indexmap_insert))
        S.insert(0, (path(r"^json_syntax::object::index_map::IndexMap::<S>::new$"), self.indexmap_new))
        S.insert(0, (name(r"NumberBuf<.*>::new_unchecked$|^json_number::NumberBuf::<.*>::new_unchecked$"), self.numbuf_new))
        self.anchors_seen = set()

    # ---- summaries specific to the parser model ------------------------------------------------
    def indexmap_insert(self, it, st, inst, args, call):
        self.anchors_seen.add("IndexMap::insert")
        return st.fresh_sym(iset.BOOL, tag="index-insert")

    def indexmap_new(self, it, st, inst, args, call):
        self.anchors_seen.add("IndexMap::new")
        return Top(summ.ret_ty(it, call), "index")

    def numbuf_new(self, it, st, inst, args, call):
        # NumberBuf::new_unchecked(buffer): the number owns the byte buffer it is given
        self.anchors_seen.add("NumberBuf::new_unchecked")
        return Agg(summ.ret_ty(it, call), 0, (args[0],))

    # ---- ordinal arithmetic -------------------------------------------------------------------------
    def ord_binop(self, st, op, a, b, tid):
        if isinstance(a, Ordv) or isinstance(b, Ordv) or isinstance(a, Ordlen) or isinstance(b, Ordlen):
            if isinstance(a, Ordv) and isinstance(b, Ordv) and a.space == b.space:
                if op in ("Eq", "Ne", "Lt", "Le", "Gt", "Ge"):
                    r = {"Eq": a.n == b.n, "Ne": a.n != b.n, "Lt": a.n < b.n, "Le": a.n <= b.n, "Gt": a.n > b.n, "Ge": a.n >= b.n}[op]
                    return Conc(int(r))
                if op == "Sub":
                    return Expr("ordsub", (a, b), None)
            if isinstance(a, Ordv) and a.space == "pos" and isinstance(b, Ordlen) and op == "Add" and b.k == a.n:
                return Ordv("pos", a.n + 1)
            return Top(tid, "ordinal-arith:%s(%r,%r)" % (op, a, b))
        return None

    def ord_overflow(self, st, base, a, b, tid):
        if isinstance(a, (Ordv, Ordlen)) or isinstance(b, (Ordv, Ordlen)):
            r = self.ord_binop(st, base, a, b, tid)
            if base == "Add" and isinstance(a, Ordv) and a.space == "pos":
                self.assumptions.add("`position += len` does not overflow usize (the position is bounded by the input length)")
                return (r, FALSE)
            if base == "Sub" and isinstance(a, Ordv) and isinstance(b, Ordv) and a.space == b.space:
                return (r, Conc(int(a.n < b.n)))
            return (r, Top(None, "overflow?"))
        return None

    def on_assert(self, st, f, t, outcome):
        inst = self.p.inst[f.inst]
        self.assert_log.setdefault((inst["name"], t["assert"], f.bb), set()).add(outcome)

    # ---- initial state and stepping --------------------------------------------------------------------
    def initial(self, truncated, invalid):
        st = State()
        root = self.p.inst[self.p.roots[self.root]]
        opt_ty = root["locals"][2]
        in_ty = root["locals"][1]
        inp = Top(in_ty, "input")
        opts = Agg(opt_ty, 0, (Conc(int(truncated)), Conc(int(invalid))))
        self.it.push_frame(st, root["id"], [inp, opts], None, None)
        st.ctr["reads"] = 0
        outs = self.advance(st)
        for _, o in outs:
            self.patch_initial_position(o)
        return outs

    def patch_initial_position(self, st):
        """The parser's `position` field starts at 0 = byte offset of read #0: name it pos#0."""
        self.initial_position_ok = False
        for f in st.frames:
            for l, v in list(f.locals.items()):
                if isinstance(v, Agg) and v.ty is not None:
                    t = self.p.types[v.ty]
                    if t.get("name") == "json_syntax::parse::Parser":
                        names = [x["name"] for x in t["variants"][0]["fields"]]
                        i = names.index("position")
                        if v.fields[i] == Conc(0):
                            fs = list(v.fields)
                            fs[i] = Ordv("pos", 0)
                            f.locals[l] = Agg(v.ty, v.variant, fs)
                            self.initial_position_ok = True

    def advance(self, st):
        """Run a state to its next cut points / outcomes. Returns list of (kind, state):
        kind in {'read', 'return', 'panic', 'other'}; states at 'read' are cleaned."""
        outs = self.it.run(st)
        res = []
        for o in outs:
            k = o.outcome[0]
            if k == "cut":
                res.append(("read", o))
            elif k == "return":
                res.append(("return", o))
            elif k == "panic":
                res.append(("panic", o))
            elif k == "infeasible":
                continue
            else:
                res.append((k, o))
        return res

    def reads_of(self, st):
        return st.ctr.get("reads", 0)

    def resume(self, st, what, dom=None):
        """Continue a state suspended at READ. what: 'eof' | 'err' | 'char' (with domain)."""
        s2 = st.copy()
        s2.events = []
        s2.steps = 0
        s2.trace = []
        callee = s2.outcome[5]
        inst = self.p.inst[callee]
        # return type: Option<Result<DecodedChar, StreamErr>>
        f = s2.frames[-1]
        term = self.p.inst[f.inst]["blocks"][f.bb]["t"]
        opt_ty = self.it.place_ty(f, term["dest"])
        res_ty = self.p.types[opt_ty]["variants"][1]["fields"][0]["ty"]
        k = s2.ctr.get("reads", 0)
        sym = None
        if what == "eof":
            v = Agg(opt_ty, 0, ())
        elif what == "err":
            err_ty = self.p.types[res_ty]["variants"][1]["fields"][0]["ty"]
            v = Agg(opt_ty, 1, (Agg(res_ty, 1, (Top(err_ty, "stream-error"),)),))
        else:
            dc_ty = self.p.types[res_ty]["variants"][0]["fields"][0]["ty"]
            sym = s2.fresh_sym(dom if dom is not None else iset.CHAR, kind="input", k=k)
            v = Agg(opt_ty, 1, (Agg(res_ty, 0, (Agg(dc_ty, 0, (sym, Ordlen(k))),)),))
            s2.ctr["reads"] = k + 1
        self.it.resume_cut(s2, v)
        outs = self.advance(s2)
        return sym, outs

    def suspend_key(self, st, extra=None):
        st2 = st  # already a private copy
        self.canon.clean(st2)
        self.sweep_codemap(st2)
        return self.canon.key(st2, extra)

    def sweep_codemap(self, st, final=False):
        """Retire code-map cells: closed ones (volume written) emit `frag_end`; open ones whose index
        no live value holds any more can never be closed and emit `frag_leak`."""
        refs = set()

        def scan(v):
            if isinstance(v, Ordv):
                refs.add((v.space, v.n))
            elif isinstance(v, Expr):
                for a in v.args:
                    scan(a)
            elif isinstance(v, Agg):
                for a in v.fields:
                    scan(a)

        cm_cells = set()
        for oid, m in st.heap.items():
            if isinstance(m, LogVec) and m.role == "codemap":
                cm_cells |= {cid for _, cid in m.cells}
        for f in st.frames:
            for v in f.locals.values():
                scan(v)
        for oid, m in st.heap.items():
            if oid in cm_cells:
                continue
            if isinstance(m, V):
                scan(m)
            elif isinstance(m, AVec):
                for x in m.items:
                    scan(x)
        for oid, m in list(st.heap.items()):
            if not (isinstance(m, LogVec) and m.role == "codemap"):
                continue
            keep = []
            for n, cid in m.cells:
                cell = st.heap.get(cid)
                vol = cell.fields[1] if isinstance(cell, Agg) and len(cell.fields) == 2 else None
                closed = vol is not None and vol != Conc(0)
                if closed:
                    st.emit("frag_end", n, cell, m.n)
                    st.heap.pop(cid, None)
                elif final or (("len", oid), n) not in refs:
                    st.emit("frag_leak", n, cell)
                    st.heap.pop(cid, None)
                else:
                    keep.append((n, cid))
            st.heap[oid] = LogVec(m.role, m.n, keep)
