"""E3 — product of the extracted parser model P with the reference transducer R.

Joint exploration from the initial states, breadth first, merging joint states with equal
canonical keys.  At every step the two sides must agree on acceptance, on the error reported
and on the events (compared per channel through bounded queues).  Container nesting is explored
exactly up to depth K; P touches its stack only through push/pop/last (the summaries accept
nothing else), so behaviour at depth d>=2 depends on the top item only.
"""
import itertools
import os
from collections import deque

from . import iset
from .absint import Agg, Conc, Expr, Obj, Ref, Sym, Top, Undecided, Uninit, V
from .model import _syms_of
from .refmodels.rfc8259 import HIGH, LOW, F, O, P, Ref8259, RState
from .summ import AVec, LogVec, Ordlen, Ordv

CHANNELS = ("frag", "str", "num", "arr", "ent")
QUEUE_BOUND = 8


class Finding:
    def __init__(self, rule, key, msg, site="", witness=None):
        self.rule, self.key, self.msg, self.site, self.witness = rule, key, msg, site, witness

    def __repr__(self):
        return "[%s] %s: %s (%s) witness=%r" % (self.rule, self.key, self.msg, self.site, self.witness)


class JS:
    """Joint state."""
    __slots__ = ("p", "r", "q", "omap", "parent", "letter", "depth", "ateof")

    def __init__(self, p, r, q, omap, parent=None, letter=None, depth=0, ateof=None):
        self.p, self.r, self.q, self.omap, self.parent, self.letter, self.depth = p, r, q, omap, parent, letter, depth
        self.ateof = ateof  # reference result of the EOF letter while P keeps pulling after None


class RDone:
    """Reference already consumed EOF; waiting for the implementation to finish."""

    def __init__(self, rout):
        self.rout = rout

    def render(self):
        return ("RDONE", self.rout.final, tuple(self.rout.events))


def vwalk(x, fn):
    """Map V leaves inside nested tuples."""
    if isinstance(x, V):
        return fn(x)
    if isinstance(x, tuple):
        return tuple(vwalk(y, fn) for y in x)
    if isinstance(x, list):
        return tuple(vwalk(y, fn) for y in x)
    return x


def vleaves(x, acc):
    if isinstance(x, V):
        acc.append(x)
    elif isinstance(x, (tuple, list)):
        for y in x:
            vleaves(y, acc)
    return acc


class Product:
    def __init__(self, pm, truncated, invalid, K=2, max_states=40000):
        self.pm = pm
        self.it = pm.it
        self.ref = Ref8259(truncated, invalid)
        self.opts = (truncated, invalid)
        self.K = K
        self.max_states = max_states
        self.findings = []
        self.finding_keys = set()
        self.infos = []
        self.states = 0
        self.transitions = 0
        self.accepting = 0
        self.errors = 0
        self.cut_depth = 0
        self.samples = []
        self.expr_cache = {}
        self.sites = {}
        self.stats = {"hex4_checked": 0, "pair_checked": 0, "events_matched": 0, "error_sites": set(), "accept_paths": 0}

    # ---- findings -----------------------------------------------------------------------------------------
    def report(self, rule, key, msg, js=None, pstate=None, witness=None):
        k = (rule, key)
        if k in self.finding_keys:
            return
        self.finding_keys.add(k)
        site = self.it.site(pstate) if pstate is not None and pstate.frames else ""
        if witness is None and js is not None:
            witness = self.witness(js)
        self.findings.append(Finding(rule, key, msg, site, witness))

    def witness(self, js, extra=None):
        """An input (as a Python string with \\u escapes for odd characters) leading to the joint state."""
        letters = []
        j = js
        while j is not None and j.letter is not None:
            letters.append(j.letter)
            j = j.parent
        letters.reverse()
        if extra is not None:
            letters.append(extra)
        chars = []
        for l in letters:
            if l[0] == "char":
                chars.append(pick(l[1]))
            elif l[0] == "eof":
                chars.append(None)
            elif l[0] == "err":
                chars.append("<stream-error>")
        # unit constraints: override the four digits preceding a unit letter
        out = []
        for i, l in enumerate(letters):
            if l[0] == "char" and len(l) > 3 and l[3] is not None:
                v = iset.lo(l[3])
                hexs = "%04x" % v
                # the letter is the 4th digit
                for d in range(4):
                    if i - 3 + d >= 0:
                        chars[i - 3 + d] = hexs[d]
        for c in chars:
            if c is None:
                out.append("<EOF>")
            else:
                out.append(c)
        return "".join(out)

    # ---- P event normalisation --------------------------------------------------------------------------------
    def pstr_val(self, st, v):
        if isinstance(v, Conc):
            return ("const", v.v)
        if isinstance(v, Sym):
            info = st.syminfo.get(v.id, {})
            if info.get("kind") == "input":
                return ("raw", v)
            if "def" in info:
                return ("unit", v)
            return ("sym", v)
        if isinstance(v, Expr):
            return ("expr", v)
        return ("other", repr(v))

    def vdesc(self, st, v):
        """Descriptor of a json_syntax::Value."""
        if not isinstance(v, Agg) or v.ty is None:
            return ("unknown", repr(v))
        t = self.it.p.types[v.ty]
        if t.get("name") != "json_syntax::Value":
            return ("unknown", t.get("s"))
        vn = t["variants"][v.variant]["name"]
        if vn == "Null":
            return ("null",)
        if vn == "Boolean":
            b = v.fields[0]
            return ("bool", b.v) if isinstance(b, Conc) else ("bool", repr(b))
        if vn == "Number":
            nb = v.fields[0]
            if isinstance(nb, Agg) and nb.fields and isinstance(nb.fields[0], Obj):
                return ("num", nb.fields[0])
            return ("num", repr(nb))
        if vn == "String":
            return ("str", v.fields[0]) if isinstance(v.fields[0], Obj) else ("str", repr(v.fields[0]))
        if vn == "Array":
            return ("arr", v.fields[0]) if isinstance(v.fields[0], Obj) else ("arr", repr(v.fields[0]))
        if vn == "Object":
            o = v.fields[0]
            if isinstance(o, Agg) and o.fields and isinstance(o.fields[0], Obj):
                return ("obj", o.fields[0])
            return ("obj", repr(o))
        return ("unknown", vn)

    def pos_norm(self, v):
        if isinstance(v, Conc) and v.v == 0:
            return P(0)
        return v

    def norm_events(self, st):
        out = []
        for e in st.events:
            tag = e[0]
            if tag == "new":
                role, oid = e[1], e[2]
                ch = {"array": "arr", "entries": "ent", "str": "str", "bytes": "num"}.get(role)
                if ch:
                    out.append((ch, ("NEW", Obj(oid))))
            elif tag == "push":
                role, oid, n, v = e[1], e[2], e[3], e[4]
                if role == "codemap":
                    ok = isinstance(v, Agg) and len(v.fields) == 2 and isinstance(v.fields[0], Agg)
                    if ok:
                        s, en = self.pos_norm(v.fields[0].fields[0]), self.pos_norm(v.fields[0].fields[1])
                        if s == en and v.fields[1] == Conc(0):
                            out.append(("frag", ("BEGIN", F(n), s)))
                            continue
                    out.append(("frag", ("BADBEGIN", F(n), repr(v))))
                elif role == "str":
                    out.append(("str", ("CH", Obj(oid), self.pstr_val(st, v))))
                elif role == "bytes":
                    out.append(("num", ("BYTE", Obj(oid), self.pstr_val(st, v))))
                elif role == "array":
                    out.append(("arr", ("PUSH", Obj(oid), self.vdesc(st, v))))
                elif role == "entries":
                    if isinstance(v, Agg) and len(v.fields) == 2:
                        k = v.fields[0]
                        kd = ("str", k) if isinstance(k, Obj) else ("unknown", repr(k))
                        out.append(("ent", ("PUSH", Obj(oid), kd, self.vdesc(st, v.fields[1]))))
                    else:
                        out.append(("ent", ("BADPUSH", repr(v))))
            elif tag == "frag_end":
                n, cell, count = e[1], e[2], e[3]
                span, vol = cell.fields
                end = self.pos_norm(span.fields[1])
                if isinstance(vol, Expr) and vol.op == "ordsub" and isinstance(vol.args[0], Ordv) and isinstance(vol.args[1], Ordv) and vol.args[1].n == n:
                    out.append(("frag", ("END", F(n), end, F(vol.args[0].n))))
                else:
                    out.append(("frag", ("BADEND", F(n), end, repr(vol))))
            elif tag == "frag_leak":
                out.append(("frag", ("LEAK", F(e[1]))))
            elif tag == "reopen" and e[1] == "codemap":
                out.append(("frag", ("REOPEN", F(e[3]))))
        return out

    # ---- comparing events ------------------------------------------------------------------------------------------
    def same_val(self, pst, a, b):
        if a == b:
            return True
        if a[0] == "expr" and b[0] == "expr":
            return self.expr_equal(pst, a[1], b[1])
        if a[0] in ("unit", "sym") and b[0] in ("unit", "sym"):
            return a[1] == b[1]
        if {a[0], b[0]} <= {"expr", "unit", "sym", "raw", "const"}:
            # e.g. an identity expression of a symbol
            ea = a[1] if isinstance(a[1], V) else Conc(a[1])
            eb = b[1] if isinstance(b[1], V) else Conc(b[1])
            return self.expr_equal(pst, ea, eb)
        return False

    def expr_equal(self, pst, e1, e2):
        """Semantic equality of two extracted expressions over the domains of their symbols, decided
        by evaluating both over every assignment (the expressions, not the program, are evaluated).
        On inequality `self.last_counterexample` holds an assignment {sym id: value}."""
        from .exprs import compare
        doms = {}
        for s in _syms_of(e1) | _syms_of(e2):
            d = pst.cons.get(s)
            if d is None:
                self.last_counterexample = None
                return False
            doms[s] = d
        ok, bad, n = compare(self.it, e1, e2, doms, self.expr_cache)
        self.stats["pair_checked"] += 1
        self.stats["assignments"] = self.stats.get("assignments", 0) + n
        self.last_counterexample = bad
        return ok

    def tr_obj(self, omap, x):
        """Translate P object handles inside a descriptor through the object map; None if unmapped."""
        if isinstance(x, Obj):
            return omap.get(x.id)
        if isinstance(x, tuple):
            r = []
            for y in x:
                if isinstance(y, (Obj, tuple)):
                    t = self.tr_obj(omap, y)
                    if t is None:
                        return None
                    r.append(t)
                else:
                    r.append(y)
            return tuple(r)
        return x

    def match_one(self, pst, omap, chan, pe, re_):
        """Compare heads of channel queues. Returns (True, omap') | (False, reason) | (None, _) if the
        P event refers to an object whose NEW has not been matched yet."""
        if pe[0] != re_[0]:
            return False, "event kinds differ: implementation %s, reference %s" % (show_ev(pe), show_ev(re_))
        tag = pe[0]
        if tag == "NEW":
            om = dict(omap)
            om[pe[1].id] = re_[1]
            return True, om
        if chan == "frag":
            if pe == re_:
                return True, omap
            return False, "fragment event differs: implementation %s, reference %s" % (show_ev(pe), show_ev(re_))
        # translate objects
        if omap.get(pe[1].id) is None:
            return None, None
        if omap[pe[1].id] != re_[1]:
            return False, "event targets a different container: implementation %s, reference %s" % (show_ev(pe), show_ev(re_))
        if tag in ("CH", "BYTE"):
            if self.same_val(pst, pe[2], re_[2]):
                return True, omap
            return False, "decoded character differs: implementation pushes %s, reference expects %s" % (show_ev(pe[2]), show_ev(re_[2]))
        if tag == "PUSH":
            pd = pe[2:]
            rd = re_[2:]
            tp = self.tr_obj(omap, pd)
            if tp is None:
                return None, None
            if tp == rd:
                return True, omap
            return False, "appended value differs: implementation %s, reference %s" % (show_ev(pd), show_ev(rd))
        return False, "unknown event %r" % (pe,)

    def drain(self, js_parent, pst, q, omap):
        """Cancel matching heads of the queues. Returns (q', omap', error or None)."""
        q = {c: (list(q[c][0]), list(q[c][1])) for c in CHANNELS}
        progress = True
        while progress:
            progress = False
            for c in CHANNELS:
                pq, rq = q[c]
                if c == "frag":
                    # fragment events are self-contained records (index, offsets, count): compare as a multiset
                    for pe in pq:
                        if pe[0] not in ("BEGIN", "END"):
                            why = {"LEAK": "a reserved code-map entry is never completed (no end_fragment on this path)",
                                   "REOPEN": "a code-map entry that was already completed is modified again",
                                   "BADBEGIN": "a code-map entry is not reserved as (position, position, volume 0)",
                                   "BADEND": "the stored volume is not `entries_now - index`"}.get(pe[0], pe[0])
                            return None, None, (c, "%s: %s" % (why, show_ev(pe)))
                    for pe in list(pq):
                        if pe in rq:
                            pq.remove(pe)
                            rq.remove(pe)
                            self.stats["events_matched"] += 1
                            progress = True
                    # the same fragment begun / completed by both sides with different data: a definite mismatch
                    for pe in pq:
                        for re_ in rq:
                            if pe[0] == re_[0] and pe[1] == re_[1]:
                                return None, None, (c, "fragment event differs: implementation %s, reference %s" % (show_ev(pe), show_ev(re_)))
                    continue
                while pq and rq:
                    ok, res = self.match_one(pst, omap, c, pq[0], rq[0])
                    if ok is None:
                        break
                    if not ok:
                        return None, None, (c, res)
                    omap = res
                    pq.pop(0)
                    rq.pop(0)
                    self.stats["events_matched"] += 1
                    progress = True
        for c in CHANNELS:
            if len(q[c][0]) > QUEUE_BOUND or len(q[c][1]) > QUEUE_BOUND:
                side = "implementation" if len(q[c][0]) > QUEUE_BOUND else "reference"
                return None, None, (c, "events of the %s are never matched (queue bound %d exceeded): %s" % (
                    side, QUEUE_BOUND, [show_ev(e) for e in (q[c][0] or q[c][1])[:3]]))
        return {c: (tuple(q[c][0]), tuple(q[c][1])) for c in CHANNELS}, omap, None

    # ---- errors -----------------------------------------------------------------------------------------------------
    def p_final(self, o):
        """Describe P's final outcome: ('accept', vdesc, codemap obj) | ('error', name, fields) | ('panic', info)."""
        if o.outcome[0] == "panic":
            return ("panic", o.outcome[1])
        if o.outcome[0] != "return":
            return ("other", o.outcome)
        rv = o.outcome[1]
        if not isinstance(rv, Agg):
            return ("other", repr(rv))
        if rv.variant == 0:
            tup = rv.fields[0]
            return ("accept", self.vdesc(o, tup.fields[0]), tup.fields[1])
        err = rv.fields[0]
        t = self.it.p.types[err.ty]
        name = t["variants"][err.variant]["name"]
        return ("error", name, err.fields)

    def cmp_error(self, pst, pf, spec):
        """Compare P's error with the reference's specification; returns None or a reason."""
        name = spec[0]
        if pf[1] != name:
            return "error kind differs: implementation %s, reference %s" % (pf[1], name)
        fields = pf[2]
        if name == "Unexpected":
            pos, c = self.pos_norm(fields[0]), fields[1]
            if pos != spec[1]:
                return "Unexpected: reported offset %r, reference %r (offset of the first offending character)" % (pos, spec[1])
            if spec[2] is None:
                if not (isinstance(c, Agg) and c.variant == 0):
                    return "Unexpected at end of input must carry no character, implementation reports %r" % (c,)
            else:
                if not (isinstance(c, Agg) and c.variant == 1 and c.fields[0] == spec[2]):
                    return "Unexpected: reported character %r is not the character at the reported offset (%r)" % (c, spec[2])
            return None
        if name == "Stream":
            pos = self.pos_norm(fields[0])
            if pos != spec[1]:
                return "Stream: reported offset %r, reference %r (offset of the failed pull)" % (pos, spec[1])
            return None
        span = fields[0]
        start, end = self.pos_norm(span.fields[0]), self.pos_norm(span.fields[1])
        if not (isinstance(start, Ordv) and isinstance(end, Ordv) and start.space == "pos" and end.space == "pos"):
            return "%s: span is not made of input positions: %r" % (name, span)
        cur = spec[-1] if False else None
        if name == "MissingLowSurrogate":
            pending, lo_end, hi_end = spec[1], spec[2], spec[3]
            pos_u, high = pending
            if not (pos_u.n - 1 <= start.n <= pos_u.n + 5):
                return "MissingLowSurrogate: span start %r lies outside the pending escape (its `u` is at %r)" % (start, pos_u)
            if not (start.n <= end.n <= hi_end.n):
                return "MissingLowSurrogate: span end %r not within [start, current offset %r]" % (end, hi_end)
            if end.n > pos_u.n + 5:
                return ("MissingLowSurrogate: span end %r lies beyond the end of the offending escape (its `u` is at %r, "
                        "the escape ends at %r): the span runs into the element that follows" % (end, pos_u, pos_u.n + 5))
            if not self.same_unit(pst, fields[1], high, 16):
                return "MissingLowSurrogate: carried unit %r is not the pending high surrogate %r" % (fields[1], high)
            return None
        if name == "InvalidLowSurrogate":
            pending, pos_u, here, unit = spec[1], spec[2], spec[3], spec[4]
            p_high, high = pending
            if not (p_high.n - 1 <= start.n <= pos_u.n + 5):
                return "InvalidLowSurrogate: span start %r lies outside the two escapes" % (start,)
            if not (start.n <= end.n <= here.n):
                return "InvalidLowSurrogate: span end %r not within [start, current offset %r]" % (end, here)
            if not self.same_unit(pst, fields[1], high, 16):
                return "InvalidLowSurrogate: first unit %r is not the pending high surrogate" % (fields[1],)
            if not self.same_unit(pst, fields[2], unit, 32):
                return "InvalidLowSurrogate: second unit %r is not the offending unit" % (fields[2],)
            return None
        if name == "InvalidUnicodeCodePoint":
            pos_u, here, unit = spec[1], spec[2], spec[3]
            if not (pos_u.n - 1 <= start.n <= pos_u.n + 5):
                return "InvalidUnicodeCodePoint: span start %r lies outside the offending escape" % (start,)
            if not (start.n <= end.n <= here.n):
                return "InvalidUnicodeCodePoint: span end %r not within [start, current offset %r]" % (end, here)
            if not self.same_unit(pst, fields[1], unit, 32):
                return "InvalidUnicodeCodePoint: carried value %r is not the offending unit" % (fields[1],)
            return None
        return "unknown error specification %r" % (spec,)

    def same_unit(self, pst, pv, rv, bits):
        if pv == rv:
            return True
        if isinstance(pv, Expr) and pv.op == "cast" and pv.args[0] == rv:
            d = pst.cons.get(rv.id) if isinstance(rv, Sym) else None
            return d is not None and iset.hi(d) < (1 << bits)
        if isinstance(pv, (Expr, Sym)) and isinstance(rv, (Expr, Sym)):
            try:
                return self.expr_equal(pst, pv, rv)
            except Undecided:
                return False
        return False

    # ---- the exploration ------------------------------------------------------------------------------------------------
    def stack_depth(self, st):
        for m in st.heap.values():
            if isinstance(m, AVec) and m.role == "stack":
                return len(m.items)
        return 0

    def alias_spaces(self, st):
        al = {}
        for oid, m in st.heap.items():
            if isinstance(m, LogVec) and m.role == "codemap":
                al[("len", oid)] = "frag"
        return al

    def presweep(self, o, rstate, q):
        """Garbage-collect P's suspended state and retire code-map cells *before* its events are read."""
        r_roots = vleaves(rstate.render(), [])
        for c in CHANNELS:
            vleaves(q[c], r_roots)
        for e in o.events:
            vleaves(e, r_roots)
        self.pm.canon.clean(o, extra_roots=[v for v in r_roots if isinstance(v, (Sym, Expr, Agg))])
        self.pm.sweep_codemap(o)

    def jkey(self, js):
        r_roots = vleaves(js.r.render(), [])
        for c in CHANNELS:
            vleaves(js.q[c], r_roots)
        self.pm.canon.clean(js.p, extra_roots=[v for v in r_roots if isinstance(v, (Sym, Expr))])
        self.pm.sweep_codemap(js.p)
        alias = self.alias_spaces(js.p)
        omap_items = tuple(sorted(js.omap.items()))

        def extra(cv, ords):
            live_objs = set()
            parts = [vwalk(js.r.render(), cv)]
            for c in CHANNELS:
                parts.append((c, vwalk(js.q[c], cv)))
            om = []
            for poid, robj in omap_items:
                if poid in js.p.heap:
                    om.append((cv(Obj(poid)), cv(robj)))
            parts.append(tuple(sorted(om, key=repr)))
            return tuple(parts)

        key, ren = self.pm.canon.key(js.p, extra, alias)
        # drop object-map entries of dead objects
        js.omap = {k: v for k, v in js.omap.items() if k in js.p.heap}
        return key

    def run(self):
        pm = self.pm
        init = pm.initial(*self.opts)
        seen = {}
        work = deque()
        r0 = self.ref.initial()
        for kind, o in init:
            if kind != "read":
                self.report("C01.lang", "init/%s" % kind, "parser finished before reading any input: %r" % (o.outcome,), pstate=o)
                continue
            q0 = {c: ((), ()) for c in CHANNELS}
            pe = self.norm_events(o)
            for ch, ev in pe:
                q0[ch] = (q0[ch][0] + (ev,), q0[ch][1])
            o.events = []
            js = JS(o, r0, q0, {})
            k = self.jkey(js)
            seen[k] = js
            work.append(js)
        import time as _time
        t_start = _time.time()
        budget = float(os.environ.get("JSV_PRODUCT_BUDGET_S", "1500"))
        while work:
            js = work.popleft()
            if _time.time() - t_start > budget:
                self.report("E2.undecided", "time-limit", "exploration of the parser product did not finish within %d s (model does not converge): undecided" % budget)
                break
            if len(seen) > self.max_states:
                self.report("E2.undecided", "state-limit", "joint state limit %d exceeded (model does not converge): undecided" % self.max_states)
                break
            for what in (("eof",) if js.ateof is not None else ("eof", "err", "char")):
                try:
                    self.step(js, what, seen, work)
                except Undecided as e:
                    self.report("E2.undecided", "undecided/%s" % short(str(e)), "undecided (failing closed): %s at %s" % (e, e.site), js)
        self.states = len(seen)
        return self

    def step(self, js, what, seen, work):
        pm = self.pm
        sym, outs = pm.resume(js.p, what)
        for kind, o in outs:
            self.transitions += 1
            if what == "char":
                dom = o.cons.get(sym.id)
                if dom is None:
                    raise Undecided("input character symbol lost its domain")
                parts = self.ref.split(js.r, dom)
            else:
                parts = [None]
            for part in parts:
                o2 = o if len(parts) == 1 else copy_state(o)
                if part is not None:
                    o2.cons[sym.id] = part
                    letter = ("char", part, sym)
                else:
                    letter = (what,)
                self.joint(js, letter, kind, o2, seen, work)

    def find_unit(self, pst, digits):
        """The folded symbol in P's state defined over exactly these digit symbols (or None)."""
        ids = {d.id for d in digits}
        for sid, info in pst.syminfo.items():
            d = info.get("def")
            if d is not None and _syms_of(d) == ids and sid in pst.cons:
                return Sym(sid), d
        return None, None

    def joint(self, js, letter, kind, o, seen, work, rout=None):
        ref = self.ref
        if js.ateof is not None:
            # the iterator is assumed fused: None again; the reference result is the stored one
            ro = js.ateof.rout
            rout = type(ro)(ro.state, [], ro.final)
        if rout is None:
            rout = ref.step(js.r, letter)
        wl = letter + ((None,) if letter[0] == "char" else ())
        # ---- \uXXXX completed on the reference side: bring in P's view of the unit ----------------
        if rout.final is None and rout.state.ctl[0] == "S" and rout.state.ctl[2] == "unit":
            digits = rout.state.ctl[3]
            href = ref.hex4(digits)
            unit, udef = self.find_unit(o, digits)
            pf = self.p_final(o) if kind != "read" else None
            if unit is None:
                # P never examined the value: look for the raw expression in its state
                raise Undecided("the implementation does not classify the \\u escape value in this step")
            self.stats["hex4_checked"] += 1
            if not self.expr_equal(o, udef, href):
                bad = self.last_counterexample or {}
                self.report("C02.str", "hex4", "the value accumulated for \\uXXXX differs from h3*4096+h2*256+h1*16+h0", js, o,
                            witness="digits %s" % "".join(chr(bad.get(d.id, 0x3f)) for d in digits))
                return
            udom = o.cons[unit.id]
            for cls in ref.UNIT_CLASSES:
                part = iset.inter(udom, cls)
                if iset.is_empty(part):
                    continue
                o3 = copy_state(o)
                o3.cons[unit.id] = part
                r3 = ref.finish_unit(rout.state, unit, part)
                r3.events = rout.events + r3.events
                l3 = ("char", letter[1], letter[2], part)
                self.joint2(js, l3, kind, o3, r3, seen, work)
            return
        self.joint2(js, wl, kind, o, rout, seen, work)

    def joint2(self, js, letter, kind, o, rout, seen, work):
        # ---- reference says: unspecified -----------------------------------------------------------------
        if rout.final is not None and rout.final[0] == "dontcare":
            self.infos.append("unspecified configuration not constrained (%s); model witness %r" % (rout.final[1], self.witness(js, letter)))
            return
        pf = self.p_final(o) if kind != "read" else None
        wit = lambda: self.witness(js, letter)
        if pf is not None and pf[0] == "panic":
            info = pf[1]
            inst = self.it.p.inst[info["inst"]]
            self.report("C03.panic", "panic/%s/%s" % (inst["name"], info["kind"]),
                        "a panic is reachable while parsing: %s in %s" % (info["kind"], inst["name"]),
                        js, None, witness=wit())
            self.sites.setdefault("panic", set()).add(self.it.p.loc(info["inst"], info["bb"]))
            return
        if pf is not None and pf[0] == "other":
            self.report("C01.lang", "outcome/%r" % (pf[1],), "unexpected outcome of the parser model: %r" % (pf[1],), js, o, witness=wit())
            return
        # ---- final on the reference side ---------------------------------------------------------------------
        if rout.final is not None:
            if kind == "read" and letter[0] == "eof":
                # the parser pulls again after the iterator returned None: allowed; it must then finish
                # without consuming anything else (iterator assumed fused)
                done = js.ateof if js.ateof is not None else RDone(rout)
                self.presweep(o, done, js.q)
                q = self.push_events(js.q, self.norm_events(o), rout.events)
                o.events = []
                q, omap, err = self.drain(js, o, q, js.omap)
                if err is not None:
                    self.report(rule_of_channel(err[0]), "events/%s/%s" % (err[0], short(err[1])), err[1], js, o, witness=wit())
                    return
                nj = JS(o, done, q, omap, js, letter, js.depth + 1, ateof=done)
                k = self.jkey(nj)
                if k not in seen:
                    seen[k] = nj
                    work.append(nj)
                return
            if kind == "read":
                if rout.final[0] == "accept":
                    self.report("C01.lang", "reads-past-end", "the parser keeps reading where the reference accepts", js, o, witness=wit())
                else:
                    for rule in ("C01.lang", "C07.unexp" if rout.final[1][0] == "Unexpected" else ("C07.utf8" if rout.final[1][0] == "Stream" else "C07.surr")):
                        self.report(rule, "accepts-prefix/%s" % (rout.final[1][0],),
                                    "the parser continues where the reference rejects with %s: it accepts an invalid prefix / reports the error later" % (rout.final[1][0],),
                                    js, o, witness=wit())
                return
            if rout.final[0] == "accept":
                if pf[0] != "accept":
                    self.report("C01.lang", "rejects-valid/%s" % (pf[1],), "the parser rejects (%s) a text the reference accepts" % (pf[1],), js, o, witness=wit())
                    return
                # all events must match at acceptance
                self.pm.sweep_codemap(o, final=True)
                q = self.push_events(js.q, self.norm_events(o), rout.events)
                q, omap, err = self.drain(js, o, q, js.omap)
                if err is not None:
                    self.report(rule_of_channel(err[0]), "events/%s/%s" % (err[0], short(err[1])), err[1], js, o, witness=wit())
                    return
                left = [(c, q[c]) for c in CHANNELS if q[c][0] or q[c][1]]
                if left:
                    c, (pq, rq) = left[0]
                    self.report(rule_of_channel(c), "events-left/%s/%s" % (c, short(show_ev((pq or rq)[0]))),
                                "at acceptance unmatched %s events remain: implementation %s, reference %s" % (
                                    c, [show_ev(e) for e in pq[:3]], [show_ev(e) for e in rq[:3]]), js, o, witness=wit())
                    return
                tv = self.tr_obj(omap, pf[1])
                if tv != rout.final[1]:
                    self.report("C02.struct", "root-value", "the returned value %s is not the document's root value %s" % (show_ev(pf[1]), show_ev(rout.final[1])), js, o, witness=wit())
                    return
                cm = pf[2]
                ok_cm = isinstance(cm, Agg) and cm.fields and isinstance(cm.fields[0], Obj) and isinstance(o.heap.get(cm.fields[0].id), LogVec) and o.heap[cm.fields[0].id].role == "codemap"
                if not ok_cm:
                    self.report("C05.ts", "returned-codemap", "the returned code map is not the parser's code map", js, o, witness=wit())
                    return
                self.accepting += 1
                self.stats["accept_paths"] += 1
                if len(self.samples) < 12:
                    self.samples.append({"accepts": wit()})
                return
            # reference rejects
            spec = rout.final[1]
            if pf[0] == "accept":
                self.report("C01.lang", "accepts-invalid/%s" % spec[0], "the parser accepts a text the reference rejects (%s)" % (spec[0],), js, o, witness=wit())
                return
            why = self.cmp_error(o, pf, spec)
            if why is not None:
                rule = "C07.unexp" if spec[0] in ("Unexpected",) else ("C07.utf8" if spec[0] == "Stream" else "C07.surr")
                if pf[1] != spec[0] and "accept" in spec[0]:
                    rule = "C01.lang"
                self.report(rule, "error/%s/%s" % (spec[0], short(why)), why, js, o, witness=wit())
                return
            self.errors += 1
            self.stats["error_sites"].add((spec[0], self.it.site(js.p)))
            if len(self.samples) < 24 and self.errors % 37 == 1:
                self.samples.append({"rejects": wit(), "error": spec[0]})
            return
        # ---- reference continues ---------------------------------------------------------------------------------
        if kind != "read":
            if pf[0] == "accept":
                self.report("C01.lang", "accepts-early", "the parser returns Ok where the reference still expects input", js, o, witness=wit())
            else:
                for rule in ("C01.lang", "C07.unexp"):
                    self.report(rule, "rejects-valid/%s" % (pf[1],), "the parser rejects (%s) an input the reference can still extend to a valid text (or it reports the error before the first offending character)" % (pf[1],), js, o, witness=wit())
            return
        depth = len(rout.state.stack)
        self.presweep(o, rout.state, js.q)
        q = self.push_events(js.q, self.norm_events(o), rout.events)
        o.events = []
        q, omap, err = self.drain(js, o, q, js.omap)
        if err is not None:
            self.report(rule_of_channel(err[0]), "events/%s/%s" % (err[0], short(err[1])), err[1], js, o, witness=wit())
            return
        if depth > self.K:
            self.cut_depth += 1
            return
        nj = JS(o, rout.state, q, omap, js, letter, js.depth + 1)
        k = self.jkey(nj)
        if k not in seen:
            seen[k] = nj
            work.append(nj)

    def push_events(self, q, pe, re_):
        q = {c: (list(q[c][0]), list(q[c][1])) for c in CHANNELS}
        for ch, ev in pe:
            q[ch][0].append(ev)
        for ch, ev in re_:
            q[ch][1].append(ev)
        return {c: (tuple(q[c][0]), tuple(q[c][1])) for c in CHANNELS}


def rule_of_channel(c):
    return {"frag": "C05.span", "str": "C02.str", "num": "C02.num", "arr": "C02.struct", "ent": "C02.struct"}[c]


def short(s):
    s = str(s)
    # strip volatile numbers so that keys are stable
    import re as _re
    s = _re.sub(r"#\d+|\$\d+|\d{2,}", "#", s)
    return s[:90]


def show_ev(e):
    return repr(e)


def copy_state(o):
    s = o.copy()
    s.outcome = o.outcome
    return s


def pick(dom):
    """A representative character of a class (printable if possible)."""
    for lo, hi in dom:
        for v in range(lo, min(hi, lo + 200) + 1):
            if 0x21 <= v < 0x7F and chr(v) not in "\\\"":
                return chr(v)
    v = iset.lo(dom)
    if v == 0x20:
        return " "
    if v in (0x22, 0x5C):
        return chr(v)
    return "\\u{%x}" % v
