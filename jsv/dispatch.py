"""Value-level dispatch of the printer (C04.tokens / C04.num / C04.lockstep top level / C08):
what `Value::fmt_with`, `<Value as PrintWithSize>::fmt_with_size` and `Value::pre_compute_size`
do per variant, with the container emitters, string_literal, the number's Display and the
size pre-computations as recorded cut points."""
import re

from . import iset, summ, tables
from .absint import Agg, Conc, Expr, Interp, Obj, Ref, State, Str, Sym, Top, Undecided, UNIT
from .pmodel import role_of
from .printer import _role
from .summ import FmtLib, Lib, LogVec, ret_ty


def variants_of_value(P):
    for t in P.types:
        if t.get("name") == "json_syntax::Value" and t["k"] == "adt":
            return t
    raise Undecided("type json_syntax::Value not found")


def mk_value(P, st, vt, vi):
    v = vt["variants"][vi]
    fields = []
    for f in v["fields"]:
        ft = P.types[f["ty"]]
        if ft["k"] == "bool":
            fields.append(st.fresh_sym(iset.BOOL, kind="the-bool"))
        else:
            fields.append(Top(f["ty"], "payload"))
    return Agg(vt["id"], vi, fields)


def run_variant(P, fn_rx, vi, extra_args):
    """Interpret the function on Value variant vi. Returns (interp, outs, value, arg refs)."""
    insts = [i for i in P.inst if re.search(fn_rx, i["name"])]
    if len(insts) != 1:
        raise Undecided("instance %s: %d matches" % (fn_rx, len(insts)))
    inst = insts[0]
    it = Interp(P)
    Lib(_role).install(it)
    FmtLib().install(it)
    S = it.summaries
    name = lambda rx: (lambda i, _rx=re.compile(rx): bool(_rx.search(i["name"])))
    path = lambda rx: (lambda i, _rx=re.compile(rx): bool(_rx.search(i["path"])))

    def ident(st, v):
        for _ in range(5):
            if isinstance(v, Ref):
                try:
                    v = it.read_path(st, v.base, v.proj)
                except Exception:  # noqa
                    return repr(v)
            else:
                break
        return v

    def ev(tag, nargs_ok=None, ret=None):
        def f(it_, st_, i_, args, call):
            snap = []
            for a in args:
                try:
                    snap.append(it_.read_path(st_, a.base, a.proj) if isinstance(a, Ref) else a)
                except Exception:  # noqa
                    snap.append(None)
            st_.emit(tag, tuple(ident(st_, a) if k == 0 else a for k, a in enumerate(args)), tuple(snap))
            r = ret(it_, st_, call) if ret else Agg(ret_ty(it_, call), 0, (UNIT,))
            return r
        return f

    okunit = None
    S.insert(0, (name(r"^json_syntax::print::string_literal$"), ev("strlit")))
    S.insert(0, (name(r"^<json_number::NumberBuf<.*> as std::fmt::Display>::fmt$|^<json_syntax::Number as std::fmt::Display>::fmt$"), ev("number")))
    S.insert(0, (name(r"^<std::vec::Vec<json_syntax::Value> as json_syntax::print::PrintWithSize>::fmt_with_size$"), ev("print_array")))
    S.insert(0, (name(r"^<json_syntax::Object as json_syntax::print::PrintWithSize>::fmt_with_size$"), ev("print_object")))
    S.insert(0, (name(r"^json_syntax::print::printed_string_size$"), ev("string_size", ret=lambda it_, st_, c: st_.fresh_sym(iset.full(64, False), kind="strsize"))))
    S.insert(0, (name(r"^json_syntax::print::pre_compute_array_size::<"), ev("pre_array", ret=lambda it_, st_, c: Top(ret_ty(it_, c), "array-size"))))
    S.insert(0, (name(r"^json_syntax::print::pre_compute_object_size::<"), ev("pre_object", ret=lambda it_, st_, c: Top(ret_ty(it_, c), "object-size"))))
    S.insert(0, (name(r"^<json_syntax::Value as json_syntax::print::PrecomputeSize>::pre_compute_size$") if "PrecomputeSize" not in fn_rx else (lambda i: False),
                 ev("pre_value", ret=lambda it_, st_, c: Top(ret_ty(it_, c), "value-size"))))
    S.insert(0, (name(r"^json_syntax::Value::count::<"), ev("count", ret=lambda it_, st_, c: st_.fresh_sym(iset.full(64, False), kind="count"))))
    S.insert(0, (path(r"^smallstr::string::SmallString::<A>::as_str$|^<smallstr::string::SmallString<A> as std::ops::Deref>::deref$|^<json_number::NumberBuf<B> as std::ops::Deref>::deref$|^json_syntax::Number::as_str$|^json_number::Number::as_str$"),
                 lambda it_, st_, i_, a, c: a[0]))
    S.insert(0, (path(r"^core::str::<impl str>::len$"), lambda it_, st_, i_, a, c: Expr("strlen", (Conc(id(ident(st_, a[0])) % 1000003),), (64, False)) if False else Top(None, "len-of:%s" % getattr(ident(st_, a[0]), "tag", "?"))))
    S.insert(0, (path(r"^<std::slice::Iter<'a, T> as std::iter::Iterator>::map$|^core::slice::<impl \[T\]>::iter$|^json_syntax::Object::iter$"), lambda it_, st_, i_, a, c: Top(ret_ty(it_, c), "entries-iter")))
    st = State()
    vt = variants_of_value(P)
    val = mk_value(P, st, vt, vi)
    cell = st.new_obj(val)
    args = [Ref(("H", cell.id), ())]
    refs = {}
    for nm, v in extra_args(st, inst):
        refs[nm] = v
        args.append(v)
    it.push_frame(st, inst["id"], args, None, None)
    outs = it.run(st)
    return it, outs, val, refs, vt["variants"][vi]["name"]
