"""C06 — Object is an insertion-ordered multimap whose key index never goes stale (structural,
necessary clauses; equivalence with the list model over all histories is not decided)."""
import itertools
import re

from .. import shape, static
from ..absint import Agg, Conc, Obj, Ref, Sym, Top, Undecided
from ..summ import AVec

LEVEL = "other"

OBJ = "json_syntax::object::Object"
ENTRY_VEC = r"std::vec::Vec::<json_syntax::object::Entry<[^>]*>>"
MUTATORS = re.compile(r"^std::vec::Vec::<T, A>::(push|insert|remove|swap_remove|clear|truncate|drain|retain|retain_mut|dedup_by|dedup_by_key|pop|append|split_off|extend_from_slice|resize|set_len|sort|sort_by|sort_by_key)$"
                      r"|^(core|std)::slice::<impl \[T\]>::(sort|sort_by|sort_by_key|sort_unstable|sort_unstable_by|sort_unstable_by_key|swap|reverse|rotate_left|rotate_right|fill|copy_from_slice|clone_from_slice)$")

# reviewed set of functions that structurally modify `entries`, with the index maintenance each owes
WRITERS = {
    "json_syntax::Object::push_entry": "push",
    "json_syntax::Object::push_entry_front": "insert0",
    "json_syntax::Object::remove_at": "remove",
    "json_syntax::Object::sort": "sort",
    "json_syntax::Object::canonicalize_with": "sort",
    "json_syntax::Object::insert": "replace-same-key",
    "json_syntax::Object::insert_front": "replace-same-key",
}


def run(ctx, res):
    res.rules_run += ["C06.encaps (entries / indexes private; no public signature exposes &mut Entry, &mut Key or &mut Vec<Entry>)",
                      "C06.writers (the functions that structurally modify `entries` are exactly the reviewed set)",
                      "C06.shift (shift_down decrements exactly the positions > index, shift_up increments exactly those >= index, representative and all others, every bucket visited)",
                      "C06.sorted (Indexes::insert keeps the representative minimal and `other` sorted; Indexes::remove promotes the smallest remaining position with an order-preserving removal)",
                      "C06.drop (each removal iterator has a Drop impl that drains it; their next removes through remove_at only)"]
    encaps(ctx, res)
    writers(ctx, res)
    shift(ctx, res)
    sorted_rule(ctx, res)
    sort_order_rule(ctx, res)
    drop_rule(ctx, res)
    model_rule(ctx, res)
    res.notes.append("not decided: equivalence with the ordered-list model over all operation histories; hash/equality coherence of Q, Key and hashbrown (dependencies)")


def crate_insts(P):
    return [i for i in P.inst if i["crate"] == "json_syntax" and i.get("has_mir")]


def encaps(ctx, res):
    I = ctx.I
    a = I.adt(OBJ)
    for f in a["variants"][0]["fields"]:
        res.ob(f["vis"] != "pub", "C06.encaps", "C06.encaps/field/" + f["name"], "Object.%s is public: the entry list and its index can be desynchronised from outside" % f["name"],
               sample={"field": f["name"], "visibility": f["vis"]})
    bad = re.compile(r"&(?:'\w+ )?mut (json_syntax::)?(object::)?Entry\b|&(?:'\w+ )?mut [\w:]*SmallString<\[u8; (json_syntax::)?(object::)?KEY_CAPACITY\]>|&(?:'\w+ )?mut [\w:]*Key\b|&(?:'\w+ )?mut (std::vec::)?Vec<(json_syntax::)?(object::)?Entry|&(?:'\w+ )?mut \[(json_syntax::)?(object::)?Entry")
    n = 0
    for f in I.fns:
        if not f["pub"]:
            continue
        if f.get("impl_self", "").startswith(("json_syntax::object::Object", "json_syntax::Value", "json_syntax::object::IterMut", "json_syntax::object::Values")) or "Object" in f["path"]:
            n += 1
            res.ob(not bad.search(f["output"]), "C06.encaps", "C06.encaps/signature/" + f["path"], "public function %s returns %s: keys or whole entries of an Object can be mutated behind the index" % (f["path"], f["output"]))
    res.count("public_signatures_scanned", n)
    res.floor("C06.encaps", "public_signatures_scanned", 30)


def entry_vec_mutations(P, inst):
    """Call sites in `inst` that structurally modify a Vec<Entry> / [Entry]."""
    out = []
    for bi, c, t in static.calls(P, inst):
        if c is None:
            continue
        if MUTATORS.search(c["path"]) and re.search(r"json_syntax::object::Entry<", c["name"]):
            out.append((bi, c, t))
    return out


def writers(ctx, res):
    P = ctx.P
    seen = {}
    for inst in crate_insts(P):
        for bi, c, t in entry_vec_mutations(P, inst):
            seen.setdefault(inst["path"], set()).add(c["path"].rsplit("::", 1)[-1])
    for path, ops in sorted(seen.items()):
        ok = path in WRITERS or path.startswith("json_syntax::Object::from_vec") or "::{closure" in path and path.split("::{closure")[0] in WRITERS
        res.ob(ok, "C06.writers", "C06.writers/" + path, "%s modifies the entry list (%s) but is not in the reviewed set of writers: its index maintenance has not been checked" % (path, ", ".join(sorted(ops))),
               sample={"writer": path, "operations": sorted(ops)})
    res.count("entry_list_writers", len(seen))
    res.floor("C06.writers", "entry_list_writers", 4)
    # whole-entry replacement through mem::swap / mem::replace
    for inst in crate_insts(P):
        for bi, c, t in static.calls(P, inst):
            if c is not None and c["path"] in ("std::mem::swap", "std::mem::replace") and re.search(r"json_syntax::object::Entry<", c["name"]):
                ok = inst["path"] in ("json_syntax::Object::insert", "json_syntax::Object::insert_front")
                res.ob(ok, "C06.writers", "C06.writers/replace/" + inst["path"], "%s replaces a whole entry (%s) outside insert / insert_front" % (inst["path"], c["path"]),
                       sample={"whole_entry_replacement_in": inst["path"]})


def find_fn(P, path):
    r = [i for i in P.inst if i["path"] == path and i.get("has_mir")]
    return r[0] if r else None


def call_blocks(P, inst, rx):
    return [(bi, c, t) for bi, c, t in static.calls(P, inst) if c is not None and (re.search(rx, c["path"]) or re.search(rx, c["name"]))]


def dominates(dom, a, b):
    return a in dom[b]


def const_arg(t, i):
    a = t["args"][i]
    if "const" in a and a["const"].get("k") == "int":
        return int(a["const"]["v"])
    return None


def pair(ctx, res, only=None):
    """`only`: restrict to the named writer rows (other properties reuse the rows they depend on)."""
    P = ctx.P
    rule = "C06.pair"
    want = lambda name: only is None or name in only

    def need(path):
        f = find_fn(P, path)
        if f is None:
            res.violation(rule, "%s/missing/%s" % (rule, path), "function %s not found in the program (anchor lost)" % path)
        return f

    IM = "^json_syntax::object::index_map::IndexMap::<S>::"
    # push_entry: len -> push -> insert(entries, that len)
    f = need("json_syntax::Object::push_entry") if want("push_entry") else None
    if f:
        dom = static.dominators(f)
        push = call_blocks(P, f, r"^std::vec::Vec::<T, A>::push$")
        ins = call_blocks(P, f, IM + "insert$")
        ok = len(push) == 1 and len(ins) == 1 and dominates(dom, push[0][0], ins[0][0])
        res.ob(ok, rule, rule + "/push_entry/order", "push_entry must push the entry and then index it (push dominates IndexMap::insert)", sample={"writer": "push_entry", "order": "Vec::push, IndexMap::insert"})
        if ok:
            o = static.origin(f, ins[0][2]["args"][2])
            res.ob(o[0] == "call" and o[1] == "std::vec::Vec::<T, A>::len" and dominates(dom, [bi for bi, c, t in static.calls(P, f) if t is o[2]][0], push[0][0]), rule, rule + "/push_entry/position",
                   "push_entry must index the new entry at the pre-push length (position argument comes from %r)" % (o[:2],), sample={"writer": "push_entry", "position": "entries.len() before the push"})
    # push_entry_front: insert(0) -> shift_up(0) -> insert(.., 0)
    f = need("json_syntax::Object::push_entry_front") if want("push_entry_front") else None
    if f:
        dom = static.dominators(f)
        vi = call_blocks(P, f, r"^std::vec::Vec::<T, A>::insert$")
        su = call_blocks(P, f, IM + "shift_up$")
        ins = call_blocks(P, f, IM + "insert$")
        ok = len(vi) == 1 and len(su) == 1 and len(ins) == 1 and dominates(dom, vi[0][0], su[0][0]) and dominates(dom, su[0][0], ins[0][0])
        res.ob(ok, rule, rule + "/push_entry_front/order", "push_entry_front must insert at the front, shift every recorded position up, then index position 0 (found Vec::insert x%d, shift_up x%d, IndexMap::insert x%d)" % (len(vi), len(su), len(ins)),
               sample={"writer": "push_entry_front", "order": "Vec::insert(0), shift_up(0), IndexMap::insert(0)"})
        if ok:
            res.ob(const_arg(vi[0][2], 1) == 0 and const_arg(su[0][2], 1) == 0 and const_arg(ins[0][2], 2) == 0, rule, rule + "/push_entry_front/position",
                   "push_entry_front: positions must all be 0 (Vec::insert %r, shift_up %r, IndexMap::insert %r)" % (const_arg(vi[0][2], 1), const_arg(su[0][2], 1), const_arg(ins[0][2], 2)))
    # remove_at: guard; IndexMap::remove -> shift_down -> Vec::remove, same index
    f = need("json_syntax::Object::remove_at") if want("remove_at") else None
    if f:
        dom = static.dominators(f)
        rm = call_blocks(P, f, IM + "remove$")
        sd = call_blocks(P, f, IM + "shift_down$")
        vr = call_blocks(P, f, r"^std::vec::Vec::<T, A>::remove$")
        ok = len(rm) == 1 and len(sd) == 1 and len(vr) == 1 and dominates(dom, rm[0][0], sd[0][0]) and dominates(dom, sd[0][0], vr[0][0])
        res.ob(ok, rule, rule + "/remove_at/order", "remove_at must un-index the position (it hashes through entries[index]) before removing the entry, and shift the later positions down (IndexMap::remove x%d, shift_down x%d, Vec::remove x%d)" % (len(rm), len(sd), len(vr)),
               sample={"writer": "remove_at", "order": "IndexMap::remove, shift_down, Vec::remove"})
        if ok:
            os_ = [static.origin(f, rm[0][2]["args"][2]), static.origin(f, sd[0][2]["args"][1]), static.origin(f, vr[0][2]["args"][1])]
            res.ob(all(o[0] == "param" and o[1] == 2 and not o[2] for o in os_), rule, rule + "/remove_at/position", "remove_at: the three calls must use the `index` argument unchanged (%r)" % (os_,))
            # guard: a comparison index < len dominates the calls
            lens = call_blocks(P, f, r"^std::vec::Vec::<T, A>::len$")
            res.ob(len(lens) >= 1 and dominates(dom, lens[0][0], rm[0][0]), rule, rule + "/remove_at/guard", "remove_at must check the index against the length first")
    # sort / canonicalize_with: sort_by -> clear -> re-insert every position
    for path in ("json_syntax::Object::sort", "json_syntax::Object::canonicalize_with"):
        if not want(path.rsplit("::", 1)[-1]):
            continue
        f = find_fn(P, path)
        if f is None:
            if path.endswith("::sort"):
                need(path)
            continue
        sorts = call_blocks(P, f, r"^(core|std)::slice::<impl \[T\]>::sort(_unstable)?(_by|_by_key|_by_cached_key)?$|^std::vec::Vec::<T, A>::sort")
        delegated = call_blocks(P, f, r"^json_syntax::Object::sort$")
        if not sorts and delegated:
            res.ob(True, rule, rule + "/%s/delegates" % path.rsplit("::", 1)[-1], "", sample={"writer": path, "sorts_through": "Object::sort"})
            continue
        dom = static.dominators(f)
        cl = call_blocks(P, f, IM + "clear$")
        ins = call_blocks(P, f, IM + "insert$")
        name = path.rsplit("::", 1)[-1]
        ok = bool(sorts) and len(cl) == 1 and len(ins) >= 1 and all(dominates(dom, s[0], cl[0][0]) for s in sorts) and all(dominates(dom, cl[0][0], i[0]) for i in ins)
        res.ob(ok, rule, rule + "/%s/order" % name, "%s reorders the entries: it must afterwards clear the index and re-insert every position (sorts x%d, IndexMap::clear x%d, IndexMap::insert x%d; every sort must dominate the clear, the clear every insert)" % (
            name, len(sorts), len(cl), len(ins)), sample={"writer": name, "order": "sort_by, IndexMap::clear, IndexMap::insert for 0..len"})
        if ok:
            rng = [o for o in (static.origin(f, i[2]["args"][2]) for i in ins)]
            res.ob(loop_over_len(P, f), rule, rule + "/%s/all-positions" % name, "%s must re-insert every position 0..entries.len()" % name)
    # from_vec
    f = find_fn(P, "json_syntax::Object::from_vec") if want("from_vec") else None
    if f is None:
        if want("from_vec"):
            need("json_syntax::Object::from_vec")
    else:
        ins = call_blocks(P, f, IM + "insert$")
        muts = entry_vec_mutations(P, f)
        res.ob(len(ins) == 1 and loop_over_len(P, f) and not muts, rule, rule + "/from_vec", "from_vec must keep the given entries as they are (no %s) and index every position 0..len (IndexMap::insert x%d)" % (
            [c["path"].rsplit("::", 1)[-1] for _, c, _ in muts], len(ins)), sample={"writer": "from_vec", "indexes": "every position, entries untouched"})
    # insert / insert_front: the replaced position is obtained from a lookup of the same key
    f = need("json_syntax::Object::insert") if want("insert") else None
    if f:
        io = call_blocks(P, f, r"^json_syntax::Object::index_of$")
        sw = call_blocks(P, f, r"^std::mem::swap$")
        ok = len(io) == 1 and len(sw) == 1 and dominates(static.dominators(f), io[0][0], sw[0][0])
        res.ob(ok, rule, rule + "/insert/lookup", "insert must replace the entry only at a position returned by index_of for the same key", sample={"writer": "insert", "replaces_at": "index_of(&key)"})
        if ok:
            o = static.origin(f, io[0][2]["args"][1])
            res.ob(o[0] == "param" and o[1] == 2, rule, rule + "/insert/key", "insert looks up another key than the one it inserts (%r)" % (o,))


def loop_over_len(P, f):
    """A `for i in 0..<Vec<Entry>>::len()` loop exists in f (Range built from 0 and a len call)."""
    for bi, b in enumerate(f["blocks"]):
        for s in b["s"]:
            if s["k"] == "assign" and s["r"]["k"] == "agg" and s["r"].get("name") == "std::ops::Range":
                ops = s["r"]["ops"]
                if "const" in ops[0] and ops[0]["const"].get("v") in ("0", 0):
                    o = static.origin(f, ops[1])
                    if o[0] == "call" and o[1] == "std::vec::Vec::<T, A>::len":
                        return True
    return False


def shift(ctx, res):
    P = ctx.P
    rule = "C06.shift"
    for name, pred, delta in (("shift_down", lambda x, i: x > i, -1), ("shift_up", lambda x, i: x >= i, +1)):
        try:
            inst = shape.find_inst(P, r"^json_syntax::object::index_map::Indexes::%s$" % name)
        except Undecided as e:
            res.violation(rule, "%s/%s/missing" % (rule, name), str(e))
            continue
        ity = P.types[inst["locals"][1]]["to"]
        # positions around the pivot: every combination of rep and two others in {4, 5, 6} against index 5
        cases = 0
        for rep in (3, 4, 5, 6):
            for others in ((), (5,), (6, 7), (4, 5, 6), (7, 9)):
                if any(o <= rep for o in others):
                    continue
                sh = shape.Shape(P)
                vec = sh.st.new_obj(AVec(tuple(Conc(o) for o in others), "other"))
                me = sh.st.new_obj(Agg(ity, 0, (Conc(rep), vec)))
                try:
                    outs = sh.run(inst, [Ref(("H", me.id), ()), Conc(5)])
                except Undecided as e:
                    res.violation(rule, "%s/%s/undecided" % (rule, name), "undecided: %s" % e)
                    return
                cases += 1
                if len(outs) != 1 or outs[0].outcome[0] != "return":
                    res.violation(rule, "%s/%s/outcome" % (rule, name), "%s(5) on rep=%d others=%r: %s" % (name, rep, others, [o.outcome[0] for o in outs]))
                    continue
                o = outs[0]
                got_rep = o.heap[me.id].fields[0]
                got_oth = o.heap[vec.id].items
                want_rep = rep + delta if pred(rep, 5) else rep
                want_oth = tuple(Conc(x + delta if pred(x, 5) else x) for x in others)
                res.ob(got_rep == Conc(want_rep) and got_oth == want_oth, rule, "%s/%s/rep=%d/others=%s" % (rule, name, rep, "-".join(map(str, others)) or "none"),
                       "%s(5) turns (rep=%d, others=%r) into (rep=%r, others=%r); expected (rep=%d, others=%r)" % (name, rep, others, got_rep, got_oth, want_rep, [w.v for w in want_oth]),
                       sample={"fn": name, "rep": rep, "others": list(others), "after": [want_rep, [w.v for w in want_oth]]} if rep == 4 and others == (4, 5, 6)[1:] else None)
        res.count("shift_cases", cases)
        # map level: every bucket visited, same index passed through
        try:
            m = shape.find_inst(P, r"^json_syntax::object::index_map::IndexMap::%s$" % name)
            # (the call and the table iteration may sit in the function itself, in a closure it builds or in a private helper of
            # the crate it goes through)
            scope = [P.inst[i] for i in P.reachable([m["id"]], stop=lambda i_: i_["crate"] != "json_syntax" or i_["name"].endswith("Indexes::" + name))
                     if P.inst[i]["crate"] == "json_syntax" and not P.inst[i]["name"].endswith("Indexes::" + name) and P.inst[i].get("has_mir")]
            cs = [(bi, c, t, f_) for f_ in scope for bi, c, t in static.calls(P, f_) if c is not None and c["name"].endswith("Indexes::" + name)]
            its = [(bi, c, t) for f_ in scope for bi, c, t in static.calls(P, f_) if c is not None and re.search(r"RawTable::<.*>::iter$", c["name"])]
            ok = len(cs) == 1 and len(its) == 1
            res.ob(ok, rule, "%s/%s/map" % (rule, name), "IndexMap::%s must apply Indexes::%s to every bucket of the table (calls x%d, table iterations x%d)" % (name, name, len(cs), len(its)))
            if ok:
                site_fn = cs[0][3]
                o = static.origin(site_fn, cs[0][2]["args"][1])
                if site_fn["id"] == m["id"]:
                    okarg = o[0] == "param" and o[1] == 2
                else:
                    # the call sits in a closure built by IndexMap::shift_*: the index must come from the closure's environment,
                    # and the only integer the function can capture is its own `index` parameter
                    cap = [l for l in range(1, m.get("arg_count", 0) + 1) if P.types[m["locals"][l]]["k"] == "int"]
                    okarg = site_fn["name"].startswith(m["name"] + "::{closure") and o[0] == "param" and o[1] == 1 and cap == [2]
                res.ob(okarg, rule, "%s/%s/map-arg" % (rule, name), "IndexMap::%s passes another index down (%r)" % (name, o))
        except Undecided as e:
            res.violation(rule, "%s/%s/map-missing" % (rule, name), str(e))
    res.floor(rule, "shift_cases", 20)


def sorted_rule(ctx, res, insert_only=False):
    P = ctx.P
    rule = "C06.sorted"
    try:
        ins = shape.find_inst(P, r"^json_syntax::object::index_map::Indexes::insert$")
        rem = shape.find_inst(P, r"^json_syntax::object::index_map::Indexes::remove$")
    except Undecided as e:
        res.violation(rule, rule + "/missing", str(e))
        return
    ity = P.types[ins["locals"][1]]["to"]
    n = 0
    for rep, others in ((5, ()), (5, (7,)), (5, (7, 9)), (5, (6, 8, 10))):
        for x in (2, 5, 6, 7, 8, 9, 11):
            sh = shape.Shape(P)
            vec = sh.st.new_obj(AVec(tuple(Conc(o) for o in others), "other"))
            me = sh.st.new_obj(Agg(ity, 0, (Conc(rep), vec)))
            try:
                outs = sh.run(ins, [Ref(("H", me.id), ()), Conc(x)])
            except Undecided as e:
                res.violation(rule, rule + "/insert/undecided", "undecided: %s" % e)
                return
            n += 1
            if len(outs) != 1 or outs[0].outcome[0] != "return":
                res.violation(rule, rule + "/insert/outcome", "Indexes::insert(%d) on rep=%d others=%r: %s" % (x, rep, others, [o.outcome[:2] for o in outs]))
                continue
            o = outs[0]
            allpos = sorted(set((rep,) + others + (x,)))
            got = (o.heap[me.id].fields[0], o.heap[vec.id].items)
            want = (Conc(allpos[0]), tuple(Conc(v) for v in allpos[1:]))
            res.ob(got == want, rule, "%s/insert/rep=%d/others=%s/x=%d" % (rule, rep, "-".join(map(str, others)) or "none", x),
                   "Indexes::insert(%d) turns (rep=%d, others=%r) into (rep=%r, others=%r): the representative must be the smallest position and the others sorted without repetition" % (x, rep, others, got[0], got[1]),
                   sample={"insert": x, "before": [rep, list(others)], "after": allpos} if (rep, others, x) == (5, (7, 9), 8) else None)
    for rep, others in ((5, ()), (5, (7,)), (5, (7, 9)), (5, (6, 8, 10, 12))) if not insert_only else ():
        for x in (5,) + others + (99,):
            sh = shape.Shape(P)
            vec = sh.st.new_obj(AVec(tuple(Conc(o) for o in others), "other"))
            me = sh.st.new_obj(Agg(ity, 0, (Conc(rep), vec)))
            try:
                outs = sh.run(rem, [Ref(("H", me.id), ()), Conc(x)])
            except Undecided as e:
                res.violation(rule, rule + "/remove/undecided", "undecided: %s" % e)
                return
            n += 1
            if len(outs) != 1 or outs[0].outcome[0] != "return":
                res.violation(rule, rule + "/remove/outcome", "Indexes::remove(%d) on rep=%d others=%r: %s" % (x, rep, others, [o.outcome[:2] for o in outs]))
                continue
            o = outs[0]
            allpos = [p for p in (rep,) + others if p != x]
            if x == rep and not others:
                want = (Conc(rep), (), Conc(0))  # last position: not removed, signalled with false
            else:
                want = (Conc(allpos[0]), tuple(Conc(v) for v in allpos[1:]), Conc(1))
            got = (o.heap[me.id].fields[0], o.heap[vec.id].items, o.outcome[1])
            res.ob(got == want, rule, "%s/remove/rep=%d/others=%s/x=%d" % (rule, rep, "-".join(map(str, others)) or "none", x),
                   "Indexes::remove(%d) turns (rep=%d, others=%r) into (rep=%r, others=%r) returning %r: the smallest remaining position must become the representative, the rest stay sorted, and only the removal of the last position returns false" % (
                       x, rep, others, got[0], got[1], got[2]), sample={"remove": x, "before": [rep, list(others)], "after": allpos} if (rep, x) == (5, 5) and len(others) == 4 else None)
    res.count("index_bucket_cases", n)
    res.floor(rule, "index_bucket_cases", 40 if not insert_only else 28)
    # (a former call-site rule on the needle of the binary search is gone: the cases above decide what Indexes::insert does,
    # however it searches)
    # map-level removal erases the bucket when the last position goes
    if insert_only:
        return
    try:
        mr = shape.find_inst(P, r"^json_syntax::object::index_map::IndexMap::remove$")
        er = [(bi, c, t) for bi, c, t in static.calls(P, mr) if c is not None and re.search(r"RawTable::<.*>::remove$", c["name"])]
        ir = [(bi, c, t) for bi, c, t in static.calls(P, mr) if c is not None and c["name"].endswith("Indexes::remove")]
        res.ob(len(er) == 1 and len(ir) == 1, rule, rule + "/erase", "IndexMap::remove must erase the bucket when Indexes::remove signals the last position")
    except Undecided as e:
        res.violation(rule, rule + "/erase-missing", str(e))


def sort_order_rule(ctx, res):
    """Object::sort orders by key and breaks ties by value (its documentation): the comparator passed to the sort is
    interpreted with the key comparison and the value comparison as recorded cut points."""
    P = ctx.P
    rule = "C06.sortorder"
    cl = [i for i in P.inst if i["path"].startswith("json_syntax::Object::sort::{closure#0}") and i.get("has_mir")]
    if len(cl) != 1:
        res.violation(rule, rule + "/missing", "the comparator closure of Object::sort was not found (%d candidates): the order it sorts by is undecided" % len(cl))
        return
    inst = cl[0]
    et = [t for t in P.types if t.get("name") == "json_syntax::object::Entry" and t["s"] == "json_syntax::object::Entry<smallstr::string::SmallString<[u8; 16]>>"]
    if len(et) != 1:
        res.violation(rule, rule + "/anchors", "Entry type not found")
        return
    sh = shape.Shape(P)
    sh.cut(r"^<json_syntax::Value as std::cmp::(Ord>::cmp|PartialOrd>::partial_cmp)$|^<json_syntax::Value as locspan::Stripped(Partial)?Ord>::stripped_(partial_)?cmp$", "valcmp", ret=lambda it, st, c, a_: Top(shape.ret_ty(it, c), "R"))
    ka, va, kb, vb = Top(None, "ka"), Top(None, "va"), Top(None, "kb"), Top(None, "vb")
    a = sh.cell(Agg(et[0]["id"], 0, (ka, va)))
    b = sh.cell(Agg(et[0]["id"], 0, (kb, vb)))
    envt = inst["locals"][1]
    envt = P.types[envt]["to"] if P.types[envt]["k"] in ("ref", "ptr") else envt
    try:
        outs = sh.run(inst, [sh.cell(Agg(envt, 0, ())), a, b])
    except Undecided as e:
        res.violation(rule, rule + "/undecided", "undecided while interpreting the comparator of Object::sort: %s" % e, site=P.loc(inst["id"]))
        return
    results = []
    ok = True
    why = ""
    for o in outs:
        if not o.outcome or o.outcome[0] != "return":
            ok, why = False, "a path of the comparator does not return (%r)" % (o.outcome,)
            break
        keyc = [e for e in o.events if e[0] == "ext" and re.search(r"SmallString<.*> as std::cmp::(Ord>::cmp|PartialOrd>::partial_cmp)$", e[3])]
        valc = [e for e in o.events if e[0] == "valcmp"]
        if len(keyc) != 1 or tuple(keyc[0][2]) != (ka, kb):
            ok, why = False, "the keys of the two entries are not compared exactly once, left with right (%s)" % [(e[3][-50:], e[2]) for e in keyc]
            break
        rv = o.outcome[1]
        if valc:
            if len(valc) != 1 or tuple(valc[0][2]) != (va, vb) or not (isinstance(rv, Top) and rv.tag == "R"):
                ok, why = False, "on equal keys the result is not the comparison of the two values, left with right (%r, returns %r)" % ([e[2] for e in valc], rv)
                break
            results.append("values")
        else:
            if isinstance(rv, Top) and isinstance(rv.tag, str) and rv.tag.startswith("ext:") and "cmp" in rv.tag:
                ok, why = False, "the comparator returns the comparison of the keys alone: entries with the same key are not ordered by value"
                break
            if not isinstance(rv, Agg):
                ok, why = False, "result %r" % (rv,)
                break
            results.append(P.types[rv.ty]["variants"][rv.variant]["name"])
    if ok and sorted(results) != ["Greater", "Less", "values"]:
        ok, why = False, "the comparator's outcomes are %s; expected Less / Greater from the keys and the value comparison on equal keys (ties must be broken by value)" % sorted(results)
    res.ob(ok, rule, rule + "/comparator", "Object::sort: %s" % why, site=P.loc(inst["id"]), sample={"sort_comparator": "key, then value on equal keys"})


def drop_rule(ctx, res):
    P = ctx.P
    I = ctx.I
    rule = "C06.drop"
    for it_name in ("RemovedByInsertion", "RemovedByInsertFront", "RemovedEntries"):
        adt = "json_syntax::object::" + it_name
        impls = I.impls_of(trait="std::ops::Drop", self_adt=adt)
        res.ob(len(impls) == 1, rule, "%s/%s/impl" % (rule, it_name), "%s has no Drop impl: dropping it unconsumed would leave the remaining duplicates in the object" % it_name,
               sample={"iterator": it_name, "has_drop": True})
        drops = [i for i in P.inst if re.search(r"^<json_syntax::object::%s<.*> as std::ops::Drop>::drop$" % it_name, i["name"])]
        nexts = [i for i in P.inst if re.search(r"^<json_syntax::object::%s<.*> as std::iter::Iterator>::next$" % it_name, i["name"])]
        if not drops or not nexts:
            res.violation(rule, "%s/%s/missing" % (rule, it_name), "Drop::drop / Iterator::next of %s not found in the program" % it_name)
            continue
        reach = P.reachable([drops[0]["id"]])
        res.ob(any(n["id"] in reach for n in nexts), rule, "%s/%s/drains" % (rule, it_name), "Drop for %s does not run the iterator to its end" % it_name)
        # ... to its *end*: an exhausting adaptor (last / count / for_each / fold) on the iterator itself, or `next` called in a loop
        for d in drops:
            exhausting = [c for bi, c, t in static.calls(P, d) if c is not None and re.search(r"^std::iter::Iterator::(last|count|for_each|fold)$", c["path"])]
            looped = False
            for bi, c, t in static.calls(P, d):
                if c is not None and (c["id"] in [n["id"] for n in nexts] or re.search(r"as std::iter::Iterator>::next$", c["name"])):
                    after = set()
                    for sb in static.successors(d, bi):
                        after |= static.reachable_blocks(d, sb)
                    looped = looped or bi in after
            res.ob(bool(exhausting) or looped, rule, "%s/%s/exhausts" % (rule, it_name),
                   "Drop for %s advances the iterator at most once (no exhausting adaptor such as last(), no loop around next()): dropping it unconsumed leaves duplicates behind" % it_name,
                   sample={"iterator": it_name, "drop_exhausts_with": [c["path"] for c in exhausting] or "loop around next()"})
        # next() removes through remove_at only
        for n in nexts:
            r = P.reachable([n["id"]], stop=lambda i: i["path"] == "json_syntax::Object::remove_at")
            direct = [P.inst[i]["path"] for i in r if P.inst[i]["crate"] == "json_syntax" and entry_vec_mutations(P, P.inst[i]) and P.inst[i]["path"] != "json_syntax::Object::remove_at"]
            ra = any(P.inst[i]["path"] == "json_syntax::Object::remove_at" for i in r)
            res.ob(ra and not direct, rule, "%s/%s/removes-through" % (rule, it_name), "%s::next must remove entries through remove_at only (reaches remove_at: %s, other entry-list mutations: %r)" % (it_name, ra, direct),
                   sample={"iterator": it_name, "removes_through": "Object::remove_at"})


# ---- C06.model: every operation on every small object with an exact index -----------------------------------------------
def hash_rule(ctx, res, rule):
    """The model replaces the hash table by its specification; this rule covers the one thing between the IndexMap API and the
    buckets that the specification assumes: every hash the index-map module computes is the hash *of a key* (the entry's key on
    insertion, removal and re-hash; the lookup key - which must hash like the key - on a query).  Hashing anything else (the
    whole entry, the key's bytes) files or finds entries under a different hash once the table grows."""
    P = ctx.P
    key_ts = None
    for t in P.types:
        if t.get("name") == "json_syntax::object::Entry" and t["k"] == "adt" and "SmallString" in t["s"] and "Mapped" not in t["s"]:
            kf = [f for f in t["variants"][0]["fields"] if f["name"] == "key"]
            if kf:
                key_ts = P.types[kf[0]["ty"]]["s"]
    if key_ts is None:
        res.violation(rule, rule + "/missing", "cannot find the key type of Entry (anchor lost)")
        return
    allowed = {"&" + key_ts, "&str", "&std::string::String", key_ts, "str"}
    n = 0
    for inst in P.inst:
        if not inst["path"].startswith("json_syntax::object::index_map::") or not inst.get("has_mir"):
            continue
        for s in P.sites(inst["id"]):
            c = s["callee"]
            if c is None:
                continue
            ci = P.inst[c]
            m = re.search(r"as std::hash::BuildHasher>::hash_one::<(.*)>$", ci["name"])
            if not m and re.search(r"as std::hash::Hash>::hash(::<.*>)?$", ci["name"]):
                m = re.match(r"^<(.*) as std::hash::Hash>::hash", ci["name"])
            if not m:
                continue
            n += 1
            t = m.group(1)
            res.ob(t in allowed, rule, "%s/%s/%s" % (rule, inst["path"].rsplit("index_map::", 1)[-1], t),
                   "%s hashes a `%s`: the key index must hash the key itself (%s), or a lookup key that hashes like it" % (inst["name"][:90], t, key_ts),
                   site=P.loc(inst["id"], s["bb"]), sample={"hashes": t, "in": inst["path"]} if n <= 2 else None)
    res.count(rule + " sites", n)
    res.floor(rule, rule + " sites", 2)  # at least one hash on the lookup / insertion side and the re-hash callback


def model_rule(ctx, res, only_index=False, rule="C06.model", ops=None):
    """(only_index=True: report only operations that leave a stale index — what C15 depends on.)
    Induction step of "the object behaves like a plain ordered list and its key index never goes stale": from every
    abstract object with up to L entries (two keys, two values) whose index is exact, each mutating operation —
    interpreted from its MIR, the hash table replaced by its specification at the IndexMap API — yields the entries and
    the result the list model prescribes and an exact index again; every key-based query answers what a linear scan
    would.  Removal iterators are consumed 0, 1 and all times and then dropped."""
    from .. import objmodel
    from ..objmodel import KEYS, exact_index
    P = ctx.P
    want_op = lambda name: ops is None or name in ops
    res.rules_run.append(rule + " (push / push_front / remove_at / insert / insert_front / remove / remove_unique / sort / from_vec / extend and the key queries, interpreted on every object of up to %d entries over two keys and two values with an exact index: list semantics, results, index exact afterwards)" % (4 if ctx.tier == "thorough" else 3))
    L = 4 if ctx.tier == "thorough" else 3
    objs = objmodel.list_objects(L)
    # in the quick tier add the single-key objects of length 3 (buckets with two `other` positions) and a mixed one
    if L == 2:  # (kept for smaller bounds)
        objs += [tuple(("k", v) for v in vs) for vs in itertools.product((1, 2), repeat=3)] + [(("k", 1), ("m", 1), ("k", 2)), (("m", 2), ("k", 2), ("k", 1))]
    bad = {}
    n_cases = [0]

    def fail(op, what, detail):
        if only_index and what != "stale-index":
            return
        key = "%s/%s/%s" % (rule, op, what)
        if key not in bad:
            bad[key] = detail

    def world():
        W = objmodel.World(P)
        # for index exactness the order a sort produces is irrelevant: do not depend on the comparator being interpretable
        W.permute_instead_of_sort = only_index
        return W

    def root(name):
        if name not in P.roots:
            raise Undecided("harness root %s missing" % name)
        return P.inst[P.roots[name]]

    def one(outs, op):
        if len(outs) != 1 or not outs[0].outcome or outs[0].outcome[0] != "return":
            raise Undecided("%s: %d paths / outcomes %s" % (op, len(outs), [o.outcome[0] if o.outcome else None for o in outs][:3]))
        return outs[0]

    def check_state(W, o, cid, op, before, want_entries, args):
        ents, idx = W.read_object(o, cid)
        n_cases[0] += 1
        if want_entries is not None and ents != list(want_entries):
            fail(op, "entries", "%s on %s%s leaves %s, the list model gives %s" % (op, show(before), args, show(ents), show(want_entries)))
        if idx != exact_index(ents):
            fail(op, "stale-index", "%s on %s%s leaves the entries %s with the index %r (exact index: %r)" % (op, show(before), args, show(ents), idx, exact_index(ents)))
        return ents

    def show(l):
        return "{" + ", ".join("%s:%s" % e for e in l) + "}"

    def opt_entry(W, o, v):
        if not isinstance(v, Agg):
            raise Undecided("expected an Option<Entry>, got %r" % (v,))
        return None if v.variant == 0 else W.entry_kv(o, v.fields[0])

    def drive(W, o, itval, next_root, drop_root, consume):
        cell = o.new_obj(itval)
        iref = Ref(("H", cell.id), ())
        yielded = []
        for _ in range(consume):
            o = one(W.call(o, root(next_root), [iref]), next_root)
            yielded.append(opt_entry(W, o, o.outcome[1]))
        o = one(W.call(o, root(drop_root), [o.heap[cell.id]]), drop_root)
        return o, yielded

    try:
        for before in objs:
            before = list(before)
            keys = [k for k, _ in before]
            n = len(before)
            # -- push / push_front
            for k in KEYS:
                for op, want in (("push", before + [(k, 9)]), ("push_front", [(k, 9)] + before)):
                    if not want_op(op):
                        continue
                    W = world()
                    oref, cid = W.mk_object(W.sh.st, before)
                    o = one(W.call(W.sh.st, root("root_object_" + op), [oref, W.key(k), W.val(9)]), op)
                    check_state(W, o, cid, op, before, want, "(%s)" % k)
                    fresh = o.outcome[1]
                    if fresh != Conc(int(k not in keys)):
                        fail(op, "result", "%s(%s) on %s returns %r, the key was %s" % (op, k, show(before), fresh, "absent" if k not in keys else "present"))
            # -- remove_at
            for i in range(n + 2) if want_op("remove_at") else ():
                W = world()
                oref, cid = W.mk_object(W.sh.st, before)
                o = one(W.call(W.sh.st, root("root_object_remove_at"), [oref, Conc(i)]), "remove_at")
                want = before[:i] + before[i + 1:] if i < n else before
                check_state(W, o, cid, "remove_at", before, want, "(%d)" % i)
                got = opt_entry(W, o, o.outcome[1])
                if got != (before[i] if i < n else None):
                    fail("remove_at", "result", "remove_at(%d) on %s returns %r" % (i, show(before), got))
            # -- insert / insert_front / remove, consumed 0, 1, all times, then dropped
            for k in KEYS if (want_op("insert") or want_op("insert_front") or want_op("remove") or want_op("remove_unique")) else ():
                dups = [e for e in before if e[0] == k]
                for consume in sorted({0, 1, len(dups) + 1}):
                    # insert
                    W = world()
                    oref, cid = W.mk_object(W.sh.st, before)
                    o = one(W.call(W.sh.st, root("root_object_insert"), [oref, W.key(k), W.val(9)]), "insert")
                    rv = o.outcome[1]
                    if k in keys:
                        i0 = keys.index(k)
                        want = [(k, 9) if j == i0 else e for j, e in enumerate(before) if j == i0 or e[0] != k]
                        removed = [before[i0]] + [e for j, e in enumerate(before) if j != i0 and e[0] == k]
                        if not (isinstance(rv, Agg) and rv.variant == 1):
                            fail("insert", "result", "insert(%s) on %s with the key present returns None" % (k, show(before)))
                        else:
                            o, yielded = drive(W, o, rv.fields[0], "root_object_removed_by_insertion_next", "root_object_removed_by_insertion_drop", consume)
                            check_state(W, o, cid, "insert", before, want, "(%s), %d consumed" % (k, consume))
                            if yielded != (removed + [None] * consume)[:consume]:
                                fail("insert", "removed", "insert(%s) on %s yields %r, expected %r" % (k, show(before), yielded, (removed + [None] * consume)[:consume]))
                    else:
                        check_state(W, o, cid, "insert", before, before + [(k, 9)], "(%s)" % k)
                        if not (isinstance(rv, Agg) and rv.variant == 0):
                            fail("insert", "result", "insert(%s) on %s with a fresh key does not return None" % (k, show(before)))
                    # insert_front
                    W = world()
                    oref, cid = W.mk_object(W.sh.st, before)
                    o = one(W.call(W.sh.st, root("root_object_insert_front"), [oref, W.key(k), W.val(9)]), "insert_front")
                    o, yielded = drive(W, o, o.outcome[1], "root_object_removed_by_insert_front_next", "root_object_removed_by_insert_front_drop", consume)
                    check_state(W, o, cid, "insert_front", before, [(k, 9)] + [e for e in before if e[0] != k], "(%s), %d consumed" % (k, consume))
                    if yielded != (dups + [None] * consume)[:consume]:
                        fail("insert_front", "removed", "insert_front(%s) on %s yields %r, expected %r" % (k, show(before), yielded, (dups + [None] * consume)[:consume]))
                    # remove
                    W = world()
                    oref, cid = W.mk_object(W.sh.st, before)
                    o = one(W.call(W.sh.st, root("root_object_remove"), [oref, W.key(k)]), "remove")
                    o, yielded = drive(W, o, o.outcome[1], "root_object_removed_entries_next", "root_object_removed_entries_drop", consume)
                    check_state(W, o, cid, "remove", before, [e for e in before if e[0] != k], "(%s), %d consumed" % (k, consume))
                    if yielded != (dups + [None] * consume)[:consume]:
                        fail("remove", "removed", "remove(%s) on %s yields %r, expected %r" % (k, show(before), yielded, (dups + [None] * consume)[:consume]))
                # remove_unique
                W = world()
                oref, cid = W.mk_object(W.sh.st, before)
                o = one(W.call(W.sh.st, root("root_object_remove_unique"), [oref, W.key(k)]), "remove_unique")
                rv = o.outcome[1]
                if len(dups) >= 2:
                    # Err(Duplicate(first, second)); what is left of the object is not specified by the documentation
                    # (today every entry with the key is gone): only the index must stay exact
                    check_state(W, o, cid, "remove_unique", before, None, "(%s)" % k)
                    ok = isinstance(rv, Agg) and rv.variant == 1 and isinstance(rv.fields[0], Agg) and [W.entry_kv(o, x) for x in rv.fields[0].fields] == dups[:2]
                    if not ok:
                        fail("remove_unique", "result", "remove_unique(%s) on %s with duplicates must return Err(Duplicate(first, second)); got %r" % (k, show(before), rv))
                else:
                    check_state(W, o, cid, "remove_unique", before, [e for e in before if e[0] != k], "(%s)" % k)
                    ok = isinstance(rv, Agg) and rv.variant == 0 and opt_entry(W, o, rv.fields[0]) == (dups[0] if dups else None)
                    if not ok:
                        fail("remove_unique", "result", "remove_unique(%s) on %s returns %r" % (k, show(before), rv))
            # -- sort
            if want_op("sort"):
                W = world()
                oref, cid = W.mk_object(W.sh.st, before)
                o = one(W.call(W.sh.st, root("root_object_sort"), [oref]), "sort")
                check_state(W, o, cid, "sort", before, sorted(before) if not only_index else None, "")
            # -- bulk construction: from_vec keeps the entries and indexes every position
            if want_op("from_vec"):
                W = world()
                st = W.sh.st
                vec = st.new_obj(objmodel.AVec(tuple(W.entry(k, v) for k, v in before), "entries"))
                o = one(W.call(st, root("root_object_from_vec"), [vec]), "from_vec")
                cell = o.new_obj(o.outcome[1])
                check_state(W, o, cell.id, "from_vec", before, before, "")
            # -- bulk extension / collection: Extend and FromIterator, for entries and for (key, value) pairs, keep every
            #    element in order (push semantics: duplicates are preserved)
            if want_op("extend"):
                for added in ([], [("k", 8)], [("m", 8), ("k", 9)], [("k", 9), ("k", 9)]):
                    for kind in ("entries", "pairs"):
                        for form in ("extend", "from_iter"):
                            if form == "from_iter" and before:
                                continue
                            rname = "root_object_%s_%s" % (form, kind)
                            r = root(rname)
                            W = world()
                            st = W.sh.st
                            if kind == "entries":
                                items = tuple(W.entry(k, v) for k, v in added)
                            else:
                                vty = r["locals"][2 if form == "extend" else 1]
                                tty = P.types[vty]["targs"][0]
                                items = tuple(Agg(tty, 0, (W.key(k), W.val(v))) for k, v in added)
                            vec = st.new_obj(objmodel.AVec(items, "added"))
                            opn = "%s<%s>" % (form, kind)
                            if form == "extend":
                                oref, cid = W.mk_object(st, before)
                                o = one(W.call(st, r, [oref, vec]), opn)
                            else:
                                o = one(W.call(st, r, [vec]), opn)
                                cid = o.new_obj(o.outcome[1]).id
                            check_state(W, o, cid, opn, before, before + added, "(%s)" % show(added))
            # -- cloning: clone() gives the same entries with an exact index; clone_from() overwrites any target
            if want_op("clone"):
                W = world()
                st = W.sh.st
                oref, cid = W.mk_object(st, before)
                o = one(W.call(st, root("root_object_clone"), [oref]), "clone")
                ncell = o.new_obj(o.outcome[1])
                check_state(W, o, ncell.id, "clone", before, before, "")
                check_state(W, o, cid, "clone (the original)", before, before, "")
                for target in ([], [("k", 7)], [("m", 7), ("k", 7), ("m", 8)]):
                    W = world()
                    st = W.sh.st
                    sref, sid = W.mk_object(st, before)
                    tref, tid = W.mk_object(st, target)
                    o = one(W.call(st, root("root_object_clone_from"), [tref, sref]), "clone_from")
                    check_state(W, o, tid, "clone_from", target, before, "(from %s)" % show(before))
                    check_state(W, o, sid, "clone_from (the source)", before, before, "")
            # -- canonicalize_with (feature `canonicalize`): every value canonicalised, then members ordered by the UTF-16 form
            #    of their keys (ties by value), index exact.  The same objects with the keys replaced by a pair on which
            #    code-point order and UTF-16 order disagree.
            if want_op("canonicalize_with") and "root_object_canonicalize_with" in P.roots:
                ren = {"k": objmodel.UKEYS[0], "m": objmodel.UKEYS[1]}
                for variant, cform in [(v_, f_) for v_ in (before, [(ren[k], v) for k, v in before]) for f_ in ("canonicalize_with", "canonicalize")]:
                    if cform == "canonicalize" and "root_object_canonicalize" not in P.roots:
                        raise Undecided("harness root root_object_canonicalize missing")
                    W = world()
                    if not (ops is not None and not only_index):
                        W.permute_instead_of_sort = True  # C06 / C15 look at the index only: the canonical order is C09's / C10's
                    st = W.sh.st
                    oref, cid = W.mk_object(st, variant)
                    buf = st.new_obj(Top(None, "ryu-buffer"))
                    if cform == "canonicalize_with":
                        o = one(W.call(st, root("root_object_canonicalize_with"), [oref, Ref(("H", buf.id), ())]), "canonicalize_with")
                    else:
                        # the buffer-less entry point must do the same
                        o = one(W.call(st, root("root_object_canonicalize"), [oref]), "canonicalize")
                    strict_canon = ops is not None and not only_index  # C09 / C10: order and coverage; C06 / C15: the index only
                    want = sorted(variant, key=lambda e: (objmodel.U16_RANK[e[0]], e[1])) if strict_canon else None
                    check_state(W, o, cid, cform, variant, want, "")
                    canon = [e[1] for e in o.events if e[0] == "canon"]
                    vals = sorted(v for _, v in variant)
                    got = sorted(c.tag[1] for c in canon if isinstance(c, Top) and isinstance(c.tag, tuple) and c.tag[0] == "val")
                    if got != vals and strict_canon:
                        fail(cform, "values", "%s on %s canonicalises the values %r, expected each of %r once" % (cform, show(variant), got, vals))
            # -- queries
            for k in (KEYS + ("z",)) if want_op("queries") else ():
                pos = [i for i, e in enumerate(before) if e[0] == k]
                W = world()
                oref, cid = W.mk_object(W.sh.st, before)
                for qroot, want in (("root_object_index_of", pos[0] if pos else None), ("root_object_redundant_index_of", pos[1] if len(pos) > 1 else None)):
                    o = one(W.call(W.sh.st, root(qroot), [oref, W.key(k)]), qroot)
                    rv = o.outcome[1]
                    got = None if (isinstance(rv, Agg) and rv.variant == 0) else (rv.fields[0].v if isinstance(rv, Agg) and isinstance(rv.fields[0], Conc) else repr(rv))
                    n_cases[0] += 1
                    if got != want:
                        fail(qroot[12:], "result", "%s(%s) on %s returns %r, a linear scan gives %r" % (qroot[12:], k, show(before), got, want))
                o = one(W.call(W.sh.st, root("root_object_contains_key"), [oref, W.key(k)]), "contains_key")
                n_cases[0] += 1
                if o.outcome[1] != Conc(int(bool(pos))):
                    fail("contains_key", "result", "contains_key(%s) on %s returns %r" % (k, show(before), o.outcome[1]))
                # get_entries_with_index: all positions, in order
                o = one(W.call(W.sh.st, root("root_object_get_entries_with_index"), [oref, W.key(k)]), "get_entries_with_index")
                cell = o.new_obj(o.outcome[1])
                got = []
                for _ in range(len(pos) + 1):
                    o = one(W.call(o, root("root_object_entries_with_index_next"), [Ref(("H", cell.id), ())]), "entries_with_index_next")
                    rv = o.outcome[1]
                    if isinstance(rv, Agg) and rv.variant == 1:
                        t = rv.fields[0]
                        got.append((t.fields[0].v if isinstance(t.fields[0], Conc) else repr(t.fields[0]), W.entry_kv(o, t.fields[1])))
                    else:
                        got.append(None)
                n_cases[0] += 1
                want = [(i, before[i]) for i in pos] + [None]
                if got != want:
                    fail("get_entries_with_index", "result", "get_entries_with_index(%s) on %s yields %r, a linear scan gives %r" % (k, show(before), got, want))
    except Undecided as e:
        res.violation(rule, rule + "/undecided", "undecided while interpreting an Object operation on a small object: %s" % e)
        return
    res.count(rule + " objects", len(objs))
    res.count(rule + " cases", n_cases[0])
    res.floor(rule, rule + " cases", 3000 if ops is None else 80)
    for key, detail in sorted(bad.items()):
        res.violation(rule, key, detail)
    if not bad:
        res.ob(True, rule, rule + "/all", "", sample={"objects": len(objs), "cases": n_cases[0], "verdict": "list semantics, results and exact index on all of them"})
    if not rule.startswith("C09"):
        hash_rule(ctx, res, rule + ".hash")
    if want_op("remove_unique"):
        res.infos.append("remove_unique on a duplicated key returns Err(Duplicate(first, second)) and, because the removal iterator's Drop finishes the removal, deletes every entry with that key; the documentation does not say what is left, so only the index is checked in that case")
