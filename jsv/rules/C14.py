"""C14 — equality, ordering and hashing depend only on content."""
import re

from .. import shape, static
from ..absint import Agg, Conc, Ref, Top, Undecided

LEVEL = "other"

TRAITS = {
    "PartialEq": ("std::cmp::PartialEq", "eq", "root_object_eq"),
    "PartialOrd": ("std::cmp::PartialOrd", "partial_cmp", "root_object_partial_cmp"),
    "Ord": ("std::cmp::Ord", "cmp", "root_object_cmp"),
    "Hash": ("std::hash::Hash", "hash", "root_object_hash"),
}


def run(ctx, res):
    res.rules_run += ["C14.fields (PartialEq/PartialOrd/Ord/Hash for Object touch no field of their operands but `entries`)", "C14.sem (==, cmp, partial_cmp and hash of Object interpreted on every pair of small objects whose key indexes are wrong on purpose: the results are those of the entry lists - equality, lexicographic order by (key, value), Some(of it), a hash fed with the entries in order and nothing else)",
                      "C14.derive (Value and Entry carry compiler-derived PartialEq, Eq, PartialOrd, Ord, Hash, Clone; Object: Clone is derived, Eq is a marker impl)"]
    fields_rule(ctx, res)
    sem_rule(ctx, res)
    derive_rule(ctx, res)
    res.trusted.append("derived lexicographic impls over the same field order are mutually coherent given coherent components; Eq/Ord/Hash of NumberBuf / SmallString are dependencies")


def fields_rule(ctx, res):
    P = ctx.P
    for tname, (tpath, method, root) in TRAITS.items():
        key = "C14.fields/" + tname
        rx = r"^<json_syntax::Object as %s>::%s" % (re.escape(tpath), method)
        insts = [i for i in P.inst if re.search(rx, i["name"]) and "{closure" not in i["name"]]
        if not insts:
            res.violation("C14.fields", key + "/missing", "impl %s for Object: no instance of `%s` in the program (anchor lost)" % (tname, method))
            continue
        # a generic method (hash::<H>) may be instantiated several times: every instance is checked (same keys: the first
        # deviation is reported)
        for inst in insts:
            fields_one(P, res, tname, tpath, method, key, inst)
    # PartialOrd may legitimately be written as Some(self.entries.cmp(..)): accept Ord::cmp as its delegate
    res.floor("C14.fields", "object_impls", 3)


def fields_one(P, res, tname, tpath, method, key, inst):
    for _once in (0,):
        # field discipline: only `entries` of Object is touched
        acc = static.field_accesses(P, inst, "json_syntax::Object")
        touched = sorted(set(f for _, _, f, _ in acc))
        res.ob(set(touched) <= {"entries"}, "C14.fields", key + "/fields", "%s::%s for Object touches fields %r (no field but `entries` may be touched)" % (tname, method, touched),
               sample={"impl": tname, "fields_touched": touched})
        res.count("object_impls")


def sem_rule(ctx, res, rule="C14.sem"):
    """==, cmp, partial_cmp and hash of Object, interpreted on every pair of small objects (up to 2 entries over two keys and two
    values) whose key indexes are *wrong on purpose* (empty): the results must be those of the entry lists - equality of the
    lists, their lexicographic order by (key, value), Some(of that), and a hash fed with the entries in order and nothing else -
    whether the impls delegate to Vec<Entry> or spell the comparison out.  std's comparison / hashing of vectors and slices is
    modelled as what it is documented to be (element-wise, then the lengths), calling the element's own impl."""
    from .. import objmodel
    from ..absint import UNIT, CallThen
    from ..summ import AVec, ret_ty
    P = ctx.P
    need = ["root_object_eq", "root_object_cmp", "root_object_partial_cmp", "root_object_hash"]
    if any(r not in P.roots for r in need):
        res.violation(rule, rule + "/missing-root", "harness roots %r missing" % [r for r in need if r not in P.roots])
        return

    def elem_inst(trait, method):
        c = [i for i in P.inst if re.search(r"^<json_syntax::object::Entry<.*> as %s>::%s(::<.*>)?$" % (re.escape(trait), method), i["name"]) and i.get("has_mir")]
        if not c:
            raise Undecided("Entry's %s::%s is not in the program" % (trait, method))
        return c[0]["id"]

    def install(W):
        it = W.it

        def tagv(st, v):
            x = shape.deref(it, st, v, 4)
            return x.tag if isinstance(x, Top) else repr(x)

        def seq_eq(it_, st, inst, args, call):
            try:
                A, B = W.slice_items(st, args[0]), W.slice_items(st, args[1])
            except Undecided:
                return NotImplemented
            neg = inst["path"].endswith("::ne")
            if len(A) != len(B):
                return Conc(1 if neg else 0)
            ei = elem_inst("std::cmp::PartialEq", "eq")
            ra, rb = st.new_obj(AVec(tuple(A), "cmp-a")), st.new_obj(AVec(tuple(B), "cmp-b"))

            def step(it2, st2, k):
                if k == len(A):
                    return Conc(0 if neg else 1)

                def then(it3, st3, rv):
                    if not isinstance(rv, Conc):
                        raise Undecided("element comparison returned %r" % (rv,))
                    if rv.v == 0:
                        return Conc(1 if neg else 0)
                    return step(it3, st3, k + 1)
                return CallThen(ei, [Ref(("H", ra.id), (("el", k),)), Ref(("H", rb.id), (("el", k),))], then)
            return step(it_, st, 0)

        def seq_cmp(partial):
            def fn(it_, st, inst, args, call):
                try:
                    A, B = W.slice_items(st, args[0]), W.slice_items(st, args[1])
                except Undecided:
                    return NotImplemented
                rt = ret_ty(it_, call)
                oty = P.types[rt]["variants"][1]["fields"][0]["ty"] if partial else rt
                wrap = (lambda o: Agg(rt, 1, (o,))) if partial else (lambda o: o)
                ei = elem_inst("std::cmp::PartialOrd", "partial_cmp") if partial else elem_inst("std::cmp::Ord", "cmp")
                ra, rb = st.new_obj(AVec(tuple(A), "cmp-a")), st.new_obj(AVec(tuple(B), "cmp-b"))

                def step(it2, st2, k):
                    if k == min(len(A), len(B)):
                        return wrap(Agg(oty, 0 if len(A) < len(B) else (1 if len(A) == len(B) else 2), ()))

                    def then(it3, st3, rv):
                        o = rv.fields[0] if partial and isinstance(rv, Agg) and rv.variant == 1 else rv
                        if not isinstance(o, Agg):
                            raise Undecided("element ordering returned %r" % (rv,))
                        if o.variant != 1:
                            return wrap(Agg(oty, o.variant, ()))
                        return step(it3, st3, k + 1)
                    return CallThen(ei, [Ref(("H", ra.id), (("el", k),)), Ref(("H", rb.id), (("el", k),))], then)
                return step(it_, st, 0)
            return fn

        def seq_hash(it_, st, inst, args, call):
            try:
                A = W.slice_items(st, args[0])
            except Undecided:
                return NotImplemented
            st.emit("hash_len", len(A))
            hi = [i for i in P.inst if re.search(r"^<json_syntax::object::Entry<.*> as std::hash::Hash>::hash::<", i["name"]) and i.get("has_mir")]
            if not hi:
                raise Undecided("Entry's Hash::hash is not in the program")
            ra = st.new_obj(AVec(tuple(A), "hash-a"))

            def step(it2, st2, k):
                if k == len(A):
                    return UNIT
                return CallThen(hi[0]["id"], [Ref(("H", ra.id), (("el", k),)), args[1]], lambda it3, st3, rv: step(it3, st3, k + 1))
            return step(it_, st, 0)

        S = it.summaries
        nm = lambda rx: (lambda inst, _rx=re.compile(rx): bool(_rx.search(inst["path"])))
        S.insert(0, (nm(r"PartialEq<(std::vec::Vec<U, A2>|\[U\])>>::(eq|ne)$|PartialEq<\[U\]> for \[T\]>::(eq|ne)$|PartialEq<std::vec::Vec<U, A2>> for std::vec::Vec<T, A1>>::(eq|ne)$"), seq_eq))
        S.insert(0, (nm(r"^<std::vec::Vec<T, A> as std::cmp::Ord>::cmp$|^<\[T\] as std::cmp::Ord>::cmp$|impl std::cmp::Ord for \[T\]>::cmp$"), seq_cmp(False)))
        S.insert(0, (nm(r"^<std::vec::Vec<T, A1> as std::cmp::PartialOrd<std::vec::Vec<T, A2>>>::partial_cmp$|^<\[T\] as std::cmp::PartialOrd>::partial_cmp$|impl std::cmp::PartialOrd for \[T\]>::partial_cmp$"), seq_cmp(True)))
        S.insert(0, (nm(r"^<std::vec::Vec<T, A> as std::hash::Hash>::hash$|^<\[T\] as std::hash::Hash>::hash$|impl std::hash::Hash for \[T\]>::hash$"), seq_hash))
        sh = W.sh
        sh.cut(r"^<json_syntax::Value as std::cmp::PartialEq>::eq$", "val_eq", ret=lambda it_, st, c, a: Conc(int(tagv(st, a[0]) == tagv(st, a[1]))))

        def val_pcmp(it_, st, c, a):
            rt = shape.ret_ty(it_, c)
            oty = P.types[rt]["variants"][1]["fields"][0]["ty"]
            x, y = tagv(st, a[0])[1], tagv(st, a[1])[1]
            return Agg(rt, 1, (Agg(oty, 0 if x < y else (1 if x == y else 2), ()),))

        sh.cut(r"^<json_syntax::Value as std::cmp::PartialOrd>::partial_cmp$", "val_pcmp", ret=val_pcmp)
        sh.cut(r"^<json_syntax::Value as std::hash::Hash>::hash::<", "hash_val", ret=lambda it_, st, c, a: (st.emit("hash", tagv(st, a[0])), UNIT)[1])
        sh.cut(r"^<smallstr::string::SmallString<\[u8; 16\]> as std::hash::Hash>::hash::<", "hash_key", ret=lambda it_, st, c, a: (st.emit("hash", tagv(st, a[0])), UNIT)[1])

    objs = [list(o) for o in objmodel.list_objects(2)]
    rank = lambda ents: [(objmodel.CP_RANK[k], v) for k, v in ents]
    bad = {}
    n = 0
    try:
        for A in objs:
            for B in objs:
                for op in ("eq", "cmp", "partial_cmp"):
                    W = objmodel.World(P)
                    install(W)
                    st = W.sh.st
                    aref, _ = W.mk_object(st, A, index=objmodel.IdxModel())
                    bref, _ = W.mk_object(st, B, index=objmodel.IdxModel())
                    outs = W.call(st, P.inst[P.roots["root_object_" + op]], [aref, bref])
                    if len(outs) != 1 or outs[0].outcome[0] != "return":
                        raise Undecided("%s on %r / %r: %d paths (%s)" % (op, A, B, len(outs), [o.outcome[0] for o in outs][:3]))
                    rv = outs[0].outcome[1]
                    n += 1
                    if op == "eq":
                        ok = rv == Conc(int(A == B))
                    else:
                        o = rv.fields[0] if op == "partial_cmp" and isinstance(rv, Agg) and rv.variant == 1 else rv
                        want = 0 if rank(A) < rank(B) else (1 if rank(A) == rank(B) else 2)
                        ok = isinstance(o, Agg) and o.variant == want and (op == "cmp" or (isinstance(rv, Agg) and rv.variant == 1))
                    if not ok:
                        bad.setdefault("%s/%s" % (rule, op), "%s on %r and %r (with key indexes that do not describe them) returns %r: not the result on the entry lists" % (op, A, B, rv))
            W = objmodel.World(P)
            install(W)
            st = W.sh.st
            aref, _ = W.mk_object(st, A, index=objmodel.IdxModel())
            hs = Ref(("H", st.new_obj(Top(None, "the-hasher")).id), ())
            outs = W.call(st, P.inst[P.roots["root_object_hash"]], [aref, hs])
            if len(outs) != 1 or outs[0].outcome[0] != "return":
                raise Undecided("hash on %r: %d paths" % (A, len(outs)))
            fed = [e[1] for e in outs[0].events if e[0] == "hash"]
            want = [x for k, v in A for x in (("key", k), ("val", v))]
            n += 1
            if fed != want or [e for e in outs[0].events if e[0] == "ext"]:
                bad.setdefault(rule + "/hash", "hash on %r feeds the hasher %r, expected the entries in order %r and nothing else" % (A, fed, want))
    except Undecided as e:
        res.violation(rule, rule + "/undecided", "undecided while interpreting a comparison of two small objects: %s" % e)
        return
    res.count(rule + " cases", n)
    res.floor(rule, rule + " cases", 100)
    for k, d in sorted(bad.items()):
        res.violation(rule, k, d)
    if not bad:
        res.ob(True, rule, rule + "/all", "", sample={"pairs": len(objs) ** 2, "cases": n, "verdict": "==, cmp, partial_cmp and hash are those of the entry lists, with the key index ignored"})


def derive_rule(ctx, res):
    I = ctx.I
    need = ["std::clone::Clone", "std::cmp::PartialEq", "std::cmp::Eq", "std::cmp::PartialOrd", "std::cmp::Ord", "std::hash::Hash"]
    for adt in ("json_syntax::Value", "json_syntax::object::Entry"):
        for tr in need:
            impls = I.impls_of(trait=tr, self_adt=adt)
            ok = len(impls) == 1 and impls[0]["derived"]
            res.ob(ok, "C14.derive", "C14.derive/%s/%s" % (adt, tr.rsplit("::", 1)[-1]), "%s: impl %s is %s (must be the compiler-derived one, over all fields in declaration order)" % (
                adt, tr, "missing" if not impls else "hand-written" if not impls[0]["derived"] else "duplicated"),
                sample={"type": adt, "trait": tr, "derived": True})
    # clones equal their originals: Object::clone / clone_from interpreted on every small object (same entries, exact index) -
    # derived or hand-written
    from . import C06
    C06.model_rule(ctx, res, rule="C14.clone", ops={"clone"})
    impls = I.impls_of(trait="std::cmp::Eq", self_adt="json_syntax::object::Object")
    res.ob(len(impls) == 1 and not impls[0]["items"], "C14.derive", "C14.derive/Object/Eq", "Object: Eq is not a marker impl")
