"""C14 — equality, ordering and hashing depend only on content."""
import re

from .. import shape, static
from ..absint import Agg, Conc, Ref, Top, Undecided

LEVEL = "other"

TRAITS = {
    "PartialEq": ("std::cmp::PartialEq", "eq", "root_object_eq"),
    "PartialOrd": ("std::cmp::PartialOrd", "partial_cmp", "root_object_partial_cmp"),
    "Ord": ("std::cmp::Ord", "cmp", "root_object_cmp"),
    "Hash": ("std::hash::Hash", "hash", "root_object_hash"),
}


def run(ctx, res):
    res.rules_run += ["C14.fields (PartialEq/PartialOrd/Ord/Hash for Object touch `entries` of their operands only and delegate, unconditionally, to the same method of Vec<Entry>; partial_cmp = Some(cmp))",
                      "C14.derive (Value and Entry carry compiler-derived PartialEq, Eq, PartialOrd, Ord, Hash, Clone; Object: Clone is derived, Eq is a marker impl)"]
    fields_rule(ctx, res)
    derive_rule(ctx, res)
    res.trusted.append("derived lexicographic impls over the same field order are mutually coherent given coherent components; Eq/Ord/Hash of NumberBuf / SmallString are dependencies")


def fields_rule(ctx, res):
    P = ctx.P
    for tname, (tpath, method, root) in TRAITS.items():
        key = "C14.fields/" + tname
        rx = r"^<json_syntax::Object as %s>::%s" % (re.escape(tpath), method)
        insts = [i for i in P.inst if re.search(rx, i["name"]) and "{closure" not in i["name"]]
        if not insts:
            res.violation("C14.fields", key + "/missing", "impl %s for Object: no instance of `%s` in the program (anchor lost)" % (tname, method))
            continue
        # a generic method (hash::<H>) may be instantiated several times: every instance is checked (same keys: the first
        # deviation is reported)
        for inst in insts:
            fields_one(P, res, tname, tpath, method, key, inst)
    # PartialOrd may legitimately be written as Some(self.entries.cmp(..)): accept Ord::cmp as its delegate
    res.floor("C14.fields", "object_impls", 3)


def fields_one(P, res, tname, tpath, method, key, inst):
    for _once in (0,):
        # field discipline: only `entries` of Object is touched
        acc = static.field_accesses(P, inst, "json_syntax::Object")
        touched = sorted(set(f for _, _, f, _ in acc))
        res.ob(touched == ["entries"], "C14.fields", key + "/fields", "%s::%s for Object touches fields %r (must be `entries` only)" % (tname, method, touched),
               sample={"impl": tname, "fields_touched": touched})
        # delegation shape
        sh = shape.Shape(P)
        delegate = r"^(?=.*(%s|%s))(?=.*Vec<json_syntax::object::Entry<).*::%s(::<.*>)?$" % (re.escape(tpath), "std::cmp::Ord" if tname == "PartialOrd" else re.escape(tpath), method if tname != "PartialOrd" else "(partial_cmp|cmp)")
        sh.cut(delegate, "delegate", ret=lambda it, st, call, args: Top(shape.ret_ty(it, call), "delegate-result"))
        oty = P.types[inst["locals"][1]]["to"]
        a_entries, b_entries = Top(None, "a.entries"), Top(None, "b.entries")
        a = sh.cell(Agg(oty, 0, (a_entries, Top(None, "a.indexes"))))
        args = [a]
        if tname != "Hash":
            b = sh.cell(Agg(oty, 0, (b_entries, Top(None, "b.indexes"))))
            args.append(b)
        else:
            hs = sh.cell(Top(None, "hasher"))
            args.append(hs)
        try:
            outs = sh.run(inst, args)
        except Undecided as e:
            res.violation("C14.fields", key + "/undecided", "undecided: %s (%s)" % (e, e.site))
            continue
        ok = len(outs) == 1 and outs[0].outcome[0] == "return"
        res.ob(ok, "C14.fields", key + "/paths", "%s::%s for Object is not a single unconditional path (%d paths: %s)" % (tname, method, len(outs), [o.outcome[0] for o in outs]))
        if not ok:
            continue
        o = outs[0]
        ev = shape.events(o)
        good = len(ev) == 1 and ev[0][0] == "delegate"
        if good:
            snap = ev[0][2]
            good = snap[0] == a_entries and (snap[1] == b_entries if tname != "Hash" else ev[0][1][1] == hs)
        res.ob(good, "C14.fields", key + "/delegates", "%s::%s for Object does not delegate exactly once to Vec<Entry>::%s on the entries of its operands: %r" % (
            tname, method, method, [(e[0], e[3]) for e in ev]), sample={"impl": tname, "delegates_to": "Vec<Entry>::" + method})
        res.ob(not sh.unknown(), "C14.fields", key + "/other-calls", "%s::%s for Object calls something else: %r" % (tname, method, sh.unknown()))
        rv = o.outcome[1]
        if tname == "PartialOrd":
            good = isinstance(rv, Agg) and rv.variant == 1 and isinstance(rv.fields[0], Top) and rv.fields[0].tag == "delegate-result"
            # and the delegate must be the total comparison (Ord::cmp) or partial_cmp of the same vectors
            res.ob(good or (isinstance(rv, Top) and rv.tag == "delegate-result"), "C14.fields", key + "/result", "partial_cmp does not return the delegate's result: %r" % (rv,))
        elif tname != "Hash":
            res.ob(isinstance(rv, Top) and rv.tag == "delegate-result", "C14.fields", key + "/result", "%s does not return the delegate's result unchanged: %r" % (method, rv))
        res.count("object_impls")


def derive_rule(ctx, res):
    I = ctx.I
    need = ["std::clone::Clone", "std::cmp::PartialEq", "std::cmp::Eq", "std::cmp::PartialOrd", "std::cmp::Ord", "std::hash::Hash"]
    for adt in ("json_syntax::Value", "json_syntax::object::Entry"):
        for tr in need:
            impls = I.impls_of(trait=tr, self_adt=adt)
            ok = len(impls) == 1 and impls[0]["derived"]
            res.ob(ok, "C14.derive", "C14.derive/%s/%s" % (adt, tr.rsplit("::", 1)[-1]), "%s: impl %s is %s (must be the compiler-derived one, over all fields in declaration order)" % (
                adt, tr, "missing" if not impls else "hand-written" if not impls[0]["derived"] else "duplicated"),
                sample={"type": adt, "trait": tr, "derived": True})
    # clones equal their originals: Object::clone / clone_from interpreted on every small object (same entries, exact index) -
    # derived or hand-written
    from . import C06
    C06.model_rule(ctx, res, rule="C14.clone", ops={"clone"})
    impls = I.impls_of(trait="std::cmp::Eq", self_adt="json_syntax::object::Object")
    res.ob(len(impls) == 1 and not impls[0]["items"], "C14.derive", "C14.derive/Object/Eq", "Object: Eq is not a marker impl")
