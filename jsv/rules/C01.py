"""C01 — strict acceptance <=> RFC 8259 (see DESIGN.md section 3, C01)."""
from .. import entry, parsercheck
import re

from ..absint import Agg, Conc, Obj, Ref, Sym, Top, Undecided

LEVEL = "model_checking"


def run(ctx, res):
    res.rules_run += ["C01.lang (L(P(strict)) = L(R(strict)) on the product)", "C01.entry (every public entry point reaches the one core with the right parser record)"]
    parsercheck.apply(ctx, res, ["C01.", "E2."], strict_only=True)
    entry_rule(ctx, res)


ALL_ASPECTS = ("shape", "options", "fresh", "context", "source", "source-content", "adaptor-char", "adaptor-len", "tail-ok", "tail-err", "utf8")
ASPECTS = {
    # what each property needs from the entry points (a clause that a property does not state is not checked under its name)
    "C01.entry": ("shape", "options", "fresh", "context", "source", "adaptor-char", "tail-ok", "tail-verdict", "utf8"),
    # the value is the *document's* content only if every entry point feeds the core exactly the input's characters and
    # returns the core's value unchanged
    "C02.entry": ("source-content", "adaptor-char", "tail-ok"),
    # spans and error offsets are offsets *in the input*: the parser must read the input from its first character on (a trimmed
    # or otherwise shortened source shifts every offset), at offset 0, with every character's UTF-8 length recorded
    "C05.entry": ("fresh", "source", "adaptor-len", "tail-ok"),
    "C07.entry": ("shape", "fresh", "source", "adaptor-len", "tail-err"),
    # the leniency flags act inside the string scanner only: no entry point branches on them or decodes its input differently
    "C12.entry": ("options", "options-free"),
}


def entry_rule(ctx, res, rule="C01.entry", aspects=None, only_with_options=False, skip_roots=()):
    P = ctx.P
    A = set(aspects if aspects is not None else ASPECTS[rule])
    n = 0
    expected = len([1 for r, (ho, _) in entry.ENTRY_ROOTS.items() if (ho or not only_with_options) and r not in skip_roots])
    for root, (has_opts, kind) in sorted(entry.ENTRY_ROOTS.items()):
        if (only_with_options and not has_opts) or root in skip_roots:
            continue
        if root not in P.roots:
            res.violation(rule, rule + "/missing-root/" + root, "harness root %s is missing (anchor lost)" % root)
            continue
        try:
            it, outs, opt_syms = entry.run_entry(P, root, has_opts)
        except Undecided as e:
            res.violation(rule, rule + "/undecided/" + root, "undecided while interpreting %s: %s (%s)" % (root, e, e.site))
            continue
        cuts = [o for o in outs if o.outcome[0] == "cut"]
        others = [o for o in outs if o.outcome[0] != "cut"]
        key = rule + "/%s" % root[5:]
        if not cuts:
            res.violation(rule, key + "/shape", "%s never reaches the core parser (outcomes %s)" % (root, [o.outcome[0] for o in others]))
            continue
        if others and "shape" in A:
            res.violation(rule, key + "/shape", "%s has a path that does not go through the core parser (%d core calls, other outcomes %s): the entry point has a verdict of its own" % (
                root, len(cuts), [o.outcome[0] for o in others]))
            continue
        forms = []
        for pi, o in enumerate(cuts):
            pkey = key if len(cuts) == 1 else key + "/path%d" % pi
            args = o.outcome[2]
            pref = args[0]
            try:
                parser = it.read_path(o, pref.base, pref.proj)
            except Exception as e:  # noqa
                res.violation(rule, pkey + "/parser", "cannot read the parser record passed to the core: %s" % e)
                continue
            t = P.types[parser.ty]
            names = [f["name"] for f in t["variants"][0]["fields"]]
            fld = dict(zip(names, parser.fields))
            if "options" in A:
                o_val = fld.get("options")
                if has_opts:
                    ok = isinstance(o_val, Agg) and tuple(o_val.fields) == tuple(opt_syms)
                    if rule == "C01.entry" and not ok:
                        # for strict acceptance it is enough that strict options stay strict: unchanged, or the strict default
                        ok = isinstance(o_val, Agg) and tuple(o_val.fields) == (Conc(0), Conc(0))
                    res.ob(ok, rule, pkey + "/options", "%s does not pass its `options` argument unchanged to the parser (got %r)" % (root, o_val),
                           sample={"entry": root, "options": "caller's argument, unchanged"})
                else:
                    ok = isinstance(o_val, Agg) and tuple(o_val.fields) == (Conc(0), Conc(0))
                    res.ob(ok, rule, pkey + "/options", "%s must parse with strict default options (both flags false), parser record has %r" % (root, o_val),
                           sample={"entry": root, "options": "strict (false,false) from Options::default()"})
            if "options-free" in A and opt_syms:
                # no decision of the entry point depends on a leniency flag: on every path to the core both flags are unconstrained
                from .. import iset as _iset
                free = all(o.cons.get(sy.id) == _iset.BOOL for sy in opt_syms) and not any(_mentions_any(p_, opt_syms) for p_, _ in o.preds)
                res.ob(free, rule, pkey + "/options-free", "%s decides something on a leniency flag before the parser runs (path condition on the options: %r)" % (
                    root, [(sy.id, o.cons.get(sy.id)) for sy in opt_syms]), sample={"entry": root, "flags": "not consulted outside the parser"})
            if "fresh" in A:
                res.ob(isinstance(fld.get("pending"), Agg) and fld["pending"].variant == 0, rule, pkey + "/pending",
                       "%s: the lookahead slot of a fresh parser must be empty" % root)
                res.ob(fld.get("position") == Conc(0), rule, pkey + "/position", "%s: a fresh parser must start at byte offset 0 (got %r)" % (root, fld.get("position")))
            if "context" in A:
                cx = args[1]
                res.ob(isinstance(cx, Agg) and cx.variant == 0, rule, pkey + "/context", "%s: the root value must be parsed in Context::None (got %r)" % (root, cx))
            if A & {"source", "source-content", "utf8"}:
                # the character source: the whole input, nothing else
                src, fns = entry.peel_adaptors(P, fld.get("chars"))
                form, why, _ = entry.describe_source(P, src, fns, kind, Top(P.inst[P.roots[root]]["locals"][input_local(P, root)], "input"))
                forms.append(form)
                if "source-content" in A and "source" not in A and form == "str-trimmed":
                    # C02: trimming outside the document changes which texts are accepted (C01), not what an accepted text denotes
                    res.infos.append("%s: %s reads the trimmed input (accepted under %s: the value of an accepted document is unchanged)" % (rule, root, rule))
                    why = None
                res.ob(why is None, rule, pkey + "/source", "%s: %s" % (root, why), sample={"entry": root, "character_source": form})
                res.count("character_sources_analysed")
            if A & {"tail-ok", "tail-err", "tail-verdict"}:
                tail_rule(ctx, res, it, o, root, kind, pkey, pref, rule, A)
        if "source-content" in A and "source" not in A:
            # C02 speaks of successful parses only: every path that reaches the core must feed it the input's characters; it
            # is not C02's business whether an ill-formed input reaches the core at all
            pass
        if "source" in A:
            ok = sorted(set(forms)) in (["str-chars"], ["caller-iterator"], ["utf8-decode"], ["std-invalid", "std-valid"])
            res.ob(ok, rule, key + "/source-paths", "%s: the paths reaching the core are %s; expected one source, or the valid / ill-formed pair of a from_utf8 based decoder" % (root, sorted(forms)))
        n += 1
        res.count("entry_points_analysed")
        if A & {"adaptor-char", "adaptor-len"}:
            adaptor_rule(ctx, res, root, key, rule, A)
        if "utf8" in A and kind == "bytes":
            utf8_rule(ctx, res, root, key, forms)
    res.floor(rule, "entry_points_analysed", expected)
    if A & {"adaptor-char", "adaptor-len"}:
        res.floor(rule, "adaptors_analysed", expected)
    if A & {"source", "source-content"}:
        res.floor(rule, "character_sources_analysed", expected)
    if "utf8" in A:
        res.floor("C01.utf8", "byte_decoders_analysed", 2)
    if A & {"tail-ok", "tail-err", "tail-verdict"}:
        res.floor(rule, "core_result_shapes_analysed", expected)


def _mentions_any(e, syms):
    ids = set(s_.id for s_ in syms)
    from ..absint import Expr as _Expr
    if isinstance(e, Sym):
        return e.id in ids
    if isinstance(e, _Expr):
        return any(_mentions_any(a, syms) for a in e.args)
    return False


def input_local(P, root):
    """Index of the input parameter of a harness root (the first parameter that is not the options record)."""
    rinst = P.inst[P.roots[root]]
    for li in range(1, rinst["arg_count"] + 1):
        if P.types[rinst["locals"][li]].get("name") != "json_syntax::parse::Options":
            return li
    raise Undecided("no input parameter in %s" % root)


_UTF8_CACHE = {}


def utf8_rule(ctx, res, root, key, forms):
    """C01.utf8: byte input is decoded exactly as well-formed UTF-8.
    - a core::str::from_utf8 based source is well-formed by the contract of std (C01.entry/source checked the data flow);
    - utf8_decode::Decoder is modelled at byte level (jsv/utf8model.py) and compared with Unicode Table 3-7."""
    from .. import utf8model
    P = ctx.P
    res.count("byte_decoders_analysed")
    if sorted(set(forms)) == ["std-invalid", "std-valid"]:
        res.ob(True, "C01.utf8", key + "/utf8", "", sample={"entry": root, "decoder": "core::str::from_utf8 (trusted std contract): characters of the longest well-formed prefix, then one error item iff the input is ill-formed"})
        res.trusted.append("core::str::from_utf8 / Utf8Error::valid_up_to / str::chars implement Unicode well-formedness (std contract)")
        return
    if forms != ["utf8-decode"]:
        res.violation("C01.utf8", key + "/utf8/undecided", "%s: no model for the byte decoder (%s)" % (root, forms))
        return
    cands = [i for i in P.inst if re.match(r"^<utf8_decode::safe::Decoder<std::iter::Copied<std::slice::Iter<'_, u8>>> as std::iter::Iterator>::next$", i["name"])]
    if len(cands) != 1:
        res.violation("C01.utf8", key + "/utf8/undecided", "%s: decoder instance not found (%d)" % (root, len(cands)))
        return
    iid = cands[0]["id"]
    if iid not in _UTF8_CACHE:
        try:
            it, leaves, steps = utf8model.explore(P, iid)
            _UTF8_CACHE[iid] = utf8model.decide(it, leaves)
        except Undecided as e:
            _UTF8_CACHE[iid] = e
    r = _UTF8_CACHE[iid]
    if isinstance(r, Undecided):
        res.violation("C01.utf8", key + "/utf8/undecided", "%s: byte-level model of the decoder undecided: %s" % (root, r))
        return
    viol, stats = r
    for k, v in stats.items():
        if isinstance(v, int):
            res.analysed["utf8." + k] = v
    if not getattr(res, "_utf8_reported", False):
        res._utf8_reported = True
        for k, msg in viol:
            res.violation("C01.utf8", k, "%s [decoder behind parse_slice / parse_slice_with]" % msg, site=P.loc(iid))
    res.ob(True, "C01.utf8", key + "/utf8-model", "", sample={"entry": root, "decoder": "utf8_decode::Decoder", "byte_tuples_evaluated": stats["byte_tuples_evaluated"], "accepted": stats["accepted_sequences"]})



def tail_rule(ctx, res, it, o, root, kind, key, pref, rule="C01.entry", A=("tail-ok", "tail-err")):
    """What the entry point does once the core has returned: Ok(Meta(v, _)) -> Ok((v, parser.code_map)) [tail-ok]; every
    error variant is returned unchanged, except that the byte-slice entry points turn Stream(p, _) into InvalidUtf8(p)
    [tail-err]; or only that an error stays an error [tail-verdict]."""
    try:
        shapes = entry.core_result_shapes(it, o)
    except Undecided as e:
        res.violation(rule, key + "/tail-undecided", "%s: %s" % (root, e))
        return
    for name, val, payload in shapes:
        if name == "Ok" and "tail-ok" not in A:
            continue
        if name != "Ok" and not (set(A) & {"tail-err", "tail-verdict"}):
            continue
        try:
            outs = entry.run_tail(it, o, val)
            why = entry.describe_tail(it, root, kind, name, payload, outs, pref, o, verdict_only=(name != "Ok" and "tail-err" not in A))
        except Undecided as e:
            why = "undecided: %s" % e
        res.count("core_result_shapes_analysed")
        res.ob(why is None, rule, key + "/tail/" + name, "%s: %s" % (root, why),
               sample={"entry": root, "core_result": name, "returned": "unchanged" if not (kind == "bytes" and name == "Err(Stream)") else "InvalidUtf8(p)"})


def adaptor_rule(ctx, res, root, key, rule="C01.entry", A=("adaptor-char", "adaptor-len")):
    """Every adaptor between the caller's iterator and the core is the per-item transformation
    Ok(c) -> DecodedChar{c, len_utf8(c)}, Err(e) -> Err(e), None -> None (closure bodies interpreted).
    adaptor-char: items neither dropped nor altered (acceptance); adaptor-len: the recorded length is len_utf8 (offsets)."""
    P = ctx.P
    nexts = entry.find_next_instance(P, root)
    if not nexts:
        res.violation(rule, key + "/adaptor-shape", "%s: no input iterator found behind the parser" % root)
        return
    res.count("adaptors_analysed")
    for nx in sorted(nexts):
        adaptor_one(ctx, res, root, key if len(nexts) == 1 else key + "/" + P.inst[nx]["name"][:60], rule, A, nx)


def adaptor_one(ctx, res, root, key, rule, A, nx):
    P = ctx.P
    try:
        src, results = entry.check_adaptor(P, nx)
    except Undecided as e:
        res.violation(rule, key + "/adaptor-undecided", "%s: undecided while interpreting the input adaptor: %s" % (root, e))
        return
    if results and results[0][0] == "identity":
        res.ob(True, rule, key + "/adaptor", "", sample={"entry": root, "adaptor": "none (items are already DecodedChar)", "source": src})
        return
    it = entry.mk_interp(P)
    for shape, item, fo in results:
        why = entry.describe_adaptor_result(it, shape, item, fo, check_char="adaptor-char" in A, check_len="adaptor-len" in A)
        res.ob(why is None, rule, key + "/adaptor/" + shape, "%s: input adaptor over %s: %s" % (root, src, why),
               sample={"entry": root, "source": src, "shape": shape, "maps_to": "DecodedChar{c, len_utf8(c)} / passes through"})
