"""C01 — strict acceptance <=> RFC 8259 (see DESIGN.md section 3, C01)."""
from .. import entry, parsercheck
from ..absint import Agg, Conc, Obj, Ref, Sym, Top, Undecided

LEVEL = "model_checking"


def run(ctx, res):
    res.rules_run += ["C01.lang (L(P(strict)) = L(R(strict)) on the product)", "C01.entry (every public entry point reaches the one core with the right parser record)"]
    parsercheck.apply(ctx, res, ["C01.", "E2."], strict_only=True)
    entry_rule(ctx, res)


def entry_rule(ctx, res, rule="C01.entry", tail_only=False):
    P = ctx.P
    n = 0
    for root, (has_opts, kind) in sorted(entry.ENTRY_ROOTS.items()):
        if root not in P.roots:
            res.violation(rule, rule + "/missing-root/" + root, "harness root %s is missing (anchor lost)" % root)
            continue
        try:
            it, outs, opt_syms = entry.run_entry(P, root, has_opts)
        except Undecided as e:
            res.violation(rule, rule + "/undecided/" + root, "undecided while interpreting %s: %s (%s)" % (root, e, e.site))
            continue
        cuts = [o for o in outs if o.outcome[0] == "cut"]
        others = [o for o in outs if o.outcome[0] != "cut"]
        key = rule + "/%s" % root[5:]
        if len(cuts) != 1 or others:
            res.violation(rule, key + "/shape", "%s does not reach the core parser exactly once on a single path (%d core calls, other outcomes %s)" % (
                root, len(cuts), [o.outcome[0] for o in others]))
            continue
        o = cuts[0]
        args = o.outcome[2]
        pref = args[0]
        try:
            parser = it.read_path(o, pref.base, pref.proj)
        except Exception as e:  # noqa
            res.violation(rule, key + "/parser", "cannot read the parser record passed to the core: %s" % e)
            continue
        t = P.types[parser.ty]
        names = [f["name"] for f in t["variants"][0]["fields"]]
        fld = dict(zip(names, parser.fields))
        # options
        o_val = fld.get("options")
        if has_opts:
            ok = isinstance(o_val, Agg) and tuple(o_val.fields) == tuple(opt_syms)
            res.ob(ok, rule, key + "/options", "%s does not pass its `options` argument unchanged to the parser (got %r)" % (root, o_val),
                   sample={"entry": root, "options": "caller's argument, unchanged"})
        else:
            ok = isinstance(o_val, Agg) and tuple(o_val.fields) == (Conc(0), Conc(0))
            res.ob(ok, rule, key + "/options", "%s must parse with strict default options (both flags false), parser record has %r" % (root, o_val),
                   sample={"entry": root, "options": "strict (false,false) from Options::default()"})
        res.ob(isinstance(fld.get("pending"), Agg) and fld["pending"].variant == 0, rule, key + "/pending",
               "%s: the lookahead slot of a fresh parser must be empty" % root)
        res.ob(fld.get("position") == Conc(0), rule, key + "/position", "%s: a fresh parser must start at byte offset 0 (got %r)" % (root, fld.get("position")))
        # context argument: Context::None
        cx = args[1]
        res.ob(isinstance(cx, Agg) and cx.variant == 0, rule, key + "/context", "%s: the root value must be parsed in Context::None (got %r)" % (root, cx))
        n += 1
        res.count("entry_points_analysed")
        tail_rule(ctx, res, it, o, root, kind, key, pref, rule)
        if not tail_only:
            adaptor_rule(ctx, res, root, key)
    res.floor(rule, "entry_points_analysed", 13)
    if not tail_only:
        res.floor(rule, "adaptors_analysed", 13)
    res.floor(rule, "core_result_shapes_analysed", 84)


def tail_rule(ctx, res, it, o, root, kind, key, pref, rule="C01.entry"):
    """What the entry point does once the core has returned: Ok(Meta(v, _)) -> Ok((v, parser.code_map)); every error
    variant is returned unchanged, except that the byte-slice entry points turn Stream(p, _) into InvalidUtf8(p).
    In particular no entry point produces a verdict of its own (all returning paths pass through the core)."""
    try:
        shapes = entry.core_result_shapes(it, o)
    except Undecided as e:
        res.violation(rule, key + "/tail-undecided", "%s: %s" % (root, e))
        return
    for name, val, payload in shapes:
        try:
            outs = entry.run_tail(it, o, val)
            why = entry.describe_tail(it, root, kind, name, payload, outs, pref, o)
        except Undecided as e:
            why = "undecided: %s" % e
        res.count("core_result_shapes_analysed")
        res.ob(why is None, rule, key + "/tail/" + name, "%s: %s" % (root, why),
               sample={"entry": root, "core_result": name, "returned": "unchanged" if not (kind == "bytes" and name == "Err(Stream)") else "InvalidUtf8(p)"})


def adaptor_rule(ctx, res, root, key):
    """Every adaptor between the caller's iterator and the core is the per-item transformation
    Ok(c) -> DecodedChar{c, len_utf8(c)}, Err(e) -> Err(e), None -> None (closure bodies interpreted)."""
    P = ctx.P
    nexts = entry.find_next_instance(P, root)
    if len(nexts) != 1:
        res.violation("C01.entry", key + "/adaptor-shape", "%s: expected exactly one input iterator type behind the parser, found %d" % (root, len(nexts)))
        return
    try:
        src, results = entry.check_adaptor(P, list(nexts)[0])
    except Undecided as e:
        res.violation("C01.entry", key + "/adaptor-undecided", "%s: undecided while interpreting the input adaptor: %s" % (root, e))
        return
    res.count("adaptors_analysed")
    if results and results[0][0] == "identity":
        res.ob(True, "C01.entry", key + "/adaptor", "", sample={"entry": root, "adaptor": "none (items are already DecodedChar)", "source": src})
        return
    it = entry.mk_interp(P)
    for shape, item, fo in results:
        why = entry.describe_adaptor_result(it, shape, item, fo)
        res.ob(why is None, "C01.entry", key + "/adaptor/" + shape, "%s: input adaptor over %s: %s" % (root, src, why),
               sample={"entry": root, "source": src, "shape": shape, "maps_to": "DecodedChar{c, len_utf8(c)} / passes through"})
