"""C16 — serde: typed data round-trips through Value and agrees with serde_json (shape tables of
every Serializer / KeySerializer method and, in the positive direction, of the Deserializer,
map-key deserializer, enum and variant access; numeric exactness is not decided)."""
import re

from .. import iset, shape, static
from ..absint import Agg, Conc, Expr, Obj, Ref, Str, Sym, Top, Undecided, UNIT
from ..summ import AIter, AVec, LogVec

LEVEL = "other"


def run(ctx, res):
    res.rules_run += ["C16.ser (per Serializer method: the JSON shape produced = serde_json's data-model mapping)",
                      "C16.key (KeySerializer: strings, chars, integers (decimal text) and unit variants become that text)",
                      "C16.compound (SerializeArray / TupleVariant / StructVariant / Map / Struct: elements appended in order, variants wrapped in a single-entry object keyed by the variant name)",
                      "C16.de (Deserializer for Value, positive direction: for every shape C16.ser produces the matching deserialize_* method drives the visitor with the right call)",
                      "C16.mapkey (map keys: integer-like keys are parsed with the method's own integer type and offered through the same-named visit_*, with a string fallback)",
                      "C16.enum (enum / variant access: string -> unit variant; single-entry object -> variant + payload, whatever the payload; per variant kind)"]
    ser_rule(ctx, res)
    key_rule(ctx, res)
    compound_rule(ctx, res)
    de_rule(ctx, res)
    res.rules_run.append("C16.access (the map / sequence access objects hand every member to the seed, in order, null members included, then report the end)")
    access_rule(ctx, res)
    mapkey_rule(ctx, res)
    enum_rule(ctx, res)
    # maps: SerializeMap remembers the key and inserts (key, value) in order; only an *empty* object whose first key is the
    # private number token switches to number mode (shared with C17)
    from . import C17
    res.rules_run.append("C16.map (SerializeMap::serialize_key / serialize_value / end: ordinary entries are inserted in order; number mode only for an empty object + the private token) = C17.handshake")
    C17.handshake_rule(ctx, res, rule="C16.map", dedup=False)
    # "converting serde_json's rendering of the datum into a Value and deserializing that yields the datum as well": when the
    # rendering is a serde_json::Value, the conversion is Value::from_serde_json / From<serde_json::Value>
    from . import C18
    res.rules_run.append("C16.render (Value::from_serde_json maps every serde_json variant to the same-named variant: scalars unchanged, numbers only through the number crate's From impl - one unconditional path -, every item and entry converted recursively in order) = C18.map, that direction")
    C18.map_rule(ctx, res, rule="C16.render", directions=("from_serde_json",))
    res.notes.append("not decided: bit-exact float and integer round trip, and equality with serde_json::to_value on numbers (json-number / ryu / lexical)")
    res.trusted += ["serde's derive and blanket impls (Serialize for bool / &T, Deserialize for primitives)", "json-number's From<integer> / TryFrom<float> / Deserializer for NumberBuf", "serde_json's documented data-model mapping (table in this file)"]


# ---- helpers ------------------------------------------------------------------------------------------------------
def value_ty(P):
    return [t for t in P.types if t.get("name") == "json_syntax::Value" and t["k"] == "adt"][0]


def vname(P, v):
    if isinstance(v, Agg) and v.ty is not None:
        t = P.types[v.ty]
        if t["k"] == "adt":
            return t["variants"][v.variant]["name"]
    return None


def is_ok(rv):
    return isinstance(rv, Agg) and rv.variant == 0 and len(rv.fields) == 1


def mk_shape(P):
    sh = shape.Shape(P)
    sh.cut(r"^json_syntax::Object::insert$", "obj_insert", ret=lambda it, st, c, a: Top(shape.ret_ty(it, c), "removed"))
    sh.cut(r"^json_syntax::Object::push$|^json_syntax::Object::push_entry$", "obj_push", ret=lambda it, st, c, a: Conc(1))
    sh.cut(r"^<.* as std::string::ToString>::to_string$", "to_string", ret=lambda it, st, c, a: Top(shape.ret_ty(it, c), "decimal-text"))
    sh.cut(r"^json_syntax::Object::is_empty$", "obj_is_empty", ret=lambda it, st, c, a: st.fresh_sym(iset.BOOL, kind="is_empty"))
    return sh


def arg_for(sh, P, tid, name):
    t = P.types[tid]
    k = t["k"]
    if k == "bool":
        return sh.sym(iset.BOOL, kind="arg")
    if k == "int":
        return sh.sym(iset.full(t["bits"], t["signed"]), kind="arg")
    if k == "char":
        return sh.sym(iset.CHAR, kind="arg")
    if k == "float":
        return Top(tid, "the-float")
    if k == "ref":
        pt = P.types[t["to"]]
        if pt["k"] == "bool":
            return sh.cell(sh.sym(iset.BOOL, kind="arg"))
        if pt["k"] == "int":
            return sh.cell(sh.sym(iset.full(pt["bits"], pt["signed"]), kind="arg"))
        if pt["k"] == "str":
            return Top(tid, "the-str")
        return sh.cell(Top(t["to"], "pointee"))
    if k == "adt" and t.get("name") == "std::option::Option":
        return Agg(tid, 1, (sh.sym(kind="len"),))
    return Top(tid, name)


def run_root(ctx, root, override=None):
    P = ctx.P
    sh = mk_shape(P)
    rinst = P.inst[P.roots[root]]
    args = []
    for li in range(1, rinst["arg_count"] + 1):
        if override and li in override:
            args.append(override[li](sh))
        else:
            args.append(arg_for(sh, P, rinst["locals"][li], "arg%d" % li))
    outs = sh.run(rinst, args)
    return sh, outs, args


def ext_calls(o, rx=None):
    return [e for e in shape.events(o) if e[0] == "ext" and (rx is None or re.search(rx, e[3]))]


def ev_tags(o):
    out = []
    for e in shape.events(o):
        if e[0] == "ext":
            nm = e[3]
            m = re.search(r"std::convert::(Try)?From<([^>]*)>", nm)
            if m and ("NumberBuf" in nm or "SmallString" in nm):
                out.append(("from" if not m.group(1) else "try_from") + "<" + m.group(2) + ">")
            else:
                out.append("ext:" + nm[-60:])
        else:
            out.append(e[0])
    return out


def check(res, ok, rule, key, msg, sample=None):
    res.ob(ok, rule, key, msg, sample=sample)


# ---- Serializer methods ------------------------------------------------------------------------------------------------------
def ser_rule(ctx, res, only=None, rule="C16.ser"):
    """`only`: restrict to the given harness roots (C17 reuses the methods that Serialize for Value drives)."""
    P = ctx.P
    VT = value_ty(P)

    def single_ok(root):
        if only is not None and root not in only:
            return None
        try:
            sh, outs, args = run_root(ctx, root)
        except Undecided as e:
            res.violation(rule, "%s/%s/undecided" % (rule, root[9:]), "deviates from the reviewed shape; while interpreting: %s" % e)
            return None
        res.count("serializer_methods")
        return sh, outs, args

    # scalars
    for root, want, conv in (("root_ser_bool", "Boolean", None),
                             ("root_ser_i8", "Number", "from<i64>"), ("root_ser_i16", "Number", "from<i64>"), ("root_ser_i32", "Number", "from<i64>"), ("root_ser_i64", "Number", "from<i64>"),
                             ("root_ser_u8", "Number", "from<u64>"), ("root_ser_u16", "Number", "from<u64>"), ("root_ser_u32", "Number", "from<u64>"), ("root_ser_u64", "Number", "from<u64>"),
                             ("root_ser_str", "String", "from<&str>")):
        r = single_ok(root)
        if r is None:
            continue
        sh, outs, args = r
        key = "%s/%s" % (rule, root[9:])
        ok = len(outs) == 1 and outs[0].outcome[0] == "return" and is_ok(outs[0].outcome[1])
        if ok:
            o = outs[0]
            v = o.outcome[1].fields[0]
            tags = ev_tags(o)
            ok = vname(P, v) == want
            if conv is None:
                ok = ok and v.fields[0] == args[0] and not tags
            else:
                ok = ok and tags == [conv]
                if ok:
                    e = ext_calls(o)[0]
                    # sign-preserving widening: the argument keeps the value (identity or a value-preserving cast)
                    a = e[1][0]
                    ok = a == args[0] or (isinstance(a, Expr) and a.op == "cast" and a.args[0] == args[0])
                    ok = ok and isinstance(v.fields[0], Top)
        check(res, ok, rule, key, "%s must produce Value::%s%s on a single path; got %s" % (root[9:], want, " through " + conv if conv else " of the argument", describe(P, outs)),
              sample={"method": "serialize_" + root[9:], "produces": want, "through": conv})
    # floats: Number through TryFrom<float>, or Null when that fails
    for root, ft in (("root_ser_f32", "f32"), ("root_ser_f64", "f64")):
        if only is not None and root not in only:
            continue
        try:
            sh = mk_shape(P)
            rinst = P.inst[P.roots[root]]
            tok = Top(rinst["locals"][1], "the-float")
            # scripted TryFrom: first Ok, then Err
            results = []
            for mode in ("ok", "err"):
                sh = mk_shape(P)
                sh.cut(r"std::convert::TryFrom<%s>>::try_from$" % ft, "try_from", ret=lambda it, st, c, a, mode=mode: Agg(shape.ret_ty(it, c), 0 if mode == "ok" else 1, (Top(None, "the-number" if mode == "ok" else "error"),)))
                outs = sh.run(rinst, [tok])
                ok = len(outs) == 1 and outs[0].outcome[0] == "return" and is_ok(outs[0].outcome[1])
                if ok:
                    o = outs[0]
                    evs = [e for e in shape.events(o) if e[0] in ("try_from", "ext")]
                    v = o.outcome[1].fields[0]
                    ok = len(evs) == 1 and evs[0][0] == "try_from" and evs[0][1][0] == tok
                    ok = ok and ((mode == "ok" and vname(P, v) == "Number" and v.fields[0] == Top(None, "the-number")) or (mode == "err" and vname(P, v) == "Null"))
                results.append(ok)
                check(res, ok, rule, "%s/%s/%s" % (rule, root[9:], mode), "serialize_%s must convert the argument itself with NumberBuf::try_from exactly once: finite -> Number, otherwise Null; got %s after %r" % (
                    ft, describe(P, outs), [ev_tags(o) for o in outs]), sample={"method": "serialize_" + ft, "try_from": mode, "produces": "Number" if mode == "ok" else "Null"})
            res.count("serializer_methods")
        except Undecided as e:
            res.violation(rule, "%s/%s/undecided" % (rule, root[9:]), "deviates from the reviewed shape; while interpreting: %s" % e)
    # char: a one-character string
    r = single_ok("root_ser_char")
    if r:
        sh, outs, args = r
        ok = len(outs) == 1 and is_ok(outs[0].outcome[1])
        if ok:
            o = outs[0]
            v = o.outcome[1].fields[0]
            pushes = [e for e in o.events if e[0] == "push" and e[1] == "str"]
            ok = vname(P, v) == "String" and isinstance(v.fields[0], Obj) and len(pushes) == 1 and pushes[0][2] == v.fields[0].id and pushes[0][4] == args[0]
        check(res, ok, rule, rule + "/char", "serialize_char must produce the one-character string of its argument; got %s" % describe(P, outs), sample={"method": "serialize_char", "produces": "String(c)"})
    # unit-like
    for root in ("root_ser_unit", "root_ser_none", "root_ser_unit_struct"):
        r = single_ok(root)
        if r:
            sh, outs, args = r
            ok = len(outs) == 1 and is_ok(outs[0].outcome[1]) and vname(P, outs[0].outcome[1].fields[0]) == "Null" and not ev_tags(outs[0])
            check(res, ok, rule, "%s/%s" % (rule, root[9:]), "%s must produce null; got %s" % (root[9:], describe(P, outs)), sample={"method": "serialize_" + root[9:], "produces": "Null"})
    # transparent wrappers
    for root in ("root_ser_some", "root_ser_newtype_struct"):
        r = single_ok(root)
        if r:
            sh, outs, args = r
            b = sh.it.read_path(outs[0], args[-1].base, args[-1].proj) if outs else None
            ok = len(outs) == 1 and is_ok(outs[0].outcome[1]) and vname(P, outs[0].outcome[1].fields[0]) == "Boolean" and outs[0].outcome[1].fields[0].fields[0] == b
            check(res, ok, rule, "%s/%s" % (rule, root[9:]), "%s must be transparent (the inner value's own representation); got %s" % (root[9:], describe(P, outs)),
                  sample={"method": "serialize_" + root[9:], "produces": "the inner value"})
    # unit variant -> the variant name as a string
    r = single_ok("root_ser_unit_variant")
    if r:
        sh, outs, args = r
        ok = len(outs) == 1 and is_ok(outs[0].outcome[1]) and vname(P, outs[0].outcome[1].fields[0]) == "String" and ev_tags(outs[0]) == ["from<&str>"] and ext_calls(outs[0])[0][1][0] == args[0]
        check(res, ok, rule, rule + "/unit_variant", "a unit variant must serialize as the string of its *variant* name; got %s after %r" % (describe(P, outs), [ev_tags(o) for o in outs]),
              sample={"method": "serialize_unit_variant", "produces": "String(variant)"})
    # newtype variant -> {variant: value}
    r = single_ok("root_ser_newtype_variant")
    if r:
        sh, outs, args = r
        ok = len(outs) == 1 and is_ok(outs[0].outcome[1]) and vname(P, outs[0].outcome[1].fields[0]) == "Object"
        if ok:
            o = outs[0]
            ins = [e for e in shape.events(o) if e[0] in ("obj_insert", "obj_push")]
            froms = ext_calls(o, r"From<&str>")
            b = sh.it.read_path(o, args[1].base, args[1].proj)
            ok = len(ins) == 1 and len(froms) == 1 and froms[0][1][0] == args[0] and vname(P, ins[0][1][2]) == "Boolean" and ins[0][1][2].fields[0] == b
        check(res, ok, rule, rule + "/newtype_variant", "a newtype variant must serialize as a single-entry object {variant: value}; got %s" % describe(P, outs),
              sample={"method": "serialize_newtype_variant", "produces": "{variant: value}"})
    # bytes: array of numbers (call-site facts: map over the bytes with Number(b.into()), collected)
    try:
        if only is not None:
            raise StopIteration
        inst = shape.find_inst(P, r"Serializer for json_syntax::Serializer>::serialize_bytes$|<json_syntax::Serializer as .*Serializer>::serialize_bytes$")
        names = [c["name"] for bi, c, t in static.calls(P, inst) if c is not None]
        ok = any("::map::<" in n for n in names) and any("::collect::<std::vec::Vec<json_syntax::Value>>" in n for n in names)
        check(res, ok, rule, rule + "/bytes", "serialize_bytes must produce the array of the bytes as numbers (map + collect); calls %r" % (names,), sample={"method": "serialize_bytes", "produces": "Array of numbers"})
        res.count("serializer_methods")
    except StopIteration:
        pass
    except Undecided as e:
        res.violation(rule, rule + "/bytes/missing", str(e))
    # compound starters
    for root, want in (("root_ser_seq", "SerializeArray"), ("root_ser_tuple", "SerializeArray"), ("root_ser_tuple_struct", "SerializeArray"),
                       ("root_ser_tuple_variant", "SerializeTupleVariant"), ("root_ser_map", "SerializeMap"), ("root_ser_struct", "SerializeMap"), ("root_ser_struct_variant", "SerializeStructVariant")):
        r = single_ok(root)
        if not r:
            continue
        sh, outs, args = r
        ok = len(outs) >= 1 and all(o.outcome[0] == "return" and is_ok(o.outcome[1]) for o in outs)
        if ok:
            for o in outs:
                v = o.outcome[1].fields[0]
                t = P.types[v.ty]
                ok = ok and t.get("name", "").endswith(want)
                if want == "SerializeMap":
                    ok = ok and t["variants"][v.variant]["name"] == "Object" and isinstance(v.fields[1], Agg) and v.fields[1].variant == 0
                if want in ("SerializeTupleVariant", "SerializeStructVariant"):
                    froms = ext_calls(o, r"From<&str>")
                    ok = ok and len(froms) == 1 and froms[0][1][0] == args[0]
        check(res, ok, rule, "%s/%s" % (rule, root[9:]), "%s must start an empty %s%s; got %s" % (root[9:], want, " named after the variant" if "variant" in root else "", describe(P, outs)),
              sample={"method": "serialize_" + root[9:], "starts": want})
    res.floor(rule, "serializer_methods", 28 if only is None else len(only))


def describe(P, outs):
    out = []
    for o in outs[:4]:
        if o.outcome[0] != "return":
            out.append(o.outcome[0])
            continue
        rv = o.outcome[1]
        if is_ok(rv):
            v = rv.fields[0]
            out.append("Ok(%s%s)" % (vname(P, v) or type(v).__name__, "" if not isinstance(v, Agg) else repr(tuple(v.fields))[:60]))
        else:
            out.append("Err" if isinstance(rv, Agg) else repr(rv)[:40])
    return out


# ---- KeySerializer -----------------------------------------------------------------------------------------------------------------
def key_rule(ctx, res):
    P = ctx.P
    rule = "C16.key"
    for root in ("root_key_i8", "root_key_i16", "root_key_i32", "root_key_i64", "root_key_u8", "root_key_u16", "root_key_u32", "root_key_u64"):
        try:
            sh, outs, args = run_root(ctx, root)
        except Undecided as e:
            res.violation(rule, "%s/%s/undecided" % (rule, root[9:]), "while interpreting: %s" % e)
            continue
        ok = len(outs) == 1 and is_ok(outs[0].outcome[1])
        if ok:
            o = outs[0]
            ts = [e for e in shape.events(o) if e[0] == "to_string"]
            froms = ext_calls(o, r"From<std::string::String>")
            ok = len(ts) == 1 and ts[0][2][0] == args[0] and len(froms) == 1 and froms[0][1][0] == Top(froms[0][1][0].ty if isinstance(froms[0][1][0], Top) else None, "decimal-text")
        check(res, ok, rule, "%s/%s" % (rule, root[9:]), "an integer key must become its decimal text (to_string of the argument, then into a Key); got %s after %r" % (describe(P, outs), [ev_tags(o) for o in outs]),
              sample={"key_method": "serialize_" + root[9:], "produces": "decimal text"})
        res.count("key_methods")
    try:
        sh, outs, args = run_root(ctx, "root_key_char")
        ok = len(outs) == 1 and is_ok(outs[0].outcome[1])
        if ok:
            o = outs[0]
            pushes = [e for e in o.events if e[0] == "push" and e[1] == "str"]
            k = o.outcome[1].fields[0]
            ok = isinstance(k, Obj) and len(pushes) == 1 and pushes[0][2] == k.id and pushes[0][4] == args[0]
        check(res, ok, rule, rule + "/char", "a char key must become the one-character string; got %s" % describe(P, outs), sample={"key_method": "serialize_char", "produces": "one-character key"})
        res.count("key_methods")
        for root, what in (("root_key_str", "the string itself"), ("root_key_unit_variant", "the variant name")):
            sh, outs, args = run_root(ctx, root)
            ok = len(outs) == 1 and is_ok(outs[0].outcome[1]) and ev_tags(outs[0]) == ["from<&str>"] and ext_calls(outs[0])[0][1][0] == args[0]
            check(res, ok, rule, "%s/%s" % (rule, root[9:]), "%s as a key must be %s; got %s after %r" % (root[9:], what, describe(P, outs), [ev_tags(o) for o in outs]),
                  sample={"key_method": "serialize_" + root[9:], "produces": what})
            res.count("key_methods")
        sh, outs, args = run_root(ctx, "root_key_newtype_struct")
        ok = len(outs) == 1 and is_ok(outs[0].outcome[1]) and [e[0] for e in shape.events(outs[0]) if e[0] == "to_string"] == ["to_string"]
        check(res, ok, rule, rule + "/newtype_struct", "a newtype key must be transparent; got %s" % describe(P, outs), sample={"key_method": "serialize_newtype_struct", "produces": "the inner key"})
        res.count("key_methods")
    except Undecided as e:
        res.violation(rule, rule + "/undecided", "while interpreting: %s" % e)
    res.floor(rule, "key_methods", 12)


# ---- compound serializers ----------------------------------------------------------------------------------------------------------------
def compound_rule(ctx, res):
    P = ctx.P
    rule = "C16.compound"

    def struct_ty(root, li):
        t = P.types[P.inst[P.roots[root]]["locals"][li]]
        return t["to"] if t["k"] == "ref" else t["id"]

    def mk_array(sh, tid):
        arr = sh.st.new_obj(AVec((Top(None, "earlier"),), "array"))
        t = P.types[tid]
        names = [f["name"] for f in t["variants"][0]["fields"]]
        vals = {"array": arr, "name": Top(None, "the-name"), "obj": Top(None, "the-obj")}
        return Agg(tid, 0, tuple(vals[n] for n in names)), arr

    # element appends
    for root in ("root_ser_array_element", "root_ser_tuple_element", "root_ser_tuple_struct_field", "root_ser_tuple_variant_field"):
        try:
            tid = struct_ty(root, 1)
            holder = {}

            def mk(sh, tid=tid, holder=holder):
                v, arr = mk_array(sh, tid)
                holder["arr"] = arr
                return sh.cell(v)

            sh, outs, args = run_root(ctx, root, {1: mk})
            ok = len(outs) == 1 and is_ok(outs[0].outcome[1])
            if ok:
                o = outs[0]
                items = o.heap[holder["arr"].id].items
                b = sh.it.read_path(o, args[1].base, args[1].proj)
                ok = len(items) == 2 and items[0] == Top(None, "earlier") and vname(P, items[1]) == "Boolean" and items[1].fields[0] == b
            check(res, ok, rule, "%s/%s" % (rule, root[9:]), "%s must append the serialized element at the end; got %s" % (root[9:], describe(P, outs)), sample={"method": root[9:], "effect": "append at the end"})
            res.count("compound_methods")
        except Undecided as e:
            res.violation(rule, "%s/%s/undecided" % (rule, root[9:]), "while interpreting: %s" % e)
    # ends
    for root, wrap in (("root_ser_array_end", None), ("root_ser_tuple_end", None), ("root_ser_tuple_struct_end", None), ("root_ser_tuple_variant_end", "Array"), ("root_ser_struct_variant_end", "Object")):
        try:
            tid = struct_ty(root, 1)
            holder = {}

            def mk(sh, tid=tid, holder=holder):
                v, arr = mk_array(sh, tid)
                holder["arr"] = arr
                holder["v"] = v
                return v

            sh, outs, args = run_root(ctx, root, {1: mk})
            ok = len(outs) == 1 and is_ok(outs[0].outcome[1])
            if ok:
                o = outs[0]
                v = o.outcome[1].fields[0]
                if wrap is None:
                    ok = vname(P, v) == "Array" and v.fields[0] == holder["arr"]
                else:
                    ins = [e for e in shape.events(o) if e[0] in ("obj_insert", "obj_push")]
                    ok = vname(P, v) == "Object" and len(ins) == 1 and ins[0][1][1] == Top(None, "the-name") and vname(P, ins[0][1][2]) == wrap
                    inner = ins[0][1][2].fields[0] if ok else None
                    ok = ok and (inner == holder["arr"] if wrap == "Array" else inner == Top(None, "the-obj"))
            check(res, ok, rule, "%s/%s" % (rule, root[9:]), "%s must produce %s; got %s" % (root[9:], "the array" if wrap is None else "{variant name: the %s}" % wrap.lower(), describe(P, outs)),
                  sample={"method": root[9:], "produces": "Array" if wrap is None else "{name: %s}" % wrap})
            res.count("compound_methods")
        except Undecided as e:
            res.violation(rule, "%s/%s/undecided" % (rule, root[9:]), "while interpreting: %s" % e)
    # struct variant field: obj.insert(key.into(), value)
    try:
        tid = struct_ty("root_ser_struct_variant_field", 1)

        def mk(sh, tid=tid):
            t = P.types[tid]
            names = [f["name"] for f in t["variants"][0]["fields"]]
            vals = {"name": Top(None, "the-name"), "obj": Top(None, "the-obj")}
            return sh.cell(Agg(tid, 0, tuple(vals[n] for n in names)))

        sh, outs, args = run_root(ctx, "root_ser_struct_variant_field", {1: mk})
        ok = len(outs) == 1 and is_ok(outs[0].outcome[1])
        if ok:
            o = outs[0]
            ins = [e for e in shape.events(o) if e[0] in ("obj_insert", "obj_push")]
            froms = ext_calls(o, r"From<&str>")
            b = sh.it.read_path(o, args[2].base, args[2].proj)
            ok = len(ins) == 1 and len(froms) == 1 and froms[0][1][0] == args[1] and vname(P, ins[0][1][2]) == "Boolean" and ins[0][1][2].fields[0] == b
        check(res, ok, rule, rule + "/struct_variant_field", "a struct-variant field must be added under its own name with its own value; got %s" % describe(P, outs), sample={"method": "struct_variant_field", "effect": "obj[key] = value"})
        res.count("compound_methods")
    except Undecided as e:
        res.violation(rule, rule + "/struct_variant_field/undecided", "while interpreting: %s" % e)
    res.floor(rule, "compound_methods", 10)


# ---- Deserializer for Value --------------------------------------------------------------------------------------------------------------------
VISIT = re.compile(r"^<serde_roots::Probe as .*Visitor<'_>>::(visit_\w+)")


def de_shape(P):
    sh = shape.Shape(P)
    sh.cut(r"^<serde_roots::Probe as .*Visitor<'_>>::visit_", "visit", ret=lambda it, st, c, a: Agg(shape.ret_ty(it, c), 0, (Top(None, "visited"),)))
    sh.cut(r"^json_syntax::serde::de::visit_array::<'_, serde_roots::Probe>$", "visit_array", ret=lambda it, st, c, a: Agg(shape.ret_ty(it, c), 0, (Top(None, "visited"),)))
    sh.cut(r"^json_syntax::serde::de::visit_object::<'_, serde_roots::Probe>$", "visit_object", ret=lambda it, st, c, a: Agg(shape.ret_ty(it, c), 0, (Top(None, "visited"),)))
    sh.cut(r"^json_syntax::serde::de::<impl json_syntax::Value>::invalid_type::<", "invalid_type")
    sh.cut(r"^json_syntax::serde::de::<impl json_syntax::Value>::unexpected$", "unexpected")
    sh.cut(r"^<.* as std::string::ToString>::to_string$", "to_string", ret=lambda it, st, c, a: Top(shape.ret_ty(it, c), "text"))
    return sh


def visits(o):
    out = []
    for e in shape.events(o):
        if e[0] == "visit":
            out.append((VISIT.search(e[3]).group(1),) + tuple(e[1][1:]))
        elif e[0] in ("visit_array", "visit_object"):
            out.append((e[0],) + tuple(e[1][:1]))
        elif e[0] == "ext" and "deserialize_any" in e[3]:
            out.append(("number.deserialize_any",) + tuple(e[1][:1]))
    return out


def de_rule(ctx, res, only=None, rule="C16.de"):
    """`only`: restrict to the given deserialize_* methods (C17 needs deserialize_any and the sequence / map accessors)."""
    P = ctx.P
    VT = value_ty(P)
    vn = [v["name"] for v in VT["variants"]]
    number_methods = ["i8", "i16", "i32", "i64", "i128", "u8", "u16", "u32", "u64", "u128", "f32", "f64"]
    # method -> {variant: expected visitor interaction}
    table = {"any": {"Null": "visit_unit", "Boolean": "visit_bool", "Number": "number", "String": "visit_string", "Array": "visit_array", "Object": "visit_object"},
             "bool": {"Boolean": "visit_bool"}, "char": {"String": "visit_string"}, "str": {"String": "visit_string"}, "string": {"String": "visit_string"},
             "identifier": {"String": "visit_string"}, "bytes": {"String": "visit_string", "Array": "visit_array"}, "byte_buf": {"String": "visit_string", "Array": "visit_array"},
             "unit": {"Null": "visit_unit"}, "unit_struct": {"Null": "visit_unit"},
             "option": {"Null": "visit_none", "Boolean": "visit_some", "Number": "visit_some", "String": "visit_some", "Array": "visit_some", "Object": "visit_some"},
             "newtype_struct": {v: "visit_newtype_struct" for v in vn},
             "seq": {"Array": "visit_array"}, "tuple": {"Array": "visit_array"}, "tuple_struct": {"Array": "visit_array"},
             "map": {"Object": "visit_object"}, "struct": {"Object": "visit_object", "Array": "visit_array"},
             "ignored_any": {v: "visit_unit" for v in vn}}
    for m in number_methods:
        table[m] = {"Number": "number"}
    for method, exp in sorted(table.items()):
        if only is not None and method not in only:
            continue
        root = "root_dev_" + method
        if root not in P.roots:
            res.violation(rule, "%s/%s/missing" % (rule, method), "root %s missing" % root)
            continue
        rinst = P.inst[P.roots[root]]
        for vi, name in enumerate(vn):
            if name not in exp:
                continue  # what is rejected is not part of the property
            try:
                sh = de_shape(P)
                payload = []
                for f in VT["variants"][vi]["fields"]:
                    payload.append(sh.sym(iset.BOOL, kind="b") if P.types[f["ty"]]["k"] == "bool" else Top(f["ty"], "payload"))
                val = Agg(VT["id"], vi, payload)
                outs = sh.run(rinst, [val])
            except Undecided as e:
                res.violation(rule, "%s/%s/%s/undecided" % (rule, method, name), "deviates from the reviewed shape; while interpreting: %s" % e)
                continue
            res.count("deserializer_cases")
            key = "%s/%s/%s" % (rule, method, name)
            want = exp[name]
            oks = [o for o in outs if o.outcome[0] == "return"]
            good = len(oks) == len(outs) and len(outs) >= 1
            calls = [visits(o) for o in outs]
            if good:
                v0 = calls[0]
                good = all(c[:1] == v0[:1] for c in calls) and len(v0) >= 1 and all(len(c) == 1 for c in calls)
                if good:
                    c = v0[0]
                    if want == "number":
                        good = c[0] == "number.deserialize_any" and c[1] == payload[0]
                    elif want in ("visit_unit", "visit_none"):
                        good = c[0] == want
                    elif want == "visit_bool":
                        good = c[0] == want and c[1] == payload[0]
                    elif want == "visit_string":
                        good = c[0] == want
                        # the string handed over is the value's own text
                        ext = [e for e in shape.events(outs[0]) if e[0] == "ext" and "into_string" in e[3]]
                        good = good and len(ext) == 1 and ext[0][1][0] == payload[0]
                    elif want in ("visit_some", "visit_newtype_struct"):
                        good = c[0] == want and c[1] == val
                    elif want in ("visit_array", "visit_object"):
                        good = c[0] == want and c[1] == payload[0]
            check(res, good, rule, key, "deserialize_%s on Value::%s must drive the visitor with %s of the value's own content; calls %r" % (method, name, want, [[x[0] for x in c] for c in calls]),
                  sample={"method": "deserialize_" + method, "value": name, "visitor_call": want} if name in ("Null", "Array") else None)
    res.floor(rule, "deserializer_cases", 50 if only is None else 6 * len(only))
    # visit_array / visit_object: the access object is built from the value's own items, and everything must be consumed
    for fn, acc in (("visit_array", "ArrayDeserializer"), ("visit_object", "ObjectDeserializer")):
        # an empty container is still a sequence / map for the visitor (not a unit)
        try:
            inst = shape.find_inst(P, r"^json_syntax::serde::de::%s::<'_, serde_roots::Probe>$" % fn)
            sh = shape.Shape(P)
            sh.cut(r"^<serde_roots::Probe as .*Visitor<'_>>::visit_", "visit", ret=lambda it, st, c, a: Agg(shape.ret_ty(it, c), 0, (Top(None, "visited"),)))
            sh.cut(r"de::Error>::invalid_(length|type|value)$", "error", ret=lambda it, st, c, a: Top(shape.ret_ty(it, c), "the-error"))
            empty = sh.st.new_obj(AVec((), "array" if fn == "visit_array" else "entries"))
            if fn == "visit_array":
                arg0 = empty
            else:
                oty0 = [t for t in P.types if t.get("name") == "json_syntax::Object" and t["k"] == "adt"][0]
                arg0 = Agg(oty0["id"], 0, (empty, Top(None, "indexes")))
            outs0 = sh.run(inst, [arg0, Agg(None, 0, ())])
            vs0 = [[VISIT.search(e[3]).group(1) for e in shape.events(o) if e[0] == "visit"] for o in outs0]
            want0 = "visit_seq" if fn == "visit_array" else "visit_map"
            ok0 = len(outs0) == 1 and vs0 == [[want0]] and isinstance(outs0[0].outcome[1], Agg) and outs0[0].outcome[1].variant == 0
            check(res, ok0, rule, "%s/%s/empty" % (rule, fn), "%s on an empty container must still call %s once and return its result; calls %r" % (fn, want0, vs0),
                  sample={"helper": fn, "empty": want0})
        except Undecided as e:
            res.violation(rule, "%s/%s/empty/undecided" % (rule, fn), "while interpreting: %s" % e)
        try:
            inst = shape.find_inst(P, r"^json_syntax::serde::de::%s::<'_, serde_roots::Probe>$" % fn)
            sh = shape.Shape(P)
            sh.cut(r"^<serde_roots::Probe as .*Visitor<'_>>::visit_(seq|map)", "visit", ret=lambda it, st, c, a: Agg(shape.ret_ty(it, c), 0, (Top(None, "visited"),)))
            sh.cut(r"de::Error>::invalid_(length|type|value)$", "error", ret=lambda it, st, c, a: Top(shape.ret_ty(it, c), "the-error"))
            if fn == "visit_array":
                items = sh.st.new_obj(AVec((Top(None, "i0"), Top(None, "i1")), "array"))
                arg = items
            else:
                ents = sh.st.new_obj(AVec((Top(None, "e0"), Top(None, "e1")), "entries"))
                oty = [t for t in P.types if t.get("name") == "json_syntax::Object" and t["k"] == "adt"][0]
                arg = Agg(oty["id"], 0, (ents, Top(None, "indexes")))
                items = ents
            outs = sh.run(inst, [arg, UNIT if False else Agg(None, 0, ())])
            ev = [[e for e in shape.events(o) if e[0] == "visit"] for o in outs]
            ok = all(len(e) == 1 for e in ev) and len(outs) == 1
            if ok:
                o = outs[0]
                accv = ev[0][0][2][1]  # snapshot of the access object at the call
                itv = accv.fields[0] if isinstance(accv, Agg) else None
                ok = isinstance(itv, Obj) and isinstance(o.heap.get(itv.id), AIter) and o.heap[itv.id].vec == items.id
                # nothing was consumed by the (cut) visitor: two items remain -> invalid_length error
                rv = o.outcome[1]
                ok = ok and isinstance(rv, Agg) and rv.variant == 1
            check(res, ok, rule, "%s/%s" % (rule, fn), "%s must hand the visitor an access over the value's own items and reject leftovers" % fn, sample={"helper": fn, "access": acc, "leftovers": "rejected"})
        except Undecided as e:
            res.violation(rule, "%s/%s/undecided" % (rule, fn), "while interpreting: %s" % e)


def access_rule(ctx, res, rule="C16.access"):
    """ObjectDeserializer / ArrayDeserializer driven by hand over two members, the first of which is `null`: every member is
    handed to the seed, in order (key then value for an object), then the access reports the end."""
    P = ctx.P
    VT = value_ty(P)
    vn = [v["name"] for v in VT["variants"]]
    try:
        et = [t for t in P.types if t.get("name") == "json_syntax::object::Entry" and t["k"] == "adt" and "SmallString" in t["s"] and "Mapped" not in t["s"]][0]
        nk = shape.find_inst(P, r"^<json_syntax::serde::de::ObjectDeserializer as .*MapAccess<'_>>::next_key_seed::<serde_roots::SeedAny>$")
        nv = shape.find_inst(P, r"^<json_syntax::serde::de::ObjectDeserializer as .*MapAccess<'_>>::next_value_seed::<serde_roots::SeedAny>$")
        ne = shape.find_inst(P, r"^<json_syntax::serde::de::ArrayDeserializer as .*SeqAccess<'_>>::next_element_seed::<serde_roots::SeedAny>$")
        for what, steps in (("object", [nk, nv, nk, nv, nk]), ("array", [ne, ne, ne])):
            sh = shape.Shape(P)
            sh.cut(r"^<serde_roots::SeedAny as .*DeserializeSeed<'_>>::deserialize::<", "seed", ret=lambda it, st, c, a: Agg(shape.ret_ty(it, c), 0, (Top(None, "seeded"),)))
            st = sh.st
            null = Agg(VT["id"], vn.index("Null"), ())
            other = Top(VT["id"], "value1")
            if what == "object":
                enames = [f["name"] for f in et["variants"][0]["fields"]]
                mk = lambda k, v: Agg(et["id"], 0, tuple(k if n == "key" else v for n in enames))
                items = (mk(Top(None, "key0"), null), mk(Top(None, "key1"), other))
            else:
                items = (null, other)
            vec = st.new_obj(AVec(items, "members"))
            aty = P.types[steps[0]["locals"][1]]["to"]
            flds = P.types[aty]["variants"][0]["fields"]
            vals = []
            for f in flds:
                ts = P.types[f["ty"]]["s"]
                if "IntoIter" in ts:
                    vals.append(st.new_obj(AIter(vec.id, 0, 2, "owning")))
                elif ts.startswith("std::option::Option"):
                    vals.append(Agg(f["ty"], 0, ()))
                else:
                    raise Undecided("unexpected field %s of the access object" % ts)
            cell = st.new_obj(Agg(aty, 0, tuple(vals)))
            me = Ref(("H", cell.id), ())
            got = []
            cur = st
            for inst in steps:
                from ..absint import State as _State
                nxt_ = _State()  # a finished state cannot be resumed: continue from its heap
                nxt_.heap = dict(cur.heap)
                nxt_.ctr = dict(cur.ctr)
                cur = nxt_
                n0 = 0
                sh.it.push_frame(cur, inst["id"], [me, Agg(None, 0, ())], None, None)
                outs = sh.it.run(cur)
                # (dropping a key forks on inline / heap storage of the small string: the paths must agree on everything observed)
                sig = set((o.outcome[0], repr(o.outcome[1]), repr([e[1][1:] for e in o.events if e[0] == "seed"])) for o in outs)
                if len(sig) != 1 or outs[0].outcome[0] != "return":
                    raise Undecided("%s access: %d paths that disagree (%s)" % (what, len(outs), [o.outcome[0] for o in outs][:3]))
                cur = outs[0]
                rv = cur.outcome[1]
                seeds = [e for e in cur.events[n0:] if e[0] == "seed"]
                if not seeds:
                    got.append("end" if (isinstance(rv, Agg) and rv.variant == 0) else "error")
                else:
                    a0 = seeds[-1][1][1]
                    a0 = a0.fields[0] if isinstance(a0, Agg) and a0.ty is not None and "MapKeyDeserializer" in P.types[a0.ty]["s"] else a0
                    got.append(a0.tag if isinstance(a0, Top) else ("null" if a0 == null else repr(a0)[:40]))
            want = ["key0", "null", "key1", "value1", "end"] if what == "object" else ["null", "value1", "end"]
            check(res, got == want, rule, "%s/%s" % (rule, what), "the %s access must hand every member to the seed in order (null members included) and then report the end; it hands %r, expected %r" % (what, got, want),
                  sample={"access": what, "yields": [str(x) for x in got]})
            res.count("access_cases")
    except Undecided as e:
        res.violation(rule, rule + "/undecided", "while interpreting: %s" % e)
    res.floor(rule, "access_cases", 2)


# ---- map keys ---------------------------------------------------------------------------------------------------------------------------------
def mapkey_rule(ctx, res):
    P = ctx.P
    rule = "C16.mapkey"
    ints = ["i8", "i16", "i32", "i64", "i128", "u8", "u16", "u32", "u64", "u128"]
    for ity in ints:
        key = "%s/%s" % (rule, ity)
        try:
            inst = shape.find_inst(P, r"^<json_syntax::serde::de::MapKeyDeserializer as .*Deserializer<'_>>::deserialize_%s::<serde_roots::Probe>$" % ity)
        except Undecided as e:
            res.violation(rule, key + "/missing", str(e))
            continue
        for mode in ("ok", "err"):
            try:
                sh = shape.Shape(P)
                sh.cut(r"^<serde_roots::Probe as .*Visitor<'_>>::visit_", "visit", ret=lambda it, st, c, a: Agg(shape.ret_ty(it, c), 0, (Top(None, "visited"),)))
                parsed = []

                def parse(it, st, c, a, mode=mode):
                    rt = shape.ret_ty(it, c)
                    return Agg(rt, 0 if mode == "ok" else 1, (Top(None, "the-integer" if mode == "ok" else "parse-error"),))

                sh.cut(r"^core::str::<impl str>::parse::<", "parse", ret=parse)
                sh.cut(r"Deref>::deref$", "deref", ret=lambda it, st, c, a: a[0])
                kty = inst["locals"][1]
                keytok = Top(None, "the-key")
                outs = sh.run(inst, [Agg(kty, 0, (keytok,)), Agg(None, 0, ())])
                ok = len(outs) == 1 and outs[0].outcome[0] == "return"
                if ok:
                    o = outs[0]
                    ps = [e for e in shape.events(o) if e[0] == "parse"]
                    vs = [e for e in shape.events(o) if e[0] == "visit"]
                    ok = len(ps) == 1 and ps[0][3].endswith("parse::<%s>" % ity) and len(vs) == 1
                    if ok and mode == "ok":
                        ok = VISIT.search(vs[0][3]).group(1) == "visit_" + ity and vs[0][1][1] == Top(None, "the-integer")
                    elif ok:
                        ok = VISIT.search(vs[0][3]).group(1) == "visit_string"
                check(res, ok, rule, "%s/%s" % (key, mode), "deserialize_%s on a map key must parse the key as %s and call visit_%s with it, falling back to visit_string; got parse %r, visit %r" % (
                    ity, ity, ity, [e[3][-20:] for o in outs for e in shape.events(o) if e[0] == "parse"], [VISIT.search(e[3]).group(1) for o in outs for e in shape.events(o) if e[0] == "visit"]),
                    sample={"key_method": "deserialize_" + ity, "parses_as": ity, "visits": "visit_" + ity if mode == "ok" else "visit_string"})
                res.count("mapkey_cases")
            except Undecided as e:
                res.violation(rule, "%s/%s/undecided" % (key, mode), "while interpreting: %s" % e)
    # wrappers: a newtype struct or an Option around a key is transparent — the inner type is deserialized from the *same* key
    # deserializer (so an integer inside a newtype key is still parsed from the key text)
    for meth, visit, nargs in (("deserialize_newtype_struct", "visit_newtype_struct", 3), ("deserialize_option", "visit_some", 2)):
        key = "%s/%s" % (rule, meth)
        try:
            inst = shape.find_inst(P, r"^<json_syntax::serde::de::MapKeyDeserializer as .*Deserializer<'_>>::%s::<serde_roots::Probe>$" % meth)
            sh = shape.Shape(P)
            sh.cut(r"^<serde_roots::Probe as .*Visitor<'_>>::visit_", "visit", ret=lambda it, st, c, a: Agg(shape.ret_ty(it, c), 0, (Top(None, "visited"),)))
            kty = inst["locals"][1]
            me = Agg(kty, 0, (Top(None, "the-key"),))
            args = [me, Agg(None, 0, ())] if nargs == 2 else [me, Top(None, "name"), Agg(None, 0, ())]
            outs = sh.run(inst, args)
            ok = len(outs) == 1 and outs[0].outcome[0] == "return"
            vs = [e for o in outs for e in shape.events(o) if e[0] == "visit"]
            ok = ok and len(vs) == 1 and VISIT.search(vs[0][3]).group(1) == visit and vs[0][1][1] == me
            check(res, ok, rule, key, "%s on a map key must hand the key deserializer itself to %s; got %r" % (meth, visit, [(VISIT.search(e[3]).group(1), repr(e[1][1])[:60]) for e in vs]),
                  sample={"key_method": meth, "visits": visit, "with": "the same key deserializer"})
            res.count("mapkey_cases")
        except Undecided as e:
            res.violation(rule, key + "/undecided", "while interpreting: %s" % e)
    # everything else (deserialize_any and what is forwarded to it): the key is offered as the string it is, whatever it looks like
    try:
        key = "%s/deserialize_any" % rule
        inst = shape.find_inst(P, r"^<json_syntax::serde::de::MapKeyDeserializer as .*Deserializer<'_>>::deserialize_any::<serde_roots::Probe>$")
        sh = shape.Shape(P)
        sh.cut(r"^<serde_roots::Probe as .*Visitor<'_>>::visit_", "visit", ret=lambda it, st, c, a: Agg(shape.ret_ty(it, c), 0, (Top(None, "visited"),)))
        sh.cut(r"^core::str::<impl str>::parse::<", "parse", ret=lambda it, st, c, a: Agg(shape.ret_ty(it, c), 0, (Top(None, "parsed"),)))
        sh.cut(r"Deref>::deref$", "deref", ret=lambda it, st, c, a: a[0])
        keytok = Top(None, "the-key")
        outs = sh.run(inst, [Agg(inst["locals"][1], 0, (keytok,)), Agg(None, 0, ())])
        vs = [[VISIT.search(e[3]).group(1) for e in shape.events(o) if e[0] == "visit"] for o in outs]
        ok = len(outs) == 1 and outs[0].outcome[0] == "return" and vs[0] in (["visit_string"], ["visit_str"], ["visit_borrowed_str"])
        ok = ok and not [e for e in shape.events(outs[0]) if e[0] == "parse"]
        check(res, ok, rule, key, "deserialize_any on a map key must offer the key as a string, unconditionally; calls %r" % (vs,), sample={"key_method": "deserialize_any", "visits": "visit_string"})
        res.count("mapkey_cases")
    except Undecided as e:
        res.violation(rule, "%s/deserialize_any/undecided" % rule, "while interpreting: %s" % e)
    res.floor(rule, "mapkey_cases", 23)


# ---- enums -----------------------------------------------------------------------------------------------------------------------------------------
def enum_rule(ctx, res):
    P = ctx.P
    rule = "C16.enum"
    VT = value_ty(P)
    vn = [v["name"] for v in VT["variants"]]
    try:
        rinst = P.inst[P.roots["root_dev_enum"]]
        ety = [t for t in P.types if t.get("name") == "json_syntax::object::Entry" and t["k"] == "adt" and "SmallString" in t["s"] and "Mapped" not in t["s"]][0]
        oty = [t for t in P.types if t.get("name") == "json_syntax::Object" and t["k"] == "adt"][0]
        # string -> (variant, None)
        sh = de_shape(P)
        s = Top(None, "variant-name")
        outs = sh.run(rinst, [Agg(VT["id"], vn.index("String"), (s,))])
        v = [visits(o) for o in outs]
        ok = len(outs) == 1 and len(v[0]) == 1 and v[0][0][0] == "visit_enum"
        if ok:
            acc = v[0][0][1]
            ok = isinstance(acc, Agg) and acc.fields[0] == s and isinstance(acc.fields[1], Agg) and acc.fields[1].variant == 0
        check(res, ok, rule, rule + "/string", "a string must deserialize as the unit variant of that name (variant = the string, no payload)", sample={"enum_from": "string", "payload": None})
        # single-entry object -> (key, Some(value)) whatever the payload is
        for pv in ("Null", "Boolean", "Array"):
            sh = de_shape(P)
            payload = Agg(VT["id"], vn.index(pv), tuple(Top(f["ty"], "p") for f in VT["variants"][vn.index(pv)]["fields"]))
            k = Top(None, "variant-name")
            ents = sh.st.new_obj(AVec((Agg(ety["id"], 0, (k, payload)),), "entries"))
            outs = sh.run(rinst, [Agg(VT["id"], vn.index("Object"), (Agg(oty["id"], 0, (ents, Top(None, "indexes"))),))])
            v = [visits(o) for o in outs]
            ok = len(outs) == 1 and len(v[0]) == 1 and v[0][0][0] == "visit_enum"
            if ok:
                acc = v[0][0][1]
                ok = isinstance(acc, Agg) and acc.fields[0] == k and isinstance(acc.fields[1], Agg) and acc.fields[1].variant == 1 and acc.fields[1].fields[0] == payload
            check(res, ok, rule, rule + "/object/" + pv, "a single-entry object {variant: %s payload} must deserialize as that variant *with* its payload; visitor calls %r" % (pv, [[x[0] for x in c] for c in v]),
                  sample={"enum_from": "single-entry object", "payload": pv})
        res.count("enum_cases", 4)
        # variant access
        va = {m: shape.find_inst(P, r"^<json_syntax::serde::de::VariantDeserializer as .*VariantAccess<'_>>::%s(::<serde_roots::(Probe|SeedAny)>)?$" % m) for m in ("unit_variant", "newtype_variant_seed", "tuple_variant", "struct_variant")}
        vty = va["unit_variant"]["locals"][1]
        opt_ty = P.types[vty]["variants"][0]["fields"][0]["ty"]
        # unit variant: no payload -> Ok(())
        sh = de_shape(P)
        outs = sh.run(va["unit_variant"], [Agg(vty, 0, (Agg(opt_ty, 0, ()),))])
        check(res, len(outs) == 1 and is_ok(outs[0].outcome[1]), rule, rule + "/variant/unit", "a bare-string variant must be accepted as a unit variant", sample={"variant_access": "unit_variant", "payload": None})
        # newtype: payload handed to the seed
        sh = de_shape(P)
        sh.cut(r"^<serde_roots::SeedAny as .*DeserializeSeed<'_>>::deserialize::<json_syntax::Value>$", "seed", ret=lambda it, st, c, a: Agg(shape.ret_ty(it, c), 0, (Top(None, "seeded"),)))
        payload = Agg(VT["id"], vn.index("Null"), ())
        outs = sh.run(va["newtype_variant_seed"], [Agg(vty, 0, (Agg(opt_ty, 1, (payload,)),)), Agg(None, 0, ())])
        ev = [e for o in outs for e in shape.events(o) if e[0] == "seed"]
        check(res, len(outs) == 1 and len(ev) == 1 and ev[0][1][1] == payload, rule, rule + "/variant/newtype", "a newtype variant must hand its payload (even null) to the seed", sample={"variant_access": "newtype_variant_seed", "payload": "Null -> seed"})
        # tuple: non-empty array -> visit_array ; struct: object -> visit_object
        sh = de_shape(P)
        arr = sh.st.new_obj(AVec((Top(None, "x"),), "array"))
        outs = sh.run(va["tuple_variant"], [Agg(vty, 0, (Agg(opt_ty, 1, (Agg(VT["id"], vn.index("Array"), (arr,)),)),)), Conc(2), Agg(None, 0, ())])
        v = [visits(o) for o in outs]
        check(res, len(outs) == 1 and [c[0] for c in v[0]] == ["visit_array"] and v[0][0][1] == arr, rule, rule + "/variant/tuple", "a tuple variant must visit its array payload; calls %r" % (v,), sample={"variant_access": "tuple_variant", "payload": "Array -> visit_array"})
        sh = de_shape(P)
        ob = Top(None, "the-object")
        outs = sh.run(va["struct_variant"], [Agg(vty, 0, (Agg(opt_ty, 1, (Agg(VT["id"], vn.index("Object"), (ob,)),)),)), Top(None, "fields"), Agg(None, 0, ())])
        v = [visits(o) for o in outs]
        check(res, len(outs) == 1 and [c[0] for c in v[0]] == ["visit_object"] and v[0][0][1] == ob, rule, rule + "/variant/struct", "a struct variant must visit its object payload; calls %r" % (v,), sample={"variant_access": "struct_variant", "payload": "Object -> visit_object"})
        res.count("enum_cases", 4)
    except Undecided as e:
        res.violation(rule, rule + "/undecided", "deviates from the reviewed shape; while interpreting: %s (%s)" % (e, e.site))
    res.floor(rule, "enum_cases", 8)
