"""C02 — faithful decoding (outputs of P compared with R on every accepting run)."""
from .. import parsercheck

LEVEL = "model_checking"


def run(ctx, res):
    res.rules_run += ["C02.str (decoded characters: escape table, \\uXXXX accumulation, surrogate pair formula, raw characters)",
                      "C02.num (number buffer receives exactly the consumed characters)",
                      "C02.struct (each completed value / entry appended once, at the end, to the innermost open container; literals)"]
    # all four option valuations: a strict-valid document has the same content whatever the options are; what a document that
    # is only leniently accepted decodes to (U+FFFD for the relaxed escapes) is C12's clause
    from .C12 import unpaired_surrogate_escape
    prod = parsercheck.apply(ctx, res, ["C02.", "E2."], strict_only=False,
                             finding_filter=lambda f, strict: None if strict or not unpaired_surrogate_escape(f.get("witness")) else "a document accepted only leniently: C12's clause")
    strict = prod["runs"][0]
    res.count("hex4_expressions_compared", strict["stats"].get("hex4_checked", 0))
    res.count("expression_comparisons", strict["stats"].get("pair_checked", 0))
    res.count("events_matched", strict["stats"].get("events_matched", 0))
    res.floor("C02.str", "hex4_expressions_compared", 1)
    res.floor("C02.struct", "events_matched", 500)
    # lookup clause: key lookups return the entries carrying the key in source order — by the index rules of C06
    from . import C06
    res.rules_run.append("C02.lookup = C06.model restricted to push and the key queries + C06.sorted insertion cases (the parser appends with push; from every small object with an exact index push keeps the index exact, and index_of / contains_key / get_entries_with_index answer what a linear scan would, in source order)")
    C06.model_rule(ctx, res, rule="C02.lookup", ops={"push", "queries"})
    C06.sorted_rule(ctx, res, insert_only=True)
    from . import C01
    res.rules_run.append("C02.entry (every entry point feeds the core exactly the characters of its input - no character dropped, replaced or reordered on the way - and returns the core's value unchanged)")
    C01.entry_rule(ctx, res, rule="C02.entry")
    res.assumptions.append("json_number::NumberBuf::new_unchecked, SmallString::push and SmallVec::push store what they are given (dependencies)")
