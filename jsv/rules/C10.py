"""C10 — canonical form idempotent / blind to member order, spacing and number spelling
(necessary structural clauses; the numeric step is not decided)."""
import re

from .. import shape, static
from . import C06, C09

LEVEL = "other"


def run(ctx, res):
    res.rules_run += ["C10.index (C06.model restricted to sort / canonicalize_with and to index exactness: after the in-place sort the key index is exact again on every small object) — the object stays queryable",
                      "C10.cover (Value::canonicalize_with per variant: numbers replaced unconditionally, every array item canonicalised, objects delegated) = C09.cover; entries of objects: C10.total on the object model",
                      "C10.writes (canonicalisation assigns number payloads and reorders entries; nothing else is written)",
                      "C10.total (C06.model on canonicalize_with: the members of every small object end up ordered by the UTF-16 form of their keys, ties by value, whatever their initial order — including a key pair on which code-point and UTF-16 order disagree)"]
    C06.model_rule(ctx, res, only_index=True, rule="C10.index", ops={"sort", "canonicalize_with"})
    C09.cover_rule(ctx, res, "C10.cover")
    C06.model_rule(ctx, res, rule="C10.total", ops={"canonicalize_with"})
    writes_rule(ctx, res)
    # "documents that differ only in whitespace ... or in how string characters are escaped have identical canonical output":
    # the parser side of that clause is that the value depends on the document's abstract content only (P = R on the outputs)
    from .. import parsercheck
    res.rules_run.append("C10.parse (the strict parser's value is the document's abstract content - product findings on the output channels: whitespace is ignored, every escape spelling of a character decodes to that character, numbers and structure as written)")
    # (the spelling of numbers is not part of it: canonicalisation replaces every number by the rendering of its double, so a
    # parser that changed a spelling without changing the value would not break C10; whether it changes the value is not decided here)
    parsercheck.apply(ctx, res, ["C02.str", "C02.struct", "E2."], strict_only=True, rename="C10.parse")
    res.notes.append("not decided: idempotence and spelling-independence of the numeric step (json-number / ryu-js)")


def writes_rule(ctx, res):
    P = ctx.P
    rule = "C10.writes"
    vc = [i for i in P.inst if i["path"] == "json_syntax::Value::canonicalize_with" and i.get("has_mir")]
    if not vc:
        res.violation(rule, rule + "/missing", "Value::canonicalize_with not in the program")
        return
    vc = vc[0]
    writes = []
    for bi, si, acc, pl in static.iter_places(vc):
        if acc != "write" or not pl.get("p") or pl["p"][0] != "*":
            continue
        # a write through a pointer: where does the pointer come from?
        o = static.place_origin(vc, {"l": pl["l"]})
        if o[0] == "param" and o[1] == 1:
            writes.append(tuple(o[2]) + tuple((e["n"] if "f" in e else "@" + e["n"]) for e in pl["p"] if isinstance(e, dict) and ("f" in e or "d" in e)))
    ok = all("@Number" in w for w in writes)
    res.ob(ok and len(writes) >= 1, rule, rule + "/value", "Value::canonicalize_with assigns through `self` outside the Number payload: %r" % (writes,), sample={"assignments_through_self": [str(w) for w in writes]})
    res.count("write_sites", len(writes))
    res.floor(rule, "write_sites", 1)
