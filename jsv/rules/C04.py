"""C04 — printing round-trips under any options (clause-wise; see DESIGN.md section 3, C04)."""
import re

from .. import dispatch, iset, tables
from ..absint import Agg, Conc, Obj, Ref, State, Str, Sym, Top, Undecided
from . import C08, C13

LEVEL = "other"

JSON_LITERALS = {"[", "]", "{", "}", ",", ":", "null", "true", "false"}


def run(ctx, res):
    res.rules_run += ["C04.esc (for every char the text string_literal writes is accepted by RFC 8259 section 7 and decodes to that char; no raw quote / backslash / control)",
                      "C04.tokens (everything the emitters write is a JSON structural token, a literal name, a string literal, the number's text, a child, or JSON whitespace produced by Spaces / IndentBy / a newline)",
                      "C04.order (children and entries printed once each, forward, each key followed by its own value) — emission sequences of C13.emit",
                      "C04.num (numbers are printed through the number's Display)",
                      "C04.lockstep (sizes / index: one slot reserved / consumed per container at entry, before children, children forward; top level computes sizes from the same value and starts at 0)",
                      "C04.dispatch (Value-level dispatch per variant for printing and sizing)"]
    C08.table_rule(ctx, res, "C04.table", also_inverse=True, rfc8785=False)
    tokens_rule(ctx, res)
    C13.emit_rule(ctx, res, "C04.order", mode="skeleton")
    C13.lemma_rule(ctx, res, "C04.ws", exact=False)
    C13.lockstep_emit(ctx, res, "C04.lockstep")
    C13.lockstep_pre(ctx, res, "C04.lockstep")
    dispatch_rule(ctx, res, "C04.dispatch")
    # the second half of the round trip: whatever valid JSON the printer writes, the strict parser must accept it.  Only the
    # product findings that make the parser *reject valid text* (or not terminate normally) are relevant here; a parser that
    # accepts too much, or decodes escapes the printer never writes differently, does not break the round trip.
    from .. import parsercheck
    res.rules_run.append("C04.reparse (the strict parser rejects no valid JSON text: product findings of kind rejects-valid / undecided; the rest of C01 is not C04's business)")
    def printable(key, witness):
        """rejects-valid findings whose witness input uses syntax the printer never writes (\\uXXXX escapes other than
        \\u00XX, the \\/ escape) are another property's business."""
        if "rejects-valid" not in key:
            return False
        w = witness if isinstance(witness, str) else ""
        # in a witness a JSON escape reads \\uXXXX (four hex digits); \\u{..} is only how a raw control character is displayed
        if re.search(r"\\u(?!00)[0-9a-fA-F]{4}", w) or re.search(r"\\/", w):
            return False
        return True

    parsercheck.apply(ctx, res, ["C01.lang", "E2."], strict_only=True, key_filter=printable, rename="C04.reparse")

    # ... and must decode it back to the value that was printed: output-channel findings of the product (a character, a number
    # spelling, the structure decoded differently from what the text says) on inputs the printer can write
    def writable(f, strict):
        w = f.get("witness") if isinstance(f.get("witness"), str) else ""
        if re.search(r"\\u(?!00)[0-9a-fA-F]{4}", w) or re.search(r"\\/", w):
            return "the printer never writes this escape: decoding it is C02's business"
        return None

    res.rules_run.append("C04.reparse-value (what the strict parser decodes from a text the printer can write is that text's abstract content: product findings on the output channels, witnesses restricted to the printer's syntax)")
    parsercheck.apply(ctx, res, ["C02."], strict_only=True, finding_filter=writable, rename="C04.reparse-value")
    res.assumptions.append("equality of the re-parsed value is the composition of these clauses with C01/C02 (P = R): an argument, not a mechanised proof")
    res.trusted += ["Display for json_number::Number prints the stored text", "summary table (fmt entry points, iterators)", "RFC 8259 section 7 decoder in jsv/tables.py"]


def tokens_rule(ctx, res):
    rule = "C04.tokens"
    for sc, rows, err in C13.emit_scenarios(ctx):
        if err:
            res.violation(rule, "%s/%s/undecided" % (rule, sc.tag()), err)
            continue
        for r in rows:
            if r["outcome"] != "return":
                continue
            for t in r["tokens"]:
                if t[0] == "w":
                    # split the literal into structural tokens and whitespace
                    rest = t[1]
                    ok = True
                    for piece in re.findall(r"[\[\]{},:]|[ \t\n\r]+|[^\[\]{},: \t\n\r]+", rest):
                        if piece.strip(" \t\n\r") == "":
                            continue
                        if piece not in JSON_LITERALS:
                            ok = False
                    res.ob(ok, rule, "%s/%s/literal/%r" % (rule, sc.tag(), t[1]), "the emitter writes %r, which is neither a JSON token nor JSON whitespace" % (t[1],))
                elif t[0] in ("sp", "ind", "key", "child"):
                    res.ob(not str(t[1]).startswith("?") and not (len(t) > 2 and str(t[2]).startswith("?")), rule, "%s/%s/%s" % (rule, sc.tag(), t[0]),
                           "unrecognised %s token %r" % (t[0], t))
                else:
                    res.violation(rule, "%s/%s/raw-write/%s" % (rule, sc.tag(), t[0]), "the emitter writes text that does not go through string_literal / Spaces / IndentBy: %r" % (t,))
        res.count("token_scenarios")
    res.floor(rule, "token_scenarios", 12)


def dispatch_rule(ctx, res, rule):
    P = ctx.P
    vt = dispatch.variants_of_value(P)
    names = [v["name"] for v in vt["variants"]]

    def pws_args(st, inst):
        f = Top(None, "formatter")
        o = Ref(("H", st.new_obj(Top(None, "options")).id), ())
        ind = st.fresh_sym(((0, 1 << 32),), kind="indent")
        sz = Ref(("H", st.new_obj(Top(None, "sizes")).id), ())
        ix = Ref(("H", st.new_obj(Top(None, "index")).id), ())
        return [("f", f), ("options", o), ("indent", ind), ("sizes", sz), ("index", ix)]

    def fw_args(st, inst):
        f = Top(None, "formatter")
        o = Ref(("H", st.new_obj(Top(None, "options")).id), ())
        ind = st.fresh_sym(((0, 1 << 32),), kind="indent")
        return [("f", f), ("options", o), ("indent", ind)]

    def pc_args(st, inst):
        o = Ref(("H", st.new_obj(Top(None, "options")).id), ())
        from ..summ import LogVec
        sz = Ref(("H", st.new_obj(st.new_obj(LogVec("sizes"))).id), ())
        return [("options", o), ("sizes", sz)]

    units = [("fmt_with_size", r"^<json_syntax::Value as json_syntax::print::PrintWithSize>::fmt_with_size$", pws_args),
             ("fmt_with", r"^<json_syntax::Value as json_syntax::Print>::fmt_with$", fw_args),
             ("pre_compute_size", r"^<json_syntax::Value as json_syntax::print::PrecomputeSize>::pre_compute_size$", pc_args)]
    for uname, rx, mk in units:
        for vi, vn in enumerate(names):
            key = "%s/%s/%s" % (rule, uname, vn)
            try:
                it, outs, val, refs, _ = dispatch.run_variant(P, rx, vi, mk)
            except Undecided as e:
                res.violation(rule, key + "/undecided", "undecided: %s (%s)" % (e, e.site))
                continue
            res.count("dispatch_cases")
            rets = [o for o in outs if o.outcome[0] == "return"]
            if len(rets) != len(outs):
                res.violation(rule, key + "/outcome", "%s on %s can %s" % (uname, vn, [o.outcome[0] for o in outs if o.outcome[0] != "return"]))
                continue
            payload = val.fields[0] if val.fields else None
            for o in rets:
                ev = [(e[0],) + tuple(e[1:]) for e in o.events if e[0] not in ("new", "push")]
                tags = [e[0] for e in ev]
                if uname in ("fmt_with_size", "fmt_with"):
                    if vn == "Null":
                        ok = ev == [("w", Str("null"))]
                    elif vn == "Boolean":
                        b = o.cons.get(payload.id)
                        ok = ev == [("w", Str("true" if b == ((1, 1),) else "false"))]
                    elif vn == "Number":
                        ok = tags == ["number"] and ev[0][1][0] == payload
                    elif vn == "String":
                        ok = tags == ["strlit"] and ev[0][1][0] == payload
                    elif uname == "fmt_with_size":
                        want = "print_array" if vn == "Array" else "print_object"
                        ok = tags == [want] and ev[0][1][0] == payload and tuple(ev[0][1][2:]) == (refs["options"], refs["indent"], refs["sizes"], refs["index"])
                    else:
                        # top level: count containers, size the same value with the same options into a fresh vector, start at 0
                        want = "print_array" if vn == "Array" else "print_object"
                        ok = tags == ["count", "pre_value", want]
                        if ok:
                            pre = ev[1][1]
                            pr = ev[2][1]
                            ok = pre[0] == val and pre[1] == refs["options"] and pr[0] == payload and pr[2] == refs["options"] and pr[3] == refs["indent"]
                            # the emitter gets the vector that was filled and an index cell holding 0
                            ok = ok and ev[2][2][5] == Conc(0)  # *index at the call
                            szv = ev[1][2][2]  # the vector handed to the pre-computation (snapshot of &mut sizes)
                            szs = pr[4]  # the slice handed to the emitter
                            ok = ok and isinstance(szv, Obj) and isinstance(szs, Ref) and szs.base == ("H", szv.id)
                    res.ob(ok, rule, key, "%s on Value::%s does %r" % (uname, vn, [(e[0], repr(e[1:])[:80]) for e in ev]),
                           sample={"unit": uname, "variant": vn, "does": tags})
                else:
                    rv = o.outcome[1]
                    szname = P.types[rv.ty]["variants"][rv.variant]["name"] if isinstance(rv, Agg) and rv.ty is not None else None
                    if vn == "Null":
                        ok = szname == "Width" and rv.fields[0] == Conc(4) and not ev
                    elif vn == "Boolean":
                        b = o.cons.get(payload.id)
                        ok = szname == "Width" and rv.fields[0] == Conc(4 if b == ((1, 1),) else 5) and not ev
                    elif vn == "Number":
                        ok = szname == "Width" and isinstance(rv.fields[0], Top) and str(rv.fields[0].tag).startswith("len-of:") and not ev
                    elif vn == "String":
                        ok = szname == "Width" and tags == ["string_size"] and ev[0][1][0] == payload and isinstance(rv.fields[0], Sym)
                    elif vn == "Array":
                        ok = tags == ["pre_array"] and ev[0][1][0] == payload and tuple(ev[0][1][1:]) == (refs["options"], refs["sizes"]) and isinstance(rv, Top) and rv.tag == "array-size"
                    else:
                        ok = tags == ["pre_object"] and tuple(ev[0][1][1:]) == (refs["options"], refs["sizes"]) and isinstance(rv, Top) and rv.tag == "object-size"
                    res.ob(ok, rule, key, "pre_compute_size on Value::%s returns %r after %r" % (vn, rv, [(e[0], repr(e[1:])[:80]) for e in ev]),
                           sample={"unit": uname, "variant": vn, "returns": repr(rv)[:60]})
    res.floor(rule, "dispatch_cases", 18)
    # Print for String / NumberBuf delegate unconditionally
    for nm, rx, want in (("String", r"^<smallstr::string::SmallString<.*> as json_syntax::Print>::fmt_with$", "strlit"),
                         ("NumberBuf", r"^<json_number::NumberBuf<.*> as json_syntax::Print>::fmt_with$", "number")):
        insts = [i for i in P.inst if re.search(rx, i["name"])]
        if len(insts) != 1:
            res.violation(rule, "%s/print-%s/missing" % (rule, nm), "Print for %s not found" % nm)
            continue
        inst = insts[0]
        it = dispatch.Interp(P)
        dispatch.Lib(dispatch._role).install(it)
        dispatch.FmtLib().install(it)
        evs = []
        it.summaries.insert(0, (lambda i: i["name"] == "json_syntax::print::string_literal", lambda it_, st_, i_, a, c: (st_.emit("strlit", a[0]), Agg(dispatch.ret_ty(it_, c), 0, (dispatch.UNIT,)))[1]))
        it.summaries.insert(0, (lambda i: bool(re.search(r"^<json_number::NumberBuf<.*> as std::fmt::Display>::fmt$", i["name"])), lambda it_, st_, i_, a, c: (st_.emit("number", a[0]), Agg(dispatch.ret_ty(it_, c), 0, (dispatch.UNIT,)))[1]))
        it.summaries.insert(0, (lambda i: bool(re.search(r"^<smallstr::string::SmallString<A> as std::ops::Deref>::deref$|^smallstr::string::SmallString::<A>::as_str$", i["path"])), lambda it_, st_, i_, a, c: a[0]))
        st = State()
        selfref = Ref(("H", st.new_obj(Top(None, "self")).id), ())
        it.push_frame(st, inst["id"], [selfref, Top(None, "f"), Ref(("H", st.new_obj(Top(None, "o")).id), ()), Top(None, "indent")], None, None)
        try:
            outs = it.run(st)
            ok = len(outs) == 1 and outs[0].outcome[0] == "return" and [e[0] for e in outs[0].events] == [want] and outs[0].events[0][1] == selfref
            res.ob(ok, rule, "%s/print-%s" % (rule, nm), "Print for %s does not unconditionally delegate to %s (%d paths, events %r)" % (
                nm, "string_literal" if want == "strlit" else "the number's Display", len(outs), [[e[0] for e in o.events] for o in outs]),
                sample={"impl": "Print for " + nm, "delegates_to": want})
        except Undecided as e:
            res.violation(rule, "%s/print-%s/undecided" % (rule, nm), "undecided: %s" % e)
