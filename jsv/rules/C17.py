"""C17 — Value's own Serialize / Deserialize implementations (shape tables, number-token handshake,
duplicate-collapsing insert semantics; which number spellings survive is not decided)."""
import re

from .. import iset, shape, static
from ..absint import Agg, Conc, Expr, Obj, Ref, Str, Sym, Top, Undecided
from ..summ import AIter, AVec, LogVec
from . import C16

LEVEL = "other"
TOKEN = "$serde_json::private::Number"


def run(ctx, res):
    res.rules_run += ["C17.ser (Serialize for Value / Object: variant -> serializer call; items and entries in order; numbers delegated to the number crate)",
                      "C17.token (the private number token is the same string in json-syntax's serializer, its map visitor and json-number's Serialize)",
                      "C17.handshake (SerializeMap: empty object + token key -> number mode -> value through StringNumberSerializer -> end yields the number; otherwise ordinary entries)",
                      "C17.dedup (the map serializer and both visit_map implementations build objects with Object::insert: duplicates collapse to the first position with the last value)",
                      "C17.de (ValueVisitor: visit_* -> variant table; sequences collected in order) and C17.de.value (Value as a Deserializer: deserialize_any per variant and the sequence / map accessors — the part of C16.de that deserializing a Value from a Value drives)"]
    ser_rule(ctx, res)
    res.rules_run.append("C17.serializer (the methods of the crate's Serializer that Serialize for Value / Number drives — unit, bool, i64, u64, f64, str, seq — build the matching variant from the argument itself: C16.ser restricted to them)")
    C16.ser_rule(ctx, res, only={"root_ser_unit", "root_ser_bool", "root_ser_i64", "root_ser_u64", "root_ser_f64", "root_ser_str", "root_ser_seq"}, rule="C17.serializer")
    token_rule(ctx, res)
    handshake_rule(ctx, res)
    dedup_rule(ctx, res)
    visitor_rule(ctx, res)
    C16.de_rule(ctx, res, only={"any"}, rule="C17.de.value")
    C16.access_rule(ctx, res, rule="C17.de.access")
    # "duplicate keys collapse to the first position holding the last value" is what Object::insert does, if it is right:
    # C06.model restricted to insert (the entries afterwards, the removed entries, the index exact again)
    from . import C06
    res.rules_run.append("C17.insert (Object::insert on every small object: the first entry with the key is replaced in place, the other entries with that key are removed, the rest keeps its order, the key index is exact afterwards - C06.model restricted to insert)")
    C06.model_rule(ctx, res, rule="C17.insert", ops={"insert"})
    res.notes.append("not decided: which number spellings survive (integer syntax beyond 64 bits or with an exponent fails with 'number too large'; > 19 significant digits may be one ulp off) — numeric behaviour of json-number")
    res.trusted += ["json-number's Serialize / Deserializer for NumberBuf", "serde's blanket impls", "smallstr's PartialEq<str>"]


def value_ty(P):
    return C16.value_ty(P)


SER_CALL = re.compile(r"^<json_syntax::Serializer as .*Serializer>::(serialize_\w+)")


def ser_rule(ctx, res):
    P = ctx.P
    rule = "C17.ser"
    VT = value_ty(P)
    vn = [v["name"] for v in VT["variants"]]
    try:
        inst = shape.find_inst(P, r"^json_syntax::serde::ser::<impl .*Serialize for json_syntax::Value>::serialize::<json_syntax::Serializer>$")
        oinst = shape.find_inst(P, r"^json_syntax::serde::ser::<impl .*Serialize for json_syntax::Object>::serialize::<json_syntax::Serializer>$")
    except Undecided as e:
        res.violation(rule, rule + "/missing", str(e))
        return

    def mk():
        sh = shape.Shape(P)
        sh.cut(r"^<json_syntax::Serializer as .*Serializer>::serialize_", "ser", ret=lambda it, st, c, a: Agg(shape.ret_ty(it, c), 0, (Top(None, "S:" + SER_CALL.search(P.inst[st.frames[-1].inst]["name"] if False else "x").group(1) if False else "ser-result"),)))
        sh.cut(r"^<json_syntax::SerializeArray as .*SerializeSeq>::(serialize_element|end)", "seq", ret=lambda it, st, c, a: Agg(shape.ret_ty(it, c), 0, (Top(None, "seq-result"),)))
        sh.cut(r"^<json_syntax::SerializeMap as .*SerializeMap>::(serialize_entry|serialize_key|serialize_value|end)", "map", ret=lambda it, st, c, a: Agg(shape.ret_ty(it, c), 0, (Top(None, "map-result"),)))
        sh.cut(r"^json_syntax::serde::ser::<impl .*Serialize for json_syntax::Object>::serialize::<", "object")
        sh.cut(r"Deref>::deref$|SmallString::<.*>::as_str$", "deref", ret=lambda it, st, c, a: a[0])
        return sh

    def calls(o):
        out = []
        for e in shape.events(o):
            if e[0] == "ser":
                out.append((SER_CALL.search(e[3]).group(1),) + tuple(e[1][1:]))
            elif e[0] in ("seq", "map"):
                out.append((re.search(r"::(\w+)(::<.*>)?$", e[3]).group(1),) + tuple(e[1][1:]))
            elif e[0] == "object":
                out.append(("Object::serialize",) + tuple(e[1][:1]))
            elif e[0] == "ext" and "Serialize for json_number" in e[3]:
                out.append(("number.serialize",) + tuple(e[1][:1]))
        return out

    for vi, name in enumerate(vn):
        try:
            sh = mk()
            if name == "Array":
                payload = [sh.st.new_obj(AVec((Top(None, "i0"), Top(None, "i1")), "array"))]
            else:
                payload = [sh.sym(iset.BOOL, kind="b") if P.types[f["ty"]]["k"] == "bool" else Top(f["ty"], "payload") for f in VT["variants"][vi]["fields"]]
            me = sh.cell(Agg(VT["id"], vi, payload))
            outs = sh.run(inst, [me, Agg(None, 0, ())])
        except Undecided as e:
            res.violation(rule, "%s/%s/undecided" % (rule, name), "deviates from the reviewed shape; while interpreting: %s" % e)
            continue
        res.count("serialize_cases")
        cs = [calls(o) for o in outs]
        main = max(cs, key=len) if cs else []
        names = [c[0] for c in main]
        if name == "Null":
            ok = names == ["serialize_unit"]
        elif name == "Boolean":
            ok = names == ["serialize_bool"] and main[0][1] == payload[0]
        elif name == "Number":
            ok = names == ["number.serialize"] and main[0][1] in (payload[0], Ref(me.base, (("d", vi), ("f", 0))))
        elif name == "String":
            ok = names == ["serialize_str"] and main[0][1] in (payload[0], Ref(me.base, (("d", vi), ("f", 0))))
        elif name == "Array":
            ok = names == ["serialize_seq", "serialize_element", "serialize_element", "end"]
            if ok:
                ok = main[1][1] == Ref(("H", payload[0].id), (("el", 0),)) and main[2][1] == Ref(("H", payload[0].id), (("el", 1),))
                ln = main[0][1]
                ok = ok and isinstance(ln, Agg) and ln.variant == 1 and ln.fields[0] == Conc(2)
        else:
            ok = names == ["Object::serialize"]
        res.ob(ok, rule, "%s/%s" % (rule, name), "Serialize for Value::%s must call %s; it calls %r" % (name, {"Null": "serialize_unit", "Boolean": "serialize_bool(b)", "Number": "the number's Serialize", "String": "serialize_str(s)",
               "Array": "serialize_seq(Some(len)) + one serialize_element per item in order + end", "Object": "Object::serialize"}[name], names), sample={"variant": name, "calls": names})
    # Object: serialize_map(Some(len)), serialize_entry(key, value) in order, end
    try:
        sh = mk()
        ety = [t for t in P.types if t.get("name") == "json_syntax::object::Entry" and t["k"] == "adt" and "SmallString" in t["s"] and "Mapped" not in t["s"]][0]
        oty = [t for t in P.types if t.get("name") == "json_syntax::Object" and t["k"] == "adt"][0]
        ents = sh.st.new_obj(AVec((Agg(ety["id"], 0, (Top(None, "k0"), Top(None, "v0"))), Agg(ety["id"], 0, (Top(None, "k1"), Top(None, "v1")))), "entries"))
        me = sh.cell(Agg(oty["id"], 0, (ents, Top(None, "indexes"))))
        outs = sh.run(oinst, [me, Agg(None, 0, ())])
        cs = [calls(o) for o in outs]
        main = max(cs, key=len) if cs else []
        names = [c[0] for c in main]
        ok = names == ["serialize_map", "serialize_entry", "serialize_entry", "end"]
        if ok:
            for i in (0, 1):
                k, v = main[1 + i][1], main[1 + i][2]
                ok = ok and k in (Ref(("H", ents.id), (("el", i), ("f", 0))), Top(None, "k%d" % i)) and v == Ref(("H", ents.id), (("el", i), ("f", 1)))
        res.ob(ok, rule, rule + "/Object", "Serialize for Object must be serialize_map + one serialize_entry(key, value) per entry in order + end; it calls %r" % (names,), sample={"type": "Object", "calls": names})
        res.count("serialize_cases")
    except Undecided as e:
        res.violation(rule, rule + "/Object/undecided", "while interpreting: %s" % e)
    res.floor(rule, "serialize_cases", 7)


def str_consts(inst):
    out = set()

    def walk(o):
        if isinstance(o, dict):
            if o.get("k") == "str":
                out.add(o["v"])
            for v in o.values():
                walk(v)
        elif isinstance(o, list):
            for v in o:
                walk(v)
    if inst.get("has_mir"):
        walk(inst["blocks"])
    return out


def token_rule(ctx, res):
    P = ctx.P
    rule = "C17.token"
    places = {
        "json-syntax SerializeMap::serialize_key": r"^<json_syntax::SerializeMap as .*SerializeMap>::serialize_key::<str>$",
        "json-syntax map visitor (MapTag::visit_str)": r"MapTag as .*Deserialize<'de>>::deserialize::Visitor as .*Visitor<'_>>::visit_str::<",
        "json-number Serialize for Number": r"^json_number::serde::<impl .*Serialize for json_syntax::Number>::serialize::<json_syntax::Serializer>$",
    }
    for what, rx in places.items():
        insts = [i for i in P.inst if re.search(rx, i["name"])]
        if not insts:
            res.violation(rule, "%s/%s/missing" % (rule, what), "no instance matching %s (anchor lost)" % rx)
            continue
        consts = set()
        for i in insts:
            consts |= str_consts(i)
            # the constant may be referenced through a helper (promoted / const item): look one call level down too
        toks = [c for c in consts if "private" in c or c.startswith("$")]
        res.ob(TOKEN in consts and all(t == TOKEN for t in toks), rule, "%s/%s" % (rule, what), "%s does not use the number token %r (token-like constants: %r)" % (what, TOKEN, toks), sample={"site": what, "token": TOKEN})
        res.count("token_sites")
    res.floor(rule, "token_sites", 3)


def handshake_rule(ctx, res, rule="C17.handshake", dedup=True):
    """dedup=True (C17): in object mode the entry must be *inserted* (duplicates collapse); dedup=False (C16): appended or
    inserted, typed maps have no duplicate keys."""
    P = ctx.P
    try:
        sk = shape.find_inst(P, r"^<json_syntax::SerializeMap as .*SerializeMap>::serialize_key::<str>$")
        sv = shape.find_inst(P, r"^<json_syntax::SerializeMap as .*SerializeMap>::serialize_value::<bool>$")
        svs = shape.find_inst(P, r"^<json_syntax::SerializeMap as .*SerializeMap>::serialize_value::<str>$")
        en = shape.find_inst(P, r"^<json_syntax::SerializeMap as .*SerializeMap>::end$")
    except Undecided as e:
        res.violation(rule, rule + "/missing", str(e))
        return
    mty = P.types[sk["locals"][1]]["to"]
    mt = P.types[mty]
    mv = [v["name"] for v in mt["variants"]]
    OBJ, NUM = mv.index("Object"), mv.index("Number")
    nk_ty = mt["variants"][OBJ]["fields"][1]["ty"]
    num_opt = mt["variants"][NUM]["fields"][0]["ty"]

    def mk():
        sh = C16.mk_shape(P)
        return sh

    # serialize_key: 2x2 (object empty?, key == token?)
    for empty in (1, 0):
        for is_tok in (1, 0):
            try:
                sh = C16.mk_shape(P)
                sh.it.summaries.insert(0, (lambda i: i["name"] == "json_syntax::Object::is_empty", lambda it, st, i_, a, c, empty=empty: (st.emit("obj_is_empty", tuple(a), (), i_["name"]), Conc(empty))[1]))
                sh.cut(r"as std::cmp::PartialEq<&?str>>::eq$", "key_eq", ret=lambda it, st, c, a, is_tok=is_tok: Conc(is_tok))
                objtok = Top(None, "the-obj")
                me = sh.st.new_obj(Agg(mty, OBJ, (objtok, Agg(nk_ty, 0, ()))))
                outs = sh.run(sk, [Ref(("H", me.id), ()), Top(None, "the-key-str")])
                okp = len(outs) == 1 and outs[0].outcome[0] == "return" and C16.is_ok(outs[0].outcome[1])
                if okp:
                    o = outs[0]
                    after = o.heap[me.id]
                    eqs = [e for e in shape.events(o) if e[0] == "key_eq"]
                    tok_ok = all(any(isinstance(x, Str) and x.s == TOKEN for x in tuple(e[1]) + tuple(e[2])) for e in eqs)
                    if empty and is_tok:
                        good = after.variant == NUM and isinstance(after.fields[0], Agg) and after.fields[0].variant == 0 and tok_ok and len(eqs) == 1
                    else:
                        good = after.variant == OBJ and after.fields[0] == objtok and isinstance(after.fields[1], Agg) and after.fields[1].variant == 1
                        good = good and (not is_tok or len([e for e in shape.events(o) if e[0] == "obj_is_empty"]) == 1)
                    # the emptiness test must be on the object being built
                    ie = [e for e in shape.events(o) if e[0] == "obj_is_empty"]
                    if ie:
                        good = good and ie[0][1][0] == Ref(("H", me.id), (("d", OBJ), ("f", 0)))
                else:
                    good = False
                res.ob(good, rule, "%s/key/empty=%d/token=%d" % (rule, empty, is_tok), "serialize_key with the object %s and the key %s the number token must %s; state after: %r" % (
                    "empty" if empty else "non-empty", "equal to" if is_tok else "different from", "switch to number mode" if empty and is_tok else "remember the key for the next value",
                    outs[0].heap.get(me.id) if outs else None), sample={"object_empty": bool(empty), "key_is_token": bool(is_tok), "effect": "number mode" if empty and is_tok else "pending key"})
                res.count("handshake_cases")
            except Undecided as e:
                res.violation(rule, "%s/key/empty=%d/token=%d/undecided" % (rule, empty, is_tok), "while interpreting: %s" % e)
    # serialize_value in number mode: through StringNumberSerializer; in object mode: insert(pending key, serialized value)
    try:
        sh = C16.mk_shape(P)
        sh.cut(r"^<str as .*Serialize>::serialize::<json_syntax::StringNumberSerializer>$|^<json_syntax::StringNumberSerializer as .*Serializer>::serialize_str$", "strnum",
               ret=lambda it, st, c, a: Agg(shape.ret_ty(it, c), 0, (Top(None, "the-number"),)))
        me = sh.st.new_obj(Agg(mty, NUM, (Agg(num_opt, 0, ()),)))
        outs = sh.run(svs, [Ref(("H", me.id), ()), Top(None, "the-text")])
        ok = len(outs) == 1 and C16.is_ok(outs[0].outcome[1])
        if ok:
            after = outs[0].heap[me.id]
            ev = [e for e in shape.events(outs[0]) if e[0] == "strnum"]
            ok = after.variant == NUM and isinstance(after.fields[0], Agg) and after.fields[0].variant == 1 and after.fields[0].fields[0] == Top(None, "the-number") and len(ev) == 1
        res.ob(ok, rule, rule + "/value/number-mode", "in number mode serialize_value must store the number parsed from the text by StringNumberSerializer", sample={"mode": "number", "value": "through StringNumberSerializer"})
        sh = C16.mk_shape(P)
        keytok = Top(None, "pending-key")
        objtok = Top(None, "the-obj")
        me = sh.st.new_obj(Agg(mty, OBJ, (objtok, Agg(nk_ty, 1, (keytok,)))))
        b = sh.sym(iset.BOOL, kind="b")
        outs = sh.run(sv, [Ref(("H", me.id), ()), sh.cell(b)])
        ok = len(outs) == 1 and C16.is_ok(outs[0].outcome[1])
        tags = []
        if ok:
            o = outs[0]
            ins = [e for e in shape.events(o) if e[0] in ("obj_insert", "obj_push")]
            tags = [e[0] for e in ins]
            ok = (tags == ["obj_insert"] or (not dedup and tags == ["obj_push"])) and ins[0][1][1] == keytok and C16.vname(P, ins[0][1][2]) == "Boolean" and ins[0][1][2].fields[0] == b
            after = o.heap[me.id]
            ok = ok and after.variant == OBJ and isinstance(after.fields[1], Agg) and after.fields[1].variant == 0
        res.ob(ok, rule, rule + "/value/object-mode", "in object mode serialize_value must *insert* (pending key, serialized value) — duplicates collapse to the first position with the last value; it does %r" % (tags,),
               sample={"mode": "object", "adds_with": "Object::insert"})
        # end
        for state, want in ((Agg(mty, NUM, (Agg(num_opt, 1, (Top(None, "n"),)),)), "Number"), (Agg(mty, NUM, (Agg(num_opt, 0, ()),)), "Err"), (Agg(mty, OBJ, (Top(None, "o"), Agg(nk_ty, 0, ()))), "Object")):
            sh = C16.mk_shape(P)
            outs = sh.run(en, [state])
            ok = len(outs) == 1 and outs[0].outcome[0] == "return"
            if ok:
                rv = outs[0].outcome[1]
                if want == "Err":
                    ok = isinstance(rv, Agg) and rv.variant == 1
                else:
                    ok = C16.is_ok(rv) and C16.vname(P, rv.fields[0]) == want and rv.fields[0].fields[0] == Top(None, "n" if want == "Number" else "o")
            res.ob(ok, rule, "%s/end/%s" % (rule, want), "SerializeMap::end in state %s must yield %s" % ("number" if state.variant == NUM else "object", want), sample={"end": want})
        res.count("handshake_cases", 5)
    except Undecided as e:
        res.violation(rule, rule + "/value/undecided", "while interpreting: %s" % e)
    res.floor(rule, "handshake_cases", 9)


def dedup_rule(ctx, res):
    P = ctx.P
    rule = "C17.dedup"
    n = 0
    for what, rx in (("ValueVisitor::visit_map", r"^<json_syntax::serde::de::<impl [^>]*Deserialize<'de> for json_syntax::Value>::deserialize::ValueVisitor as [^>]*Visitor<'_>>::visit_map::<"), ("Object's visitor visit_map", r"for json_syntax::Object>::deserialize::Visitor as .*Visitor<'_>>::visit_map::<")):
        insts = [i for i in P.inst if re.search(rx, i["name"]) and "closure" not in i["name"] and i.get("has_mir")]
        if not insts:
            res.violation(rule, "%s/%s/missing" % (rule, what), "no instance of %s" % what)
            continue
        for inst in insts:
            cs = [c["path"] for bi, c, t in static.calls(P, inst) if c is not None]
            ins = [c for c in cs if c == "json_syntax::Object::insert"]
            push = [c for c in cs if c in ("json_syntax::Object::push", "json_syntax::Object::push_entry", "json_syntax::Object::push_front")]
            res.ob(len(ins) >= 1 and not push, rule, "%s/%s" % (rule, what), "%s must build the object with Object::insert (insert x%d, push x%d)" % (what, len(ins), len(push)), sample={"site": what, "adds_with": "Object::insert"})
            n += 1
    res.count("visit_map_instances", n)
    res.floor(rule, "visit_map_instances", 2)


def visitor_rule(ctx, res):
    P = ctx.P
    rule = "C17.de"
    VT = value_ty(P)

    def inst_of(m):
        r = sorted([i for i in P.inst if re.search(r"^<json_syntax::serde::de::<impl [^>]*Deserialize<'de> for json_syntax::Value>::deserialize::ValueVisitor as [^>]*Visitor<'_>>::%s(::<|$)" % m, i["name"]) and "closure" not in i["name"] and i.get("has_mir")], key=lambda i: i["name"])
        return r[0] if r else None

    table = [("visit_bool", "bool", "Boolean"), ("visit_i64", "int", "Number"), ("visit_u64", "int", "Number"), ("visit_str", "str", "String"), ("visit_string", "string", "String"),
             ("visit_unit", None, "Null")]
    for m, argk, want in table:
        inst = inst_of(m)
        if inst is None:
            res.violation(rule, "%s/%s/missing" % (rule, m), "ValueVisitor::%s is not instantiated in the program" % m)
            continue
        try:
            sh = C16.mk_shape(P)
            args = [Agg(None, 0, ())]
            a = None
            if argk == "bool":
                a = sh.sym(iset.BOOL, kind="b")
            elif argk == "int":
                t = P.types[inst["locals"][2]]
                a = sh.sym(iset.full(t["bits"], t["signed"]), kind="n")
            elif argk in ("str", "string"):
                a = Top(inst["locals"][2], "the-text")
            if a is not None:
                args.append(a)
            outs = sh.run(inst, args)
            ok = len(outs) == 1 and C16.is_ok(outs[0].outcome[1]) and C16.vname(P, outs[0].outcome[1].fields[0]) == want
            if ok and a is not None:
                v = outs[0].outcome[1].fields[0]
                ex = C16.ext_calls(outs[0])
                if argk == "bool":
                    ok = v.fields[0] == a
                else:
                    ok = len(ex) == 1 and ex[0][1][0] == a
            res.ob(ok, rule, "%s/%s" % (rule, m), "ValueVisitor::%s must produce Value::%s from its argument; got %s" % (m, want, C16.describe(P, outs)), sample={"visitor": m, "produces": want})
            res.count("visitor_methods")
        except Undecided as e:
            res.violation(rule, "%s/%s/undecided" % (rule, m), "while interpreting: %s" % e)
    # visit_f64: Number through try_from, else Null
    inst = inst_of("visit_f64")
    if inst is not None:
        for mode, want in (("ok", "Number"), ("err", "Null")):
            try:
                sh = C16.mk_shape(P)
                sh.cut(r"std::convert::TryFrom<f64>>::try_from$", "try_from", ret=lambda it, st, c, a, mode=mode: Agg(shape.ret_ty(it, c), 0 if mode == "ok" else 1, (Top(None, "n" if mode == "ok" else "e"),)))
                f = Top(None, "the-float")
                outs = sh.run(inst, [Agg(None, 0, ()), f])
                ev = [e for o in outs for e in shape.events(o) if e[0] == "try_from"]
                ok = len(outs) == 1 and C16.is_ok(outs[0].outcome[1]) and C16.vname(P, outs[0].outcome[1].fields[0]) == want and len(ev) == 1 and ev[0][1][0] == f
                res.ob(ok, rule, "%s/visit_f64/%s" % (rule, mode), "ValueVisitor::visit_f64 must give %s when NumberBuf::try_from %s; got %s" % (want, "succeeds" if mode == "ok" else "fails", C16.describe(P, outs)),
                       sample={"visitor": "visit_f64", "try_from": mode, "produces": want})
            except Undecided as e:
                res.violation(rule, "%s/visit_f64/undecided" % rule, "while interpreting: %s" % e)
        res.count("visitor_methods")
    else:
        res.violation(rule, rule + "/visit_f64/missing", "ValueVisitor::visit_f64 is not instantiated")
    # visit_seq: elements pushed in order
    inst = inst_of("visit_seq")
    if inst is not None:
        try:
            sh = C16.mk_shape(P)

            def nxt(it, st, c, a):
                k = st.ctr.get("el", 0)
                st.ctr["el"] = k + 1
                rt = shape.ret_ty(it, c)
                okt = P.types[rt]["variants"][0]["fields"][0]["ty"]
                if k < 2:
                    return Agg(rt, 0, (Agg(okt, 1, (Top(None, "elem%d" % k),)),))
                return Agg(rt, 0, (Agg(okt, 0, ()),))

            sh.cut(r"SeqAccess<'_>>::next_element::<json_syntax::Value>$|SeqAccess<'_>>::next_element_seed::<std::marker::PhantomData<json_syntax::Value>>$", "next", ret=nxt)
            outs = sh.run(inst, [Agg(None, 0, ()), Top(inst["locals"][2], "seq-access")])
            ok = len(outs) == 1 and C16.is_ok(outs[0].outcome[1]) and C16.vname(P, outs[0].outcome[1].fields[0]) == "Array"
            if ok:
                o = outs[0]
                arr = o.outcome[1].fields[0].fields[0]
                pushes = [e for e in o.events if e[0] == "push" and e[1] == "array"]
                ok = isinstance(arr, Obj) and [e[4] for e in pushes] == [Top(None, "elem0"), Top(None, "elem1")] and all(e[2] == arr.id for e in pushes)
            res.ob(ok, rule, rule + "/visit_seq", "ValueVisitor::visit_seq must collect the elements in order into an Array; got %s" % C16.describe(P, outs), sample={"visitor": "visit_seq", "produces": "Array in order"})
            res.count("visitor_methods")
        except Undecided as e:
            res.violation(rule, rule + "/visit_seq/undecided", "while interpreting: %s" % e)
    res.floor(rule, "visitor_methods", 8)
