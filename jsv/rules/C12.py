"""C12 — lenient options are a conservative extension relaxing only surrogate escapes."""
import re

from .. import entry, parsercheck, static
from ..absint import Agg, Conc, State, Undecided

LEVEL = "model_checking"


def run(ctx, res):
    res.rules_run += ["C12.upper/C12.lower (P(o) = R(o) for the three lenient valuations: language, outputs, code map, errors; deviations that the strict parser shows identically are left to C01/C02/C05/C07, deviations of one mode only are reported)",
                      "C12.flow (the two flags are read only inside the string scanner)",
                      "C12.default (Options::default() = strict() = both false; flexible() = both true)"]
    parsercheck.apply(ctx, res, ["C0", "E2."], strict_only=False, lenient_only=True, relative=True, finding_filter=not_c12)
    flow(ctx, res)
    defaults(ctx, res)
    from . import C01
    res.rules_run.append("C12.entry (every `_with` entry point hands its options unchanged to the parser and takes no decision of its own on a flag: on every path to the core both flags are unconstrained)")
    C01.entry_rule(ctx, res, rule="C12.entry", only_with_options=True)


def unpaired_surrogate_escape(witness):
    """True if the witness input (a Python string in which a JSON escape reads \\uXXXX) contains a \\u escape denoting an
    unpaired surrogate that is already known to be unpaired (a high surrogate at the very end may still get its low half)."""
    w = witness if isinstance(witness, str) else ""
    i, pending = 0, False
    while i < len(w):
        if w[i] == "\\" and i + 1 < len(w):
            m = re.match(r"u([0-9a-fA-F]{4})", w[i + 1:])
            if m:
                u = int(m.group(1), 16)
                i += 6
                if 0xDC00 <= u <= 0xDFFF:
                    if not pending:
                        return True
                    pending = False
                    continue
                if pending:
                    return True
                pending = 0xD800 <= u <= 0xDBFF
                continue
            if pending:
                return True
            i += 2
            continue
        if pending:
            return True
        i += 1
    return False


def not_c12(f, strict):
    """What the statement of C12 does not speak about (returns the reason, or None if the finding is C12's business).
    C12 states: strict-valid documents give the identical value and code map under every option combination; the lenient
    options accept only R(o); each relaxed escape decodes to one U+FFFD, pairs still combine, the options are independent.
    It does not state which error a lenient parser reports when both it and R(o) reject, and the code map of a document
    that is accepted only leniently is C05's clause (C05 runs all four valuations)."""
    key = f["key"]
    if key.startswith("error/"):
        return "both reject; which error a lenient parser reports is stated by no clause of C12"
    if f["rule"].startswith("C05.") and unpaired_surrogate_escape(f.get("witness")):
        return "code map of a document accepted only leniently: C05's clause"
    return None


def flow(ctx, res):
    P = ctx.P
    root = P.roots["root_parse_model"]
    readers = set()
    for iid in P.reachable([root]):
        inst = P.inst[iid]
        for bi, acc, fname, last in static.field_accesses(P, inst, "json_syntax::parse::Options"):
            if fname in ("accept_truncated_surrogate_pair", "accept_invalid_codepoints"):
                readers.add(inst["name"])
    res.count("option_flag_readers", len(readers))
    for n in sorted(readers):
        ok = "json_syntax::parse::string::" in n
        res.ob(ok, "C12.flow", "C12.flow/reader/" + n, "a leniency flag is consulted outside the string scanner: %s" % n, sample={"flag_reader": n})
    res.floor("C12.flow", "option_flag_readers", 1)


def defaults(ctx, res):
    P = ctx.P
    exp = {"root_parse_options_default": (0, 0), "root_parse_options_strict": (0, 0), "root_parse_options_flexible": (1, 1)}
    for root, want in exp.items():
        it = entry.mk_interp(P)
        st = State()
        it.push_frame(st, P.roots[root], [], None, None)
        try:
            outs = it.run(st)
        except Undecided as e:
            res.violation("C12.default", "C12.default/undecided/" + root, "undecided: %s" % e)
            continue
        ok = len(outs) == 1 and outs[0].outcome[0] == "return" and isinstance(outs[0].outcome[1], Agg) and tuple(outs[0].outcome[1].fields) == (Conc(want[0]), Conc(want[1]))
        res.ob(ok, "C12.default", "C12.default/" + root[5:], "%s does not evaluate to (truncated=%d, invalid=%d)" % (root[5:], want[0], want[1]),
               sample={"preset": root[5:], "value": want})
