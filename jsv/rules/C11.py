"""C11 — code-map offsets navigate correctly: linear summaries of the mapped iterators, of the
fragment lookup and of the conversion traits, compared with the layout the parser produces
(first child at +1; an entry is followed by its key at +1 and its value at +2 and occupies
2 + vol(value); an array child occupies vol(child))."""
import re

from .. import iset, linear, shape, static
from ..absint import FALSE, UNIT, Agg, Conc, Expr, Obj, Ref, Sym, Top, Undecided
from ..summ import AIter, AVec

LEVEL = "other"


def run(ctx, res):
    res.rules_run += ["C11.iter (one next() of array::IterMapped / object::IterMapped and of the four keyed Mapped* iterators: yields and steps as linear forms over the offset and VOL[.])",
                      "C11.frag (one level of Value / Entry / Object::get_fragment and get_array_fragment: 0 -> self, entry 1 -> key, n -> value(n-2), remainder threaded through the children in order, past-the-end distance returned)",
                      "C11.traverse (Traverse::next pops one fragment, numbers from 0 upwards, pushes the sub-fragments reversed; SubFragments of an entry: key then value)",
                      "C11.conv (TryFromJson: mismatch reported at the incoming offset; Option / Box pass the offset through; Vec / BTreeMap convert every element at its mapped offset)"]
    iter_rule(ctx, res)
    frag_rule(ctx, res)
    traverse_rule(ctx, res)
    conv_rule(ctx, res)
    res.assumptions.append("offset additions do not overflow usize (offsets are bounded by the length of the code map)")
    # "Given a parsed value and its code map": the navigation is right on parsed documents only if the parser writes exactly
    # the layout the iterators assume (one entry per fragment, pre-order, volume = size of the subtree) under every option
    # valuation, and the keyed lookups walk the index positions in increasing order
    from .. import parsercheck
    from . import C06
    res.rules_run.append("C11.codemap (the parser's code map is the layout the mapped iterators assume: fragment events of P = fragment events of R, all four option valuations)")
    parsercheck.apply(ctx, res, ["C05.", "E2."], strict_only=False, rename="C11.codemap")
    res.rules_run.append("C11.lookup (the key index the keyed mapped lookups walk: push keeps it exact, positions per key sorted - C06.model restricted to push and the queries, C06.sorted insertion cases)")
    C06.model_rule(ctx, res, rule="C11.lookup", ops={"push", "queries"})
    C06.sorted_rule(ctx, res, insert_only=True)


# ---- helpers -------------------------------------------------------------------------------------------------------
def vol(x):
    return Expr("VOL", (x,), (64, False))


def lin2(e):
    """Linear form where VOL(arg) terms are atoms named by the linear form of their argument."""
    if isinstance(e, Expr) and e.op == "VOL":
        return (0, {("VOL", linear.freeze(lin2(e.args[0]))): 1})
    if isinstance(e, Conc):
        return (e.v, {})
    if isinstance(e, Sym):
        return (0, {e.id: 1})
    if isinstance(e, Expr) and e.op in ("Add", "AddUnchecked"):
        return linear.add(lin2(e.args[0]), lin2(e.args[1]))
    if isinstance(e, Expr) and e.op in ("Sub", "SubUnchecked"):
        return linear.add(lin2(e.args[0]), linear.scale(lin2(e.args[1]), -1))
    raise linear.NotLinear(repr(e))


def same(a, b):
    try:
        return linear.freeze(lin2(a)) == linear.freeze(lin2(b))
    except linear.NotLinear:
        return False


def plus(a, k):
    return Expr("Add", (a, Conc(k)), (64, False))


def field_roles(P, sty, value=None):
    """Roles of the fields of one of the (private) mapped-iterator / Traverse records, found by *type* and, for the two
    `usize` counters of the keyed iterators, by the value the public constructor gives them (0 -> last_index, otherwise the
    offset).  Field names are not used: renaming a private field must not matter."""
    flds = P.types[sty]["variants"][0]["fields"]
    roles = {}
    usize = []
    for i, f in enumerate(flds):
        ts = P.types[f["ty"]]["s"]
        if ts == "usize":
            usize.append(i)
        elif "CodeMap" in ts:
            roles["code_map"] = i
        elif "json_syntax::object::Indexes" in ts:
            roles["indexes"] = i
        elif ts.startswith("&") and "json_syntax::Object" in ts:
            roles["object"] = i
        elif "std::slice::Iter" in ts:
            roles["iter"] = i
        elif "SmallVec" in ts or "std::vec::Vec" in ts:
            roles["stack"] = i
    if len(usize) == 1:
        roles["offset"] = usize[0]
    elif len(usize) == 2:
        if value is not None:
            zero = [i for i in usize if value.fields[i] == Conc(0)]
            if len(zero) == 1:
                roles["last_index"] = zero[0]
                roles["offset"] = [i for i in usize if i != zero[0]][0]
        if "offset" not in roles:  # fall back on the names
            names = [f["name"] for f in flds]
            if "offset" in names and "last_index" in names:
                roles["offset"], roles["last_index"] = names.index("offset"), names.index("last_index")
    return roles


def build_record(P, sty, roles, vals):
    n = len(P.types[sty]["variants"][0]["fields"])
    inv = {i: r for r, i in roles.items()}
    if len(inv) != n or any(inv[i] not in vals for i in range(n)):
        raise Undecided("cannot identify the fields of %s (%r)" % (P.types[sty]["s"], roles))
    return Agg(sty, 0, tuple(vals[inv[i]] for i in range(n)))


ROLES = {}


def mk_shape(P, entry_ty):
    sh = shape.Shape(P)

    def no_overflow(st, base, a, b, tid):
        if base in ("Add", "Sub") and not (isinstance(a, Conc) and isinstance(b, Conc)):
            return (Expr(base, (a, b), (64, False)), FALSE)
        return None

    sh.it.overflow_hooks.append(no_overflow)
    # code_map.get(i): Some(&Entry{span, volume: VOL[i]})
    sh.cut(r"^<json_syntax::CodeMap as std::ops::Deref>::deref$", "cm_deref", ret=lambda it, st, c, a: Top(None, "code-map-slice"))

    def get(it, st, c, a):
        cell = st.new_obj(Agg(entry_ty, 0, (Top(None, "span"), vol(a[1]))))
        return Agg(shape.ret_ty(it, c), 1, (Ref(("H", cell.id), ()),))

    sh.cut(r"^core::slice::<impl \[json_syntax::code_map::Entry\]>::get::<usize>$", "vol_lookup", ret=get)
    return sh


def types(P):
    d = {}
    for t in P.types:
        n = t.get("name")
        if t["k"] == "adt" and n in ("json_syntax::code_map::Entry", "json_syntax::Object", "json_syntax::Value", "json_syntax::array::IterMapped", "json_syntax::object::IterMapped",
                                     "json_syntax::CodeMap", "json_syntax::object::Indexes"):
            d[n] = t
        if t["k"] == "adt" and n == "json_syntax::object::Entry" and "SmallString" in t["s"] and "Mapped" not in t["s"]:
            d["entry"] = t
    return d


def mapped_fields(P, v):
    """(offset, value) of a code_map::Mapped aggregate."""
    if isinstance(v, Agg) and v.ty is not None and P.types[v.ty].get("name") == "json_syntax::code_map::Mapped":
        return v.fields[0], v.fields[1]
    return None, None


def iter_rule(ctx, res):
    P = ctx.P
    rule = "C11.iter"
    T = types(P)
    ety = T["json_syntax::code_map::Entry"]["id"]
    # ---- array::IterMapped ------------------------------------------------------------------------------------
    try:
        inst = shape.find_inst(P, r"^<json_syntax::array::IterMapped<'_, '_> as std::iter::Iterator>::next$")
        sh = mk_shape(P, ety)
        items = sh.st.new_obj(AVec((Top(None, "item0"), Top(None, "item1")), "items"))
        itr = sh.st.new_obj(AIter(items.id, 0, 2))
        off = sh.sym(kind="offset")
        aty = T["json_syntax::array::IterMapped"]["id"]
        ar = field_roles(P, aty)
        me = sh.st.new_obj(build_record(P, aty, ar, {"iter": itr, "code_map": sh.cell(Top(None, "code-map")), "offset": off}))
        outs = sh.run(inst, [Ref(("H", me.id), ())])
        ok = len(outs) == 1 and outs[0].outcome[0] == "return"
        res.ob(ok, rule, rule + "/array/paths", "array::IterMapped::next: %d paths" % len(outs))
        if ok:
            o = outs[0]
            rv = o.outcome[1]
            m_off, m_val = mapped_fields(P, rv.fields[0]) if isinstance(rv, Agg) and rv.variant == 1 else (None, None)
            res.ob(m_off == off and m_val == Ref(("H", items.id), (("el", 0),)), rule, rule + "/array/yield", "array::IterMapped must yield the next item at the current offset (yields offset %r, item %r)" % (m_off, m_val),
                   sample={"iterator": "array::IterMapped", "yields": "(offset, item)"})
            new_off = o.heap[me.id].fields[ar["offset"]]
            res.ob(same(new_off, Expr("Add", (off, vol(off)), None)), rule, rule + "/array/step", "array::IterMapped must advance by the volume of the item it yields: offset' = %r, expected offset + VOL[offset]" % (new_off,),
                   sample={"iterator": "array::IterMapped", "step": "offset + VOL[offset]"})
        res.count("iterators")
    except Undecided as e:
        res.violation(rule, rule + "/array/undecided", "deviates from the reviewed shape; while interpreting: %s" % e)
    # ---- constructors start at offset + 1 ---------------------------------------------------------------------
    for root, what in (("root_array_iter_mapped", "Vec<Value>::iter_mapped"), ("root_slice_iter_mapped", "[Value]::iter_mapped"), ("root_object_iter_mapped", "Object::iter_mapped"),
                       ("root_object_get_mapped_entries", "get_mapped_entries"), ("root_object_get_mapped_entries_with_index", "get_mapped_entries_with_index"),
                       ("root_object_get_mapped", "get_mapped"), ("root_object_get_mapped_with_index", "get_mapped_with_index")):
        try:
            sh = shape.Shape(P)
            sh.cut(r"^json_syntax::object::index_map::IndexMap::get::<", "lookup", ret=lambda it, st, c, a: Agg(shape.ret_ty(it, c), 0, ()))
            rinst = P.inst[P.roots[root]]
            off = sh.sym(kind="offset")
            args = []
            for li in range(1, rinst["arg_count"] + 1):
                t = P.types[rinst["locals"][li]]
                if t["k"] == "int":
                    args.append(off)
                elif t["k"] == "ref":
                    pt = P.types[t["to"]]
                    if pt["s"] == "std::vec::Vec<json_syntax::Value>":
                        args.append(sh.cell(sh.st.new_obj(AVec((Top(None, "i0"),), "items"))))
                    elif pt["s"] == "[json_syntax::Value]":
                        args.append(Ref(("H", sh.st.new_obj(AVec((Top(None, "i0"),), "items")).id), ()))
                    elif pt.get("name") == "json_syntax::Object":
                        args.append(sh.cell(Agg(pt["id"], 0, (sh.st.new_obj(AVec((), "entries")), Top(None, "indexes")))))
                    else:
                        args.append(sh.cell(Top(t.get("to"), "arg%d" % li)))
                else:
                    args.append(Top(rinst["locals"][li], "arg"))
            sh.it.overflow_hooks.append(lambda st, base, a, b, tid: (Expr(base, (a, b), (64, False)), FALSE) if not (isinstance(a, Conc) and isinstance(b, Conc)) else None)
            outs = sh.run(rinst, args)
            ok = len(outs) == 1 and outs[0].outcome[0] == "return"
            rv = outs[0].outcome[1] if ok else None
            roles = field_roles(P, rv.ty, rv) if isinstance(rv, Agg) and rv.ty is not None else {}
            if roles:
                ROLES[rv.ty] = roles
            start = rv.fields[roles["offset"]] if "offset" in roles else None
            res.ob(ok and start is not None and same(start, plus(off, 1)), rule, "%s/start/%s" % (rule, what), "%s must start at offset + 1 (the first child of a container), starts at %r" % (what, start),
                   sample={"constructor": what, "starts_at": "offset + 1"})
            if isinstance(rv, Agg) and len([f for f in P.types[rv.ty]["variants"][0]["fields"] if P.types[f["ty"]]["s"] == "usize"]) == 2:
                res.ob("last_index" in roles, rule, "%s/start/%s/last_index" % (rule, what), "%s must start with its entry counter at 0 and its offset at offset + 1 (counters: %r)" % (
                    what, [rv.fields[i] for i, f in enumerate(P.types[rv.ty]["variants"][0]["fields"]) if P.types[f["ty"]]["s"] == "usize"]))
            res.count("iterators")
        except Undecided as e:
            res.violation(rule, "%s/start/%s/undecided" % (rule, what), "while interpreting: %s" % e)
    # ---- object::IterMapped and the keyed iterators -------------------------------------------------------------------
    entry = T["entry"]

    def entries_vec(sh, n):
        return sh.st.new_obj(AVec(tuple(Agg(entry["id"], 0, (Top(None, "key%d" % i), Top(None, "val%d" % i))) for i in range(n)), "entries"))

    def check_entry_yield(P, v, off, ents, idx, what, key):
        """v: Mapped<Entry<Mapped<&Key>, Mapped<&Value>>>"""
        m_off, m_val = mapped_fields(P, v)
        ok = m_off is not None and same(m_off, off) and isinstance(m_val, Agg) and len(m_val.fields) == 2
        if ok:
            k_off, k_val = mapped_fields(P, m_val.fields[0])
            v_off, v_val = mapped_fields(P, m_val.fields[1])
            ok = k_off is not None and v_off is not None and same(k_off, plus(off, 1)) and same(v_off, plus(off, 2)) and \
                k_val == Ref(("H", ents.id), (("el", idx), ("f", 0))) and v_val == Ref(("H", ents.id), (("el", idx), ("f", 1)))
        res.ob(ok, rule, key + "/yield", "%s must yield (entry at offset, its key at offset+1, its value at offset+2) for entry %d: %r" % (what, idx, v),
               sample={"iterator": what, "yields": "entry@o, key@o+1, value@o+2"})

    try:
        inst = shape.find_inst(P, r"^<json_syntax::object::IterMapped<'_, '_> as std::iter::Iterator>::next$")
        sh = mk_shape(P, ety)
        ents = entries_vec(sh, 2)
        itr = sh.st.new_obj(AIter(ents.id, 0, 2))
        off = sh.sym(kind="offset")
        oity = T["json_syntax::object::IterMapped"]["id"]
        orl = field_roles(P, oity)
        me = sh.st.new_obj(build_record(P, oity, orl, {"iter": itr, "code_map": sh.cell(Top(None, "code-map")), "offset": off}))
        outs = sh.run(inst, [Ref(("H", me.id), ())])
        ok = len(outs) == 1 and outs[0].outcome[0] == "return"
        res.ob(ok, rule, rule + "/object/paths", "object::IterMapped::next: %d paths" % len(outs))
        if ok:
            o = outs[0]
            rv = o.outcome[1]
            if isinstance(rv, Agg) and rv.variant == 1:
                check_entry_yield(P, rv.fields[0], off, ents, 0, "object::IterMapped", rule + "/object")
            else:
                res.violation(rule, rule + "/object/yield", "object::IterMapped::next yields nothing on a non-empty object")
            new_off = o.heap[me.id].fields[orl["offset"]]
            res.ob(same(new_off, Expr("Add", (plus(off, 2), vol(plus(off, 2))), None)), rule, rule + "/object/step",
                   "object::IterMapped must advance by 2 + the volume of the entry's value: offset' = %r, expected offset + 2 + VOL[offset + 2]" % (new_off,),
                   sample={"iterator": "object::IterMapped", "step": "offset + 2 + VOL[offset+2]"})
        res.count("iterators")
    except Undecided as e:
        res.violation(rule, rule + "/object/undecided", "deviates from the reviewed shape; while interpreting: %s" % e)
    # keyed iterators: next() with the key's first position 2 (two entries are skipped)
    idx_ty = T.get("json_syntax::object::Indexes")
    for nm, kind in (("MappedEntries", "entry"), ("MappedEntriesWithIndex", "ientry"), ("MappedValues", "value"), ("MappedValuesWithIndex", "ivalue")):
        key = "%s/%s" % (rule, nm)
        try:
            inst = shape.find_inst(P, r"^<json_syntax::object::%s<'_, '_> as std::iter::Iterator>::next$" % nm)
            sh = mk_shape(P, ety)
            ents = entries_vec(sh, 4)
            oty = T["json_syntax::Object"]["id"]
            obj = sh.cell(Agg(oty, 0, (ents, Top(None, "indexes"))))
            other = sh.st.new_obj(AVec((Conc(3),), "other"))
            oiter = sh.st.new_obj(AIter(other.id, 0, 1))
            ity = idx_ty["id"]
            vnames = [v["name"] for v in idx_ty["variants"]]
            some_v = vnames.index("Some")
            opt_usize = idx_ty["variants"][some_v]["fields"][0]["ty"]
            indexes = Agg(ity, some_v, (Agg(opt_usize, 1, (Conc(2),)), oiter))
            off = sh.sym(kind="offset")
            sty = P.types[inst["locals"][1]]["to"]
            kr = ROLES.get(sty) or field_roles(P, sty)
            vals = {"indexes": indexes, "object": obj, "code_map": sh.cell(Top(None, "code-map")), "offset": off, "last_index": Conc(0)}
            me = sh.st.new_obj(build_record(P, sty, kr, vals))
            outs = sh.run(inst, [Ref(("H", me.id), ())])
            if len(outs) != 1 or outs[0].outcome[0] != "return":
                res.violation(rule, key + "/paths", "%s::next: %s" % (nm, [o.outcome[0] for o in outs]))
                continue
            o = outs[0]
            st_after = {r: o.heap[me.id].fields[i] for r, i in kr.items()}
            o1 = Expr("Add", (plus(off, 2), vol(plus(off, 2))), None)
            o2 = Expr("Add", (plus(o1, 2), vol(plus(o1, 2))), None)
            res.ob(same(st_after["offset"], o2) and st_after["last_index"] == Conc(2), rule, key + "/catch-up",
                   "%s must advance once per skipped entry (2 entries before position 2): offset' = %r, last_index' = %r" % (nm, st_after["offset"], st_after["last_index"]),
                   sample={"iterator": nm, "skips": 2, "last_index_after": 2})
            rv = o.outcome[1]
            item = rv.fields[0] if isinstance(rv, Agg) and rv.variant == 1 else None
            if kind.startswith("i") and isinstance(item, Agg) and item.ty is None:
                res.ob(item.fields[0] == Conc(2), rule, key + "/index", "%s must pair the entry with its position (2), yields %r" % (nm, item.fields[0]))
                item = item.fields[1]
            if kind.endswith("entry"):
                check_entry_yield(P, item, o2, ents, 2, nm, key)
            else:
                m_off, m_val = mapped_fields(P, item)
                res.ob(m_off is not None and same(m_off, plus(o2, 2)) and m_val == Ref(("H", ents.id), (("el", 2), ("f", 1))), rule, key + "/yield",
                       "%s must yield the value of entry 2 at offset + 2, yields %r" % (nm, item), sample={"iterator": nm, "yields": "value@o+2"})
            res.count("iterators")
        except Undecided as e:
            res.violation(rule, key + "/undecided", "deviates from the reviewed shape; while interpreting: %s" % e)
    res.floor(rule, "iterators", 12)


def frag_rule(ctx, res):
    P = ctx.P
    rule = "C11.frag"
    T = types(P)
    vt = T["json_syntax::Value"]
    vn = [v["name"] for v in vt["variants"]]
    fr = [t for t in P.types if t.get("name") == "json_syntax::FragmentRef" and t["k"] == "adt"][0]
    frn = [v["name"] for v in fr["variants"]]

    def fragref(rv):
        """('Value'|'Entry'|'Key', payload) for Ok(FragmentRef::X(p)); ('Err', e) for Err."""
        if not isinstance(rv, Agg):
            return ("?", rv)
        if rv.variant == 1:
            return ("Err", rv.fields[0])
        f = rv.fields[0]
        if isinstance(f, Agg) and f.ty == fr["id"]:
            return (frn[f.variant], f.fields[0])
        return ("Ok", f)

    def no_overflow(st, base, a, b, tid):
        if base in ("Add", "Sub") and not (isinstance(a, Conc) and isinstance(b, Conc)):
            return (Expr(base, (a, b), (64, False)), FALSE)
        return None

    try:
        vg = shape.find_inst(P, r"^json_syntax::Value::get_fragment$")
        for vi, name in enumerate(vn):
            for idx in ("zero", "pos"):
                sh = shape.Shape(P)
                sh.it.overflow_hooks.append(no_overflow)
                sh.cut(r"^json_syntax::get_array_fragment$", "array", ret=lambda it, st, c, a: Top(shape.ret_ty(it, c), "R"))
                sh.cut(r"^json_syntax::Object::get_fragment$", "object", ret=lambda it, st, c, a: Top(shape.ret_ty(it, c), "R"))
                sh.cut(r"^<std::vec::Vec<json_syntax::Value> as std::ops::Deref>::deref$", "deref", ret=lambda it, st, c, a: a[0])
                payload = [Top(f["ty"], "payload") for f in vt["variants"][vi]["fields"]]
                me = sh.cell(Agg(vt["id"], vi, payload))
                n = Conc(0) if idx == "zero" else sh.sym(((1, (1 << 63)),), kind="index")
                outs = sh.run(vg, [me, n])
                key = "%s/Value::%s/%s" % (rule, name, idx)
                if len(outs) != 1 or outs[0].outcome[0] != "return":
                    res.violation(rule, key + "/paths", "Value::get_fragment(%s, %s): %s" % (name, idx, [o.outcome[0] for o in outs]))
                    continue
                o = outs[0]
                ev = [e for e in shape.events(o) if e[0] != "deref"]
                k, p = fragref(o.outcome[1])
                if idx == "zero":
                    ok = k == "Value" and p == me and not ev
                    why = "index 0 is the value itself"
                elif name == "Array":
                    ok = len(ev) == 1 and ev[0][0] == "array" and same(ev[0][1][1], plus(n, -1)) and isinstance(o.outcome[1], Top)
                    why = "an array threads index-1 through its items and returns that result"
                elif name == "Object":
                    ok = len(ev) == 1 and ev[0][0] == "object" and same(ev[0][1][1], plus(n, -1)) and isinstance(o.outcome[1], Top)
                    why = "an object threads index-1 through its entries and returns that result"
                else:
                    ok = k == "Err" and same(p, plus(n, -1)) and not ev
                    why = "a scalar has no sub-fragments: the remaining distance index-1 is returned"
                res.ob(ok, rule, key, "Value::get_fragment on %s with index %s: %s; got %r after %r" % (name, idx, why, o.outcome[1], [(e[0], repr(e[1][1:])) for e in ev]),
                       sample={"value": name, "index": idx, "result": k if not isinstance(o.outcome[1], Top) else "delegated"})
                res.count("fragment_cases")
        # Entry::get_fragment
        eg = shape.find_inst(P, r"^json_syntax::object::Entry::get_fragment$")
        entry = T["entry"]
        for idx in (0, 1, "n"):
            sh = shape.Shape(P)
            sh.it.overflow_hooks.append(no_overflow)
            sh.cut(r"^json_syntax::Value::get_fragment$", "value", ret=lambda it, st, c, a: Top(shape.ret_ty(it, c), "R"))
            me = sh.st.new_obj(Agg(entry["id"], 0, (Top(None, "key"), Top(None, "val"))))
            n = Conc(idx) if idx != "n" else sh.sym(((2, 1 << 63),), kind="index")
            outs = sh.run(eg, [Ref(("H", me.id), ()), n])
            key = "%s/Entry/%s" % (rule, idx)
            if len(outs) != 1 or outs[0].outcome[0] != "return":
                res.violation(rule, key + "/paths", "Entry::get_fragment(%s): %s" % (idx, [o.outcome[0] for o in outs]))
                continue
            o = outs[0]
            ev = shape.events(o)
            k, p = fragref(o.outcome[1])
            if idx == 0:
                ok = k == "Entry" and p == Ref(("H", me.id), ()) and not ev
            elif idx == 1:
                ok = k == "Key" and p == Ref(("H", me.id), (("f", 0),)) and not ev
            else:
                ok = len(ev) == 1 and ev[0][1][0] == Ref(("H", me.id), (("f", 1),)) and same(ev[0][1][1], plus(n, -2)) and isinstance(o.outcome[1], Top)
            res.ob(ok, rule, key, "Entry::get_fragment(%s) must be 0 -> the entry, 1 -> its key, n -> value.get_fragment(n-2); got %r after %r" % (idx, o.outcome[1], [(e[0], repr(e[1])) for e in ev]),
                   sample={"entry_index": str(idx), "result": k if not isinstance(o.outcome[1], Top) else "value.get_fragment(n-2)"})
            res.count("fragment_cases")
        # get_array_fragment / Object::get_fragment: thread the remainder through the children in order
        for fn_rx, child_rx, mk, what in ((r"^json_syntax::get_array_fragment$", r"^json_syntax::Value::get_fragment$", "array", "get_array_fragment"),
                                          (r"^json_syntax::Object::get_fragment$", r"^json_syntax::object::Entry::get_fragment$", "object", "Object::get_fragment")):
            inst = shape.find_inst(P, fn_rx)
            for hit in (None, 1):
                sh = shape.Shape(P)
                sh.it.overflow_hooks.append(no_overflow)
                rems = []

                def child(it, st, c, a, hit=hit):
                    k = st.ctr.get("k", 0)
                    st.ctr["k"] = k + 1
                    rt = shape.ret_ty(it, c)
                    if hit is not None and k == hit:
                        return Agg(rt, 0, (Top(None, "FOUND"),))
                    r = st.fresh_sym(((0, (1 << 64) - 1),), kind="remainder", k=k)
                    return Agg(rt, 1, (r,))

                sh.cut(child_rx, "child", ret=child)
                if mk == "array":
                    items = sh.st.new_obj(AVec(tuple(Top(None, "item%d" % i) for i in range(3)), "items"))
                    first = Ref(("H", items.id), ())
                else:
                    ents = sh.st.new_obj(AVec(tuple(Agg(T["entry"]["id"], 0, (Top(None, "k%d" % i), Top(None, "v%d" % i))) for i in range(3)), "entries"))
                    first = sh.cell(Agg(T["json_syntax::Object"]["id"], 0, (ents, Top(None, "indexes"))))
                    items = ents
                n = sh.sym(kind="index")
                outs = sh.run(inst, [first, n])
                key = "%s/%s/%s" % (rule, what, "found-at-1" if hit is not None else "past-the-end")
                if len(outs) != 1 or outs[0].outcome[0] != "return":
                    res.violation(rule, key + "/paths", "%s: %s" % (what, [o.outcome[0] for o in outs]))
                    continue
                o = outs[0]
                ev = [e for e in shape.events(o) if e[0] == "child"]
                rsyms = sorted((info.get("k"), s) for s, info in o.syminfo.items() if info.get("kind") == "remainder")
                expect_calls = 3 if hit is None else hit + 1
                ok = len(ev) == expect_calls and [e[1][0] for e in ev] == [Ref(("H", items.id), (("el", i),)) for i in range(expect_calls)]
                ok = ok and ev[0][1][1] == n and all(ev[i][1][1] == Sym(rsyms[i - 1][1]) for i in range(1, len(ev)))
                if hit is None:
                    k, p = fragref(o.outcome[1])
                    ok = ok and k == "Err" and p == Sym(rsyms[-1][1])
                else:
                    ok = ok and isinstance(o.outcome[1], Agg) and o.outcome[1].variant == 0 and o.outcome[1].fields[0] == Top(None, "FOUND")
                res.ob(ok, rule, key, "%s must ask each child in order, passing on the remainder the previous child returned, stop at the first hit and otherwise return the last remainder; calls %r, result %r" % (
                    what, [(repr(e[1][0]), repr(e[1][1])) for e in ev], o.outcome[1]), sample={"function": what, "case": "found at child 1" if hit is not None else "past the end", "children_asked": len(ev)})
                res.count("fragment_cases")
    except Undecided as e:
        res.violation(rule, rule + "/undecided", "deviates from the reviewed shape; while interpreting: %s (%s)" % (e, e.site))
    res.floor(rule, "fragment_cases", 19)


def traverse_rule(ctx, res, rule="C11.traverse"):
    P = ctx.P
    try:
        tn = shape.find_inst(P, r"^<json_syntax::Traverse<'_> as std::iter::Iterator>::next$")
        traverse_step(P, res, rule, tn)
        # offset: returned value is the old offset, then incremented by one
        tr = shape.find_inst(P, r"^json_syntax::Value::traverse$")
        sh = shape.Shape(P)
        sh.cut(r"^smallvec::SmallVec::<.*>::new$", "sv_new", ret=lambda it, st, c, a: Top(shape.ret_ty(it, c), "stack"))
        sh.cut(r"^smallvec::SmallVec::<.*>::push$", "sv_push")
        me = sh.cell(Top(None, "root"))
        outs = sh.run(tr, [me])
        ok = len(outs) == 1 and outs[0].outcome[0] == "return"
        if ok:
            rv = outs[0].outcome[1]
            tro = field_roles(P, rv.ty)
            if "offset" not in tro:
                raise Undecided("cannot identify the counter of Traverse (%r)" % (tro,))
            ev = shape.events(outs[0])
            pushed = [e for e in ev if e[0] in ("sv_push", "ext") and "push" in e[3]]
            okp = len(pushed) == 1 and isinstance(pushed[0][1][1], Agg) and pushed[0][1][1].fields[0] == me
            res.ob(rv.fields[tro["offset"]] == Conc(0) and okp, rule, rule + "/start", "traverse() must start numbering at 0 with the root value on the stack (offset %r, pushes %r)" % (rv.fields[tro["offset"]], [repr(p[1][1]) for p in pushed]),
                   sample={"traverse": "offset 0, stack [root]"})
        else:
            res.violation(rule, rule + "/start/paths", "Value::traverse: %d paths" % len(outs))
    except Undecided as e:
        res.violation(rule, rule + "/undecided", "while interpreting: %s" % e)
    from .C03 import subfragments
    subfragments(ctx, res, rule="C03.iter" if rule == "C11.traverse" else rule + ".subfragments")


def traverse_step(P, res, rule, tn):
    """One Traverse::next, interpreted on small concrete stacks (the SmallVec is an exact vector; `extend` drains its argument
    through that iterator's own `next`): it pops the top fragment, returns it with the current number, increments the number,
    and leaves the fragment's sub-fragments on the stack so that they pop in order - an entry: key then value; an array or
    object: first child first; a scalar or key: nothing.  Whether the code says `extend(sub.rev())` or loops with next_back
    and push does not matter."""
    from ..absint import CallThen
    from ..summ import AVec, _obj_of, mk_none, mk_some
    tty = P.types[tn["locals"][1]]["to"]
    roles = field_roles(P, tty)
    if set(roles) != {"offset", "stack"}:
        raise Undecided("cannot identify the counter and the stack of Traverse (%r)" % (roles,))
    fr = [t for t in P.types if t.get("name") == "json_syntax::FragmentRef" and t["k"] == "adt"][0]
    vt = [t for t in P.types if t.get("name") == "json_syntax::Value" and t["k"] == "adt"][0]
    et = [t for t in P.types if t.get("name") == "json_syntax::object::Entry" and t["k"] == "adt" and "SmallString" in t["s"] and "Mapped" not in t["s"]][0]
    ot = [t for t in P.types if t.get("name") == "json_syntax::Object" and t["k"] == "adt"][0]
    fv = [v["name"] for v in fr["variants"]]
    vv = [v["name"] for v in vt["variants"]]

    def scenario(name, build):
        key = "%s/next/%s" % (rule, name)
        try:
            sh = shape.Shape(P)
            st = sh.st

            def sv_pop(it, st_, c, a):
                oid = _obj_of(it, st_, a[0], "pop")
                m = st_.heap[oid]
                rt = shape.ret_ty(it, c)
                if not m.items:
                    return mk_none(rt)
                st_.heap[oid] = AVec(m.items[:-1], m.role)
                return mk_some(rt, m.items[-1])

            def sv_push(it, st_, c, a):
                oid = _obj_of(it, st_, a[0], "push")
                m = st_.heap[oid]
                st_.heap[oid] = AVec(m.items + (a[1],), m.role)
                return UNIT

            sh.cut(r"^smallvec::SmallVec::<.*>::pop$", "sv_pop", ret=sv_pop)
            sh.cut(r"^smallvec::SmallVec::<.*>::push$", "sv_push", ret=sv_push)

            def sv_extend(it, st_, inst_, args, call):
                oid = _obj_of(it, st_, args[0], "extend")
                src = args[1]
                if not (isinstance(src, Agg) and src.ty is not None):
                    raise Undecided("extend from an iterator that is not tracked: %r" % (src,))
                nxt = [i_ for i_ in P.inst if i_["path"].endswith("as std::iter::Iterator>::next") and i_.get("has_mir")
                       and P.types[i_["locals"][1]]["k"] == "ref" and P.types[i_["locals"][1]]["to"] == src.ty]
                if len(nxt) != 1:
                    raise Undecided("cannot find the `next` of the iterator handed to extend (%s)" % P.types[src.ty]["s"])
                cell = st_.new_obj(src)

                def step(it2, st2, rv):
                    if isinstance(rv, Agg) and rv.variant == 0:
                        return UNIT
                    if not (isinstance(rv, Agg) and rv.variant == 1):
                        raise Undecided("next of the extended iterator returned %r" % (rv,))
                    m = st2.heap[oid]
                    st2.heap[oid] = AVec(m.items + (rv.fields[0],), m.role)
                    return CallThen(nxt[0]["id"], [Ref(("H", cell.id), ())], step)

                return CallThen(nxt[0]["id"], [Ref(("H", cell.id), ())], step)

            sh.it.summaries.insert(0, (lambda i_: bool(re.search(r"^<smallvec::SmallVec<.*> as std::iter::Extend<.*>>::extend::<", i_["name"])), sv_extend))
            stack_items, top, want_rest = build(st)
            stack = st.new_obj(AVec(tuple(stack_items), "stack"))
            o0 = sh.sym(kind="offset")
            me = sh.cell(build_record(P, tty, roles, {"offset": o0, "stack": stack}))

            def no_overflow(st_, base, a_, b_, tid):
                if base == "Add" and not (isinstance(a_, Conc) and isinstance(b_, Conc)):
                    return (Expr(base, (a_, b_), (64, False)), FALSE)
                return None

            sh.it.overflow_hooks.append(no_overflow)
            outs = sh.run(tn, [me])
            if len(outs) != 1 or outs[0].outcome[0] != "return":
                raise Undecided("%d paths (%s)" % (len(outs), [o.outcome[0] for o in outs][:4]))
            o = outs[0]
            rv = o.outcome[1]
            after = shape.deref(sh.it, o, me, 1)
            left = [shape.deref(sh.it, o, x, 0) for x in o.heap[after.fields[roles["stack"]].id].items]
            off = after.fields[roles["offset"]]
            if top is None:
                ok = isinstance(rv, Agg) and rv.variant == 0 and off == o0 and left == []
                res.ob(ok, rule, key, "Traverse::next on an empty stack must return None and change nothing (returns %r, offset %r)" % (rv, off), sample={"Traverse::next": name})
                return
            okr = isinstance(rv, Agg) and rv.variant == 1 and isinstance(rv.fields[0], Agg) and tuple(rv.fields[0].fields) == (o0, top)
            oko = same(off, plus(o0, 1))
            okl = left == want_rest
            res.ob(okr and oko and okl, rule, key,
                   "Traverse::next on %s must return (offset, the top fragment), add one to the offset and leave the sub-fragments on the stack in popping order; returns %r, offset %r, stack %r (expected %r)" % (
                       name, rv, off, left, want_rest), sample={"Traverse::next": name, "stack_after": [repr(x)[:40] for x in left]})
        except Undecided as e:
            res.violation(rule, key + "/undecided", "while interpreting: %s" % e)

    def frag(variant, ref):
        return Agg(fr["id"], fv.index(variant), (ref,))

    def cellref(st, v):
        return Ref(("H", st.new_obj(v).id), ())

    def b_entry(st):
        e = cellref(st, Agg(et["id"], 0, (Top(None, "the-key"), Top(None, "the-value"))))
        below = frag("Key", cellref(st, Top(None, "other-key")))
        names = [f["name"] for f in et["variants"][0]["fields"]]
        kref = Ref(e.base, (("f", names.index("key")),))
        vref = Ref(e.base, (("f", names.index("value")),))
        return [below, frag("Entry", e)], frag("Entry", e), [below, frag("Value", vref), frag("Key", kref)]

    def b_array(st):
        vec = st.new_obj(AVec((Top(None, "item0"), Top(None, "item1")), "array"))
        a = cellref(st, Agg(vt["id"], vv.index("Array"), (vec,)))
        return [frag("Value", a)], frag("Value", a), [frag("Value", Ref(("H", vec.id), (("el", 1),))), frag("Value", Ref(("H", vec.id), (("el", 0),)))]

    def b_object(st):
        ents = st.new_obj(AVec((Agg(et["id"], 0, (Top(None, "k0"), Top(None, "v0"))), Agg(et["id"], 0, (Top(None, "k1"), Top(None, "v1")))), "entries"))
        onames = [f["name"] for f in ot["variants"][0]["fields"]]
        obj = Agg(ot["id"], 0, tuple(ents if n == "entries" else Top(None, "indexes") for n in onames))
        a = cellref(st, Agg(vt["id"], vv.index("Object"), (obj,)))
        return [frag("Value", a)], frag("Value", a), [frag("Entry", Ref(("H", ents.id), (("el", 1),))), frag("Entry", Ref(("H", ents.id), (("el", 0),)))]

    def b_scalar(st):
        a = cellref(st, Agg(vt["id"], vv.index("Null"), ()))
        below = frag("Key", cellref(st, Top(None, "other-key")))
        return [below, frag("Value", a)], frag("Value", a), [below]

    def b_key(st):
        k = frag("Key", cellref(st, Top(None, "a-key")))
        return [k], k, []

    for name, build in (("entry", b_entry), ("array", b_array), ("object", b_object), ("scalar", b_scalar), ("key", b_key), ("empty", lambda st: ([], None, []))):
        scenario(name, build)
        res.count("traverse_steps")
    res.floor(rule, "traverse_steps", 6)


def conv_rule(ctx, res):
    P = ctx.P
    rule = "C11.conv"
    T = types(P)
    vt = T["json_syntax::Value"]
    vn = [v["name"] for v in vt["variants"]]
    cases = [("root_try_from_json_unit", "Null", "()"), ("root_try_from_json_bool", "Boolean", "bool"), ("root_try_from_json_string", "String", "String"),
             ("root_try_from_json_u32", "Number", "u32"), ("root_try_from_json_f64", "Number", "f64"), ("root_try_from_json_vec_bool", "Array", "Vec<bool>")]
    for root, good, what in cases:
        for vi, name in enumerate(vn):
            if name == good:
                continue
            try:
                sh = shape.Shape(P)
                rinst = P.inst[P.roots[root]]
                off = sh.sym(kind="offset")
                me = sh.cell(Agg(vt["id"], vi, [Top(f["ty"], "p") for f in vt["variants"][vi]["fields"]]))
                outs = sh.run(rinst, [me, sh.cell(Top(None, "cm")), off])
                ok = len(outs) == 1 and outs[0].outcome[0] == "return"
                rv = outs[0].outcome[1] if ok else None
                err = rv.fields[0] if isinstance(rv, Agg) and rv.variant == 1 else None
                m_off, m_val = mapped_fields(P, err)
                res.ob(m_off == off, rule, "%s/%s/%s" % (rule, what, name), "converting a %s to %s must report the mismatch at the incoming offset, reports at %r" % (name, what, m_off),
                       sample={"target": what, "found": name, "error_offset": "incoming offset"} if vi == 0 else None)
                res.count("conversion_cases")
            except Undecided as e:
                res.violation(rule, "%s/%s/%s/undecided" % (rule, what, name), "while interpreting: %s" % e)
    # Option<T> / Box<T>: the offset is passed through unchanged
    for root, rx, what in (("root_try_from_json_option_bool", r"^<bool as json_syntax::TryFromJson>::try_from_json_at$", "Option<bool>"),
                           ("root_try_from_json_box_bool", r"^<bool as json_syntax::TryFromJson>::try_from_json_at$", "Box<bool>")):
        try:
            sh = shape.Shape(P)
            sh.cut(rx, "inner", ret=lambda it, st, c, a: Top(shape.ret_ty(it, c), "R"))
            rinst = P.inst[P.roots[root]]
            off = sh.sym(kind="offset")
            me = sh.cell(Agg(vt["id"], vn.index("String"), [Top(None, "p")]))
            cm = sh.cell(Top(None, "cm"))
            outs = sh.run(rinst, [me, cm, off])
            evs = [[e for e in shape.events(o) if e[0] == "inner"] for o in outs]
            ev = evs[0] if evs else []
            ok = all(x == ev for x in evs) and len(ev) == 1 and ev[0][1][0] == me and ev[0][1][1] == cm and ev[0][1][2] == off
            res.ob(ok, rule, "%s/%s/offset" % (rule, what), "%s must convert the value itself at the incoming offset with the same code map: inner conversion called with %r" % (what, [repr(e[1]) for e in ev]),
                   sample={"wrapper": what, "passes": "value, code_map, offset unchanged"})
            res.count("conversion_cases")
        except Undecided as e:
            res.violation(rule, "%s/%s/undecided" % (rule, what), "while interpreting: %s" % e)
    # default method try_from_json = try_from_json_at(.., 0)
    try:
        sh = shape.Shape(P)
        sh.cut(r"^<bool as json_syntax::TryFromJson>::try_from_json_at$", "inner", ret=lambda it, st, c, a: Top(shape.ret_ty(it, c), "R"))
        rinst = P.inst[P.roots["root_try_from_json_default_offset"]]
        outs = sh.run(rinst, [sh.cell(Top(None, "v")), sh.cell(Top(None, "cm"))])
        ev = [e for e in shape.events(outs[0]) if e[0] == "inner"] if outs else []
        res.ob(len(ev) == 1 and ev[0][1][2] == Conc(0), rule, rule + "/default-offset", "try_from_json must start at offset 0")
    except Undecided as e:
        res.violation(rule, rule + "/default/undecided", "while interpreting: %s" % e)
    # Vec<T> / BTreeMap<K, V>: elements converted at their mapped offsets: closures use item.offset / entry.value.value.offset
    container_rule(ctx, res, rule, T, vt, vn)
    res.floor(rule, "conversion_cases", 25)


def container_rule(ctx, res, rule, T, vt, vn):
    """Vec<T> / BTreeMap<K, V>: the conversion walks the container with the mapped iterator of the *same* value, code map
    and offset, and converts every element (entry value) at the offset the iterator reports for it — the iterator's `next`
    is scripted to yield two items with distinct symbolic offsets (for an entry: three distinct offsets for the entry, its key
    and its value), the element conversion is a recorded cut point."""
    from ..absint import CallThen
    P = ctx.P
    for rx, what, cont in ((r"^<std::vec::Vec<bool> as json_syntax::TryFromJson>::try_from_json_at$", "Vec<T>", "Array"),
                           (r"^<std::collections::BTreeMap<std::string::String, BoolLeaf> as json_syntax::TryFromJson>::try_from_json_at$", "BTreeMap<K, V>", "Object")):
        key = "%s/%s" % (rule, what)
        try:
            inst = shape.find_inst(P, rx)
            sh = shape.Shape(P)
            st0 = sh.st
            off = sh.sym(kind="offset")
            cm = sh.cell(Top(None, "code-map"))
            payload = Top(vt["variants"][vn.index(cont)]["fields"][0]["ty"], "the-container")
            me = sh.cell(Agg(vt["id"], vn.index(cont), [payload]))
            script = {"n": 0, "items": []}

            def ctor(it, st, c, a):
                st.emit("iter_mapped", tuple(shape.deref(it, st, x, 2) if isinstance(x, Ref) else x for x in a), (), "iter_mapped")
                return Top(shape.ret_ty(it, c), "the-mapped-iterator")

            sh.cut(r"::iter_mapped$", "ctor", ret=ctor)

            def mk_mapped(st, mty, value_builder):
                t = P.types[mty]
                names = [f["name"] for f in t["variants"][0]["fields"]]
                o = st.fresh_sym(iset.full(64, False), kind="item-offset")
                vals = {"offset": o, "value": value_builder(t["variants"][0]["fields"][names.index("value")]["ty"])}
                return Agg(mty, 0, tuple(vals[n] for n in names)), o

            def nxt(it, st, c, a):
                rt = shape.ret_ty(it, c)
                k = st.ctr.get("scripted", 0)
                st.ctr["scripted"] = k + 1
                if k >= 2:
                    return Agg(rt, 0, ())
                mty = P.types[rt]["variants"][1]["fields"][0]["ty"]

                def value_of(ty):
                    tt = P.types[ty]
                    if tt["k"] == "adt" and tt.get("name") == "json_syntax::object::Entry":
                        fn = [f["name"] for f in tt["variants"][0]["fields"]]
                        parts = {}
                        for fname in ("key", "value"):
                            fty = tt["variants"][0]["fields"][fn.index(fname)]["ty"]
                            cell = st.new_obj(Top(None, "%s%d" % (fname, k)))
                            m, o_ = mk_mapped(st, fty, lambda _ty, _c=cell: Ref(("H", _c.id), ()))
                            parts[fname] = m
                            script["items"].append((k, fname, o_, Ref(("H", cell.id), ())))
                        return Agg(ty, 0, tuple(parts[n] for n in fn))
                    cell = st.new_obj(Top(None, "item%d" % k))
                    script["items"].append((k, "item-ref", None, Ref(("H", cell.id), ())))
                    return Ref(("H", cell.id), ())

                m, o = mk_mapped(st, mty, value_of)
                script["items"].append((k, "item", o, None))
                return Agg(rt, 1, (m,))

            sh.cut(r"^<json_syntax::(array|object)::IterMapped<'_, '_> as std::iter::Iterator>::next$", "next", ret=nxt)
            sh.cut(r"^<(bool|BoolLeaf) as json_syntax::TryFromJson>::try_from_json_at$", "inner", ret=lambda it, st, c, a: Agg(shape.ret_ty(it, c), 0, (Top(None, "converted"),)))
            sh.cut(r"^core::str::<impl str>::parse::<", "parse", ret=lambda it, st, c, a: Agg(shape.ret_ty(it, c), 0, (Top(None, "parsed-key"),)))
            sh.cut(r"^std::collections::BTreeMap::<.*>::new$", "map_new", ret=lambda it, st, c, a: Top(shape.ret_ty(it, c), "the-map"))
            sh.cut(r"^std::collections::BTreeMap::<.*>::insert$", "map_insert", ret=lambda it, st, c, a: Agg(shape.ret_ty(it, c), 0, ()))
            sh.cut(r"^<smallstr::string::SmallString<\[u8; 16\]> as std::ops::Deref>::deref$", "key_deref", ret=lambda it, st, c, a: a[0])

            # `iter.map(f).collect::<Result<Vec<_>, _>>()`: drive the (scripted) iterator and call the interpreted closure
            def collect(it, st, inst_, args, call):
                mp = args[0]
                if not (isinstance(mp, Agg) and mp.ty is not None and P.types[mp.ty].get("name") == "std::iter::Map"):
                    return NotImplemented
                names = [f["name"] for f in P.types[mp.ty]["variants"][0]["fields"]]
                f = mp.fields[names.index("f")]
                ft = P.types[f.ty] if isinstance(f, Agg) and f.ty is not None else None
                if not ft or ft["k"] != "closure":
                    raise Undecided("collect over a map with an unknown function %r" % (f,))
                from ..summ import closure_instance
                ci = closure_instance(P, f.ty)
                if ci is None:
                    raise Undecided("closure of the element conversion not found")
                bodies = [ci]
                fcell = st.new_obj(f)
                rt = shape.ret_ty(it, call)
                nty = None

                class Call:
                    pass

                def step(it_, st_, acc):
                    # scripted next
                    fake = {"frame": call["frame"], "term": call["term"]}
                    k = st_.ctr.get("scripted", 0)
                    if k >= 2:
                        return Agg(rt, 0, (st_.new_obj(AVec(tuple(acc), "converted")),))
                    item = nxt_for_collect(it_, st_)
                    return CallThen(bodies[0], [Ref(("H", fcell.id), ()), item], lambda it2, st2, rv: step(it2, st2, acc + [rv]))

                def nxt_for_collect(it_, st_):
                    # the item type is the closure's parameter type
                    body = P.inst[bodies[0]]
                    ity = body["locals"][2]
                    k = st_.ctr.get("scripted", 0)
                    st_.ctr["scripted"] = k + 1
                    cell = st_.new_obj(Top(None, "item%d" % k))
                    script["items"].append((k, "item-ref", None, Ref(("H", cell.id), ())))
                    m, o = mk_mapped(st_, ity, lambda _ty, _c=cell: Ref(("H", _c.id), ()))
                    script["items"].append((k, "item", o, None))
                    return m

                return step(it, st, [])

            sh.it.summaries.insert(0, (lambda i_: bool(re.search(r"as std::iter::Iterator>::collect::<std::result::Result<std::vec::Vec<", i_["name"])), collect))
            outs = sh.run(inst, [me, cm, off])
            rets = [o for o in outs if o.outcome and o.outcome[0] == "return"]
            if len(outs) != 1 or len(rets) != 1:
                raise Undecided("%d paths (%s)" % (len(outs), [o.outcome[0] if o.outcome else None for o in outs][:4]))
            o = rets[0]
            ev = o.events
            ctors = [e for e in ev if e[0] == "iter_mapped"]
            okc = len(ctors) == 1 and len(ctors[0][1]) == 3 and ctors[0][1][1] == shape.deref(sh.it, o, cm, 1) or (len(ctors) == 1 and ctors[0][1][2] == off)
            okc = len(ctors) == 1 and ctors[0][1][-1] == off
            res.ob(okc, rule, key + "/iter-mapped", "%s must walk its elements with the mapped iterator started at its own offset (calls %r)" % (what, [[repr(x)[:40] for x in c[1]] for c in ctors]),
                   sample={"container": what, "walks_with": "iter_mapped(code_map, offset)"})
            inner = [e for e in ev if e[0] == "inner"]
            want = []
            for k in (0, 1):
                if cont == "Array":
                    ref = [x[3] for x in script["items"] if x[0] == k and x[1] == "item-ref"]
                    o_ = [x[2] for x in script["items"] if x[0] == k and x[1] == "item"]
                else:
                    ref = [x[3] for x in script["items"] if x[0] == k and x[1] == "value"]
                    o_ = [x[2] for x in script["items"] if x[0] == k and x[1] == "value"]
                want.append((ref[0] if ref else None, o_[0] if o_ else None))
            got = [(e[1][0], e[1][2]) for e in inner]
            res.ob(got == want, rule, key + "/element-offset",
                   "%s must convert each element (entry value) at the offset the mapped iterator reports for it, in order; converts %r, expected %r" % (what, got, want),
                   sample={"container": what, "element_offset": "the mapped item's own offset"})
            res.count("conversion_cases")
        except Undecided as e:
            res.violation(rule, key + "/undecided", "while interpreting: %s" % e)
