"""C09 — canonicalization conforms to RFC 8785 (ordering, coverage, strings, no whitespace; the
numeric rendering is computed inside dependencies and is not decided)."""
import re

from .. import shape, static
from ..absint import Agg, Conc, Obj, Ref, Sym, Top, Undecided
from ..summ import AVec

LEVEL = "other"


def run(ctx, res):
    res.rules_run += ["C09.cover (Value::canonicalize_with per variant: numbers replaced unconditionally by the number crate's canonical form, every array item canonicalised, objects delegated; what Object::canonicalize_with does to its entries is C09.order, decided on the object model)",
                      "C09.order (the comparator of that sort orders keys by UTF-16 code units: Iterator::cmp over encode_utf16() of both keys)",
                      "C08.table / C08.nows (strings minimally escaped, no whitespace) — shared with C08"]
    cover_rule(ctx, res, "C09.cover")
    from . import C06
    C06.model_rule(ctx, res, rule="C09.order", ops={"canonicalize_with"})
    from . import C08, C13
    C08.table_rule(ctx, res, "C08.table")
    C08.preset_rule(ctx, res)
    C13.nows_rule(ctx, res, "compact", "C08.nows")
    res.notes.append("not decided: 'nearest double, then ECMAScript shortest form' is computed by json_number::as_f64_lossy (lexical) and ryu-js; the known one-ulp error on long decimals lives there")
    res.trusted += ["json_number::Number::canonical_with / NumberBuf::from_number (dependency)", "core::str::encode_utf16 and Iterator::cmp (std)"]


def value_type(P):
    return [t for t in P.types if t.get("name") == "json_syntax::Value" and t["k"] == "adt"][0]


def cover_rule(ctx, res, rule):
    P = ctx.P
    try:
        vc = shape.find_inst(P, r"^json_syntax::Value::canonicalize_with$")
        oc = shape.find_inst(P, r"^json_syntax::Object::canonicalize_with$")
    except Undecided as e:
        res.violation(rule, rule + "/missing", str(e))
        return
    vt = value_type(P)
    names = [v["name"] for v in vt["variants"]]
    # the buffer-less entry point Value::canonicalize must do the same: it either hands the value itself to
    # canonicalize_with (today), or does per variant what canonicalize_with must do
    try:
        v0 = shape.find_inst(P, r"^json_syntax::Value::canonicalize$")
        for vi, vn in enumerate(names):
            sh = shape.Shape(P)
            sh.cut(r"^json_syntax::Value::canonicalize_with$", "rec")
            sh.cut(r"^json_syntax::Object::canonicalize(_with)?$", "obj")
            payload = [sh.st.new_obj(AVec((Top(None, "item0"), Top(None, "item1")), "array")) if vn == "Array" else Top(f["ty"], "payload") for f in vt["variants"][vi]["fields"]]
            me = sh.st.new_obj(Agg(vt["id"], vi, payload))
            meref = Ref(("H", me.id), ())
            key = "%s/Value::canonicalize/%s" % (rule, vn)
            outs = sh.run(v0, [meref])
            ok = len(outs) == 1 and outs[0].outcome[0] == "return"
            if ok:
                ev = [e for e in shape.events(outs[0]) if e[0] in ("rec", "obj")]
                deleg = len(ev) == 1 and ev[0][0] == "rec" and ev[0][1][0] == meref
                if not deleg:
                    if vn == "Array":
                        ok = [e[0] for e in ev] == ["rec", "rec"] and [e[1][0] for e in ev] == [Ref(("H", payload[0].id), (("el", 0),)), Ref(("H", payload[0].id), (("el", 1),))]
                    elif vn == "Object":
                        ok = [e[0] for e in ev] == ["obj"]
                    elif vn == "Number":
                        ok = False  # a number must go through canonicalize_with's number arm: only the delegating form is decided here
                    else:
                        ok = not ev
            res.ob(ok, rule, key, "Value::canonicalize on %s does not canonicalise the value the way canonicalize_with does (%d paths, events %r)" % (
                vn, len(outs), [[(e[0], repr(e[1][0])[:40]) for e in shape.events(o) if e[0] in ("rec", "obj")] for o in outs][:3]),
                sample={"unit": "Value::canonicalize", "variant": vn})
    except Undecided as e:
        res.violation(rule, rule + "/Value::canonicalize/undecided", "while interpreting: %s" % e)
    for vi, vn in enumerate(names):
        sh = shape.Shape(P)
        sh.cut(r"::Number::canonical_with$", "canonical", ret=lambda it, st, c, a: Top(None, "canonical-number"))
        sh.cut(r"NumberBuf::<.*>::from_number$|NumberBuf<.*>::from_number$", "from_number", ret=lambda it, st, c, a: Top(None, "canonical-buf"))
        sh.cut(r"^json_syntax::Value::canonicalize_with$", "rec")
        sh.cut(r"^json_syntax::Object::canonicalize_with$", "obj")
        sh.cut(r"^<json_number::NumberBuf<.*> as std::ops::Deref>::deref$", "deref", ret=lambda it, st, c, a: a[0])
        buf = sh.cell(Top(None, "buffer"))
        fields = []
        payload = None
        for f in vt["variants"][vi]["fields"]:
            if vn == "Array":
                payload = sh.st.new_obj(AVec((Top(None, "item0"), Top(None, "item1")), "array"))
            else:
                payload = Top(f["ty"], "payload")
            fields.append(payload)
        me = sh.st.new_obj(Agg(vt["id"], vi, fields))
        key = "%s/Value::%s" % (rule, vn)
        try:
            outs = sh.run(vc, [Ref(("H", me.id), ()), buf])
        except Undecided as e:
            res.violation(rule, key + "/undecided", "deviates from the reviewed shape; while interpreting: %s" % e)
            continue
        res.count("canonicalize_cases")
        if len(outs) != 1 or outs[0].outcome[0] != "return":
            res.violation(rule, key + "/paths", "Value::canonicalize_with on %s is not one unconditional path (%d paths): some values of this kind are left as they are" % (vn, len(outs)))
            continue
        o = outs[0]
        ev = [e for e in shape.events(o) if e[0] not in ("deref", "elem")]
        tags = [e[0] for e in ev]
        after = o.heap[me.id]
        if vn == "Number":
            ok = tags == ["canonical", "from_number"] and ev[0][1][1] == buf and ev[0][2][0] == payload and (ev[1][1][0] == Top(None, "canonical-number") or ev[1][2][0] == Top(None, "canonical-number")) and after.fields[0] == Top(None, "canonical-buf")
            why = "the number must be replaced by NumberBuf::from_number(n.canonical_with(buffer))"
        elif vn == "Array":
            ok = tags == ["rec", "rec"] and [e[1][0] for e in ev] == [Ref(("H", payload.id), (("el", 0),)), Ref(("H", payload.id), (("el", 1),))] and all(e[1][1] == buf for e in ev)
            why = "every item must be canonicalised, in place, with the same buffer"
        elif vn == "Object":
            ok = tags == ["obj"] and ev[0][1][1] == buf
            why = "objects delegate to Object::canonicalize_with"
        else:
            ok = not tags and after == Agg(vt["id"], vi, fields)
            why = "null, booleans and strings are left untouched"
        res.ob(ok, rule, key, "Value::canonicalize_with on %s does %r (%s)" % (vn, tags, why), sample={"variant": vn, "does": tags})
    # Object::canonicalize_with: what it does to the entries (every value canonicalised once, the members in UTF-16 key order,
    # the index exact) is decided by the model rule on all small objects (C09.order / C10.total); an event-shape rule here
    # (one path, a sort event after the last value) alarmed on an early return for an object that is already in order.
    res.floor(rule, "canonicalize_cases", 6)


def comparator_closures(P):
    """Closures passed to the sort that Object::canonicalize_with performs (directly or through Object::sort)."""
    out = []
    for path in ("json_syntax::Object::canonicalize_with", "json_syntax::Object::sort"):
        f = [i for i in P.inst if i["path"] == path and i.get("has_mir")]
        if not f:
            continue
        f = f[0]
        for bi, c, t in static.calls(P, f):
            if c is not None and re.search(r"slice::<impl \[.*\]>::sort(_unstable)?_by", c["name"]):
                cl = [P.inst[i] for i in P.reachable([c["id"]]) if P.inst[i]["path"].startswith(path + "::{closure")]
                out.append((f, c, cl))
    return out


def order_rule(ctx, res, rule):
    P = ctx.P
    oc = [i for i in P.inst if i["path"] == "json_syntax::Object::canonicalize_with"]
    if not oc:
        res.violation(rule, rule + "/missing", "Object::canonicalize_with not in the program")
        return
    oc = oc[0]
    direct = [c for c in comparator_closures(P) if c[0]["path"] == "json_syntax::Object::canonicalize_with"]
    via_sort = [c for c in comparator_closures(P) if c[0]["path"] == "json_syntax::Object::sort"]
    calls_sort = any(c is not None and c["path"] == "json_syntax::Object::sort" for _, c, _ in static.calls(P, oc))
    used = direct + (via_sort if calls_sort else [])
    res.ob(len(used) >= 1, rule, rule + "/sort", "no sort with a comparator reachable from Object::canonicalize_with")
    for f, sortfn, closures in used:
        key = "%s/%s" % (rule, f["path"].rsplit("::", 1)[-1])
        if not closures:
            res.violation(rule, key + "/closure", "comparator closure of the sort in %s not found" % f["path"])
            continue
        # direct call sites of the comparator closure and of the closures nested in it (e.g. then_with)
        names = []
        for c in closures:
            for bi, cc, t in static.calls(P, c):
                if cc is not None:
                    names.append(cc["name"])
        utf16 = [n for n in names if re.search(r"str>::encode_utf16$|<impl str>::encode_utf16$", n)]
        itercmp = [n for n in names if re.search(r"^<std::str::EncodeUtf16<'_> as std::iter::Iterator>::cmp", n)]
        # any other ordering call made by the comparator itself must not be a string / entry comparison
        # (the tie-break on the *value*, <Value as Ord>::cmp, is fine)
        strcmp = [n for n in names if re.search(r"^<(smallstr::string::SmallString<.*>|str|\[u8\]) as std::cmp::(Ord|PartialOrd)>::(cmp|partial_cmp)$|^<json_syntax::object::Entry<.*> as std::cmp::(Ord|PartialOrd)>::|as locspan::Stripped(Ord|PartialOrd)>::|^<locspan::Stripped<.*> as std::cmp::Ord>::cmp$", n)]
        ok = bool(utf16) and bool(itercmp) and not strcmp
        res.ob(ok, rule, key + "/utf16",
               "members are not ordered by UTF-16 code units (RFC 8785 3.2.3): the comparator of the sort in %s %s; str order is code-point order, e.g. \"\\u{e000}\" sorts before \"\\u{10000}\" although its UTF-16 form (E000) is greater than (D800 DC00)" % (
                   f["path"], "compares through " + ", ".join(sorted(set(n[:70] for n in strcmp))[:2]) if strcmp else "does not compare encode_utf16() sequences"),
               witness={"keys": ["\\u{10000}", "\\u{e000}"], "rfc8785_order": ["\\u{10000}", "\\u{e000}"], "code_point_order": ["\\u{e000}", "\\u{10000}"]},
               sample={"comparator_in": f["path"], "orders_keys_by": "Iterator::cmp over encode_utf16()"})
        # both operands' keys
        if ok:
            for c in closures:
                sites = [(bi, cc, t) for bi, cc, t in static.calls(P, c) if cc is not None and cc["name"].endswith("encode_utf16")]
                if sites:
                    res.ob(len(sites) == 2, rule, key + "/both-keys", "the comparator must encode both keys (encode_utf16 called %d times)" % len(sites))
