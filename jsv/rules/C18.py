"""C18 — conversion to and from serde_json::Value (exhaustive variant mapping; no panic)."""
import re

from .. import allow, panics, shape, static
from ..absint import Agg, Conc, Obj, Ref, Sym, Top, Undecided

LEVEL = "other"


def run(ctx, res):
    res.rules_run += ["C18.map (both conversions map every variant to the same-named variant; scalars unchanged, numbers through the number crate's From impls only, strings through From/into_string; every array item and object entry converted recursively, in order, entries through the push family)",
                      "C18.panic (panic sources in crate / sibling-crate code reachable from the four conversion entry points: discharged, allowlisted or known finding)"]
    map_rule(ctx, res)
    panic_rule(ctx, res)
    res.notes.append("not decided: numeric equality of converted numbers (json-number converts through text / f64)")
    res.trusted += ["serde_json's Display for Number prints a JSON number", "std iterator adaptors (map / collect) visit every element once, in order"]


def variants(P, name):
    t = [t for t in P.types if t.get("name") == name and t["k"] == "adt"]
    return t[0] if t else None


def map_rule(ctx, res):
    P = ctx.P
    rule = "C18.map"
    jv = variants(P, "json_syntax::Value")
    sv = variants(P, "serde_json::Value")
    if jv is None or sv is None:
        res.violation(rule, rule + "/anchors", "Value types not found")
        return
    jn = [v["name"] for v in jv["variants"]]
    sn = [v["name"] for v in sv["variants"]]
    pairs = {"Null": "Null", "Bool": "Boolean", "Number": "Number", "String": "String", "Array": "Array", "Object": "Object"}
    cuts = [
        (r"<impl std::convert::From<serde_json::Number> for json_number::NumberBuf<.*>>::from$", "num_from"),
        (r"<impl std::convert::From<json_number::NumberBuf<.*>> for serde_json::Number>::from$", "num_into"),
        (r"^<smallstr::string::SmallString<.*> as std::convert::From<std::string::String>>::from$", "str_from"),
        (r"^smallstr::string::SmallString::<.*>::into_string$", "str_into"),
        (r"as std::iter::Iterator>::collect::<", "collect"),
        (r"as std::iter::Iterator>::map::<", "map"),
        (r"as std::iter::IntoIterator>::into_iter$", "into_iter"),
    ]
    for direction, fn_rx, src, dst, srcn, dstn in (("from_serde_json", r"<impl json_syntax::Value>::from_serde_json$", sv, jv, sn, jn),
                                                      ("into_serde_json", r"<impl json_syntax::Value>::into_serde_json$", jv, sv, jn, sn)):
        try:
            inst = shape.find_inst(P, fn_rx)
        except Undecided as e:
            res.violation(rule, "%s/%s/missing" % (rule, direction), str(e))
            continue
        for vi, vn in enumerate(srcn):
            want = pairs[vn] if direction == "from_serde_json" else {v: k for k, v in pairs.items()}[vn]
            sh = shape.Shape(P)
            for rx, tag in cuts:
                sh.cut(rx, tag, ret=lambda it, st, c, a, tag=tag: Top(shape.ret_ty(it, c), "R:" + tag))
            payload = [Top(f["ty"], "payload") if P.types[f["ty"]]["k"] != "bool" else sh.sym(((0, 1),), kind="b") for f in src["variants"][vi]["fields"]]
            key = "%s/%s/%s" % (rule, direction, vn)
            try:
                outs = sh.run(inst, [Agg(src["id"], vi, payload)])
            except Undecided as e:
                res.violation(rule, key + "/undecided", "deviates from the reviewed mapping; while interpreting: %s" % e)
                continue
            res.count("variant_mappings")
            if len(outs) != 1 or outs[0].outcome[0] != "return":
                res.violation(rule, key + "/paths", "%s on %s is not one unconditional path (%d paths: %s): the mapping depends on the value" % (direction, vn, len(outs), [o.outcome[0] for o in outs]))
                continue
            o = outs[0]
            rv = o.outcome[1]
            ev = shape.events(o)
            tags = [e[0] for e in ev]
            okv = isinstance(rv, Agg) and rv.ty == dst["id"] and dstn[rv.variant] == want
            if vn == "Null":
                ok = okv and not tags
            elif vn in ("Bool", "Boolean"):
                ok = okv and rv.fields[0] == payload[0] and not tags
            elif vn == "Number":
                t = "num_from" if direction == "from_serde_json" else "num_into"
                ok = okv and tags == [t] and ev[0][1][0] == payload[0] and isinstance(rv.fields[0], Top) and rv.fields[0].tag == "R:" + t
            elif vn == "String":
                t = "str_from" if direction == "from_serde_json" else "str_into"
                ok = okv and tags == [t] and ev[0][1][0] == payload[0] and isinstance(rv.fields[0], Top) and rv.fields[0].tag == "R:" + t
            else:
                ok = okv and tags == ["into_iter", "map", "collect"] and ev[0][1][0] == payload[0] and isinstance(rv.fields[0], Top) and rv.fields[0].tag == "R:collect"
            res.ob(ok, rule, key, "%s maps %s to %r after %r (expected variant %s with the payload converted by the canonical conversion only)" % (direction, vn, rv, tags, want),
                   sample={"direction": direction, "variant": vn, "maps_to": want, "through": tags})
        # recursion / entry construction facts (container arms)
        rec = [c for bi, c, t in static.calls(P, inst) if c is not None]
        closures = [P.inst[i] for i in P.reachable([inst["id"]]) if P.inst[i]["path"].startswith(inst["path"] + "::{closure")]
        uses_self = any(fr in [inst["id"]] for fr in P.fn_refs(inst["id"])) or any(inst["id"] in P.edges()[c["id"]] for c in closures)
        res.ob(uses_self, rule, "%s/%s/recursion" % (rule, direction), "%s does not convert nested values recursively" % direction, sample={"direction": direction, "recursive": True})
        if direction == "from_serde_json":
            reach = P.reachable([inst["id"]])
            pe = any(P.inst[i]["path"] == "json_syntax::Object::push_entry" for i in reach)
            ins = any(P.inst[i]["path"] in ("json_syntax::Object::insert", "json_syntax::Object::insert_front") for i in reach)
            res.ob(pe and not ins, rule, "%s/%s/push-family" % (rule, direction), "from_serde_json must build objects through the push family (push_entry reachable: %s, insert reachable: %s)" % (pe, ins))
    res.floor(rule, "variant_mappings", 12)
    # the From impls delegate
    for rx, target in ((r"<impl std::convert::From<serde_json::Value> for json_syntax::Value>::from$", "json_syntax::convert::serde_json::<impl json_syntax::Value>::from_serde_json"),
                       (r"<impl std::convert::From<json_syntax::Value> for serde_json::Value>::from$", "json_syntax::convert::serde_json::<impl json_syntax::Value>::into_serde_json")):
        try:
            f = shape.find_inst(P, rx)
            cs = [c["path"] for bi, c, t in static.calls(P, f) if c is not None]
            res.ob(cs == [target], rule, rule + "/from-impl/" + target.rsplit("::", 1)[-1], "the From impl does not simply delegate to %s (%r)" % (target, cs))
        except Undecided as e:
            res.violation(rule, rule + "/from-impl/missing", str(e))


def panic_rule(ctx, res):
    P = ctx.P
    rule = "C18.panic"
    roots = ["root_from_serde_json", "root_into_serde_json", "root_from_serde_json_trait", "root_into_serde_json_trait"]
    ids = [P.roots[r] for r in roots if r in P.roots]
    res.ob(len(ids) == 4, rule, rule + "/roots", "conversion roots missing")
    srcs = panics.reachable_sources(P, ids)
    res.count("panic_sources_in_own_code", len(srcs))
    ALLOW = [
        ("json_number::serde_json::<impl std::convert::From<serde_json::Number> for json_number::NumberBuf<B>>::from", "Option::unwrap/expect",
         "`NumberBuf::new(n.to_string()).ok().expect(..)`: serde_json's Display for Number always prints a valid JSON number (finite floats only can be stored in a serde_json::Number)"),
        ("json_syntax::Number::as_f64_lossy", "Result::unwrap/expect",
         "lexical parse of the number's own text: a NumberBuf holds a valid JSON number (type invariant; for parsed values exactly C01.lang / C02.num)"),
    ]
    from .C03 import shift_width_ok
    for k, v in sorted(srcs.items()):
        inst = P.inst[v["inst"]]
        src = v["src"]
        site = P.loc(v["inst"], src["bb"])
        key = "C18/panic/%s" % k
        if shift_width_ok(P, inst, src["bb"]):
            res.ob(True, rule, key, "", sample={"source": k, "discharged_by": "constant shift amount"})
            continue
        a = [x for x in ALLOW if x[0] == inst["path"] and x[1] in src["detail"]]
        a2 = allow.allowed(inst["path"], src["detail"])
        if a or a2:
            res.ob(True, rule, key, "", sample={"source": k, "allowlisted": (a[0][2] if a else a2["reason"])[:120]})
            continue
        pth = None
        for r in ids:
            pth = P.path(r, lambda i, t=v["inst"]: i["id"] == t)
            if pth:
                break
        res.violation(rule, key, "a panic is reachable from the serde_json conversions: %s in %s" % (src["detail"], inst["name"]), site,
                      witness=" -> ".join(P.inst[i]["name"][-70:] for i in (pth or [])[:10]))
