"""C18 — conversion to and from serde_json::Value (exhaustive variant mapping; no panic)."""
import re

from .. import allow, panics, shape, static
from ..absint import Agg, Conc, Obj, Ref, Sym, Top, Undecided

LEVEL = "other"


def run(ctx, res):
    res.rules_run += ["C18.map (both conversions map every variant to the same-named variant; scalars unchanged, numbers through the number crate's From impls only, strings through From/into_string; every array item and object entry converted recursively, in order, entries through the push family)",
                      "C18.panic (panic sources in crate / sibling-crate code reachable from the four conversion entry points: discharged, allowlisted or known finding)"]
    map_rule(ctx, res)
    panic_rule(ctx, res)
    # "equal up to object entry order": the comparison is by key, so the objects that from_serde_json builds (push family)
    # must be queryable by key - push keeps the key index exact and the index hashes keys consistently
    from . import C06
    res.rules_run.append("C18.index (objects built by from_serde_json stay queryable: push on every small object keeps the key index exact and the queries answer what a scan would; the index hashes the key itself everywhere - C06.model restricted to push and the queries)")
    C06.model_rule(ctx, res, rule="C18.index", ops={"push", "queries"})
    res.notes.append("not decided: numeric equality of converted numbers (json-number converts through text / f64)")
    res.trusted += ["serde_json's Display for Number prints a JSON number", "std iterator adaptors (map / collect) visit every element once, in order"]


def variants(P, name):
    t = [t for t in P.types if t.get("name") == name and t["k"] == "adt"]
    return t[0] if t else None


def map_rule(ctx, res, rule="C18.map", directions=("from_serde_json", "into_serde_json")):
    P = ctx.P
    jv = variants(P, "json_syntax::Value")
    sv = variants(P, "serde_json::Value")
    if jv is None or sv is None:
        res.violation(rule, rule + "/anchors", "Value types not found")
        return
    jn = [v["name"] for v in jv["variants"]]
    sn = [v["name"] for v in sv["variants"]]
    pairs = {"Null": "Null", "Bool": "Boolean", "Number": "Number", "String": "String", "Array": "Array", "Object": "Object"}
    cuts = [
        (r"<impl std::convert::From<serde_json::Number> for json_number::NumberBuf<.*>>::from$", "num_from"),
        (r"<impl std::convert::From<json_number::NumberBuf<.*>> for serde_json::Number>::from$", "num_into"),
        (r"^<smallstr::string::SmallString<.*> as std::convert::From<std::string::String>>::from$", "str_from"),
        (r"^smallstr::string::SmallString::<.*>::into_string$", "str_into"),
        (r"as std::iter::Iterator>::collect::<", "collect"),
        (r"as std::iter::Iterator>::map::<", "map"),
        (r"as std::iter::IntoIterator>::into_iter$", "into_iter"),
    ]
    for direction, fn_rx, src, dst, srcn, dstn in (("from_serde_json", r"<impl json_syntax::Value>::from_serde_json$", sv, jv, sn, jn),
                                                      ("into_serde_json", r"<impl json_syntax::Value>::into_serde_json$", jv, sv, jn, sn)):
        if direction not in directions:
            continue
        try:
            inst = shape.find_inst(P, fn_rx)
        except Undecided as e:
            res.violation(rule, "%s/%s/missing" % (rule, direction), str(e))
            continue
        for vi, vn in enumerate(srcn):
            want = pairs[vn] if direction == "from_serde_json" else {v: k for k, v in pairs.items()}[vn]
            if vn in ("Array", "Object"):
                for n in (0, 2):
                    container_arm(P, res, rule, direction, fn_rx, inst, src, dst, dstn, vi, vn, want, n)
                res.count("variant_mappings")
                continue
            sh = shape.Shape(P)
            for rx, tag in cuts:
                sh.cut(rx, tag, ret=lambda it, st, c, a, tag=tag: Top(shape.ret_ty(it, c), "R:" + tag))
            payload = [Top(f["ty"], "payload") if P.types[f["ty"]]["k"] != "bool" else sh.sym(((0, 1),), kind="b") for f in src["variants"][vi]["fields"]]
            key = "%s/%s/%s" % (rule, direction, vn)
            try:
                outs = sh.run(inst, [Agg(src["id"], vi, payload)])
            except Undecided as e:
                res.violation(rule, key + "/undecided", "deviates from the reviewed mapping; while interpreting: %s" % e)
                continue
            res.count("variant_mappings")
            if len(outs) != 1 or outs[0].outcome[0] != "return":
                res.violation(rule, key + "/paths", "%s on %s is not one unconditional path (%d paths: %s): the mapping depends on the value" % (direction, vn, len(outs), [o.outcome[0] for o in outs]))
                continue
            o = outs[0]
            rv = o.outcome[1]
            ev = shape.events(o)
            tags = [e[0] for e in ev]
            okv = isinstance(rv, Agg) and rv.ty == dst["id"] and dstn[rv.variant] == want
            if vn == "Null":
                ok = okv and not tags
            elif vn in ("Bool", "Boolean"):
                ok = okv and rv.fields[0] == payload[0] and not tags
            elif vn == "Number":
                t = "num_from" if direction == "from_serde_json" else "num_into"
                ok = okv and tags == [t] and ev[0][1][0] == payload[0] and isinstance(rv.fields[0], Top) and rv.fields[0].tag == "R:" + t
            elif vn == "String":
                t = "str_from" if direction == "from_serde_json" else "str_into"
                ok = okv and tags == [t] and ev[0][1][0] == payload[0] and isinstance(rv.fields[0], Top) and rv.fields[0].tag == "R:" + t
            else:
                continue  # container arms: decided by container_arm below
            res.ob(ok, rule, key, "%s maps %s to %r after %r (expected variant %s with the payload converted by the canonical conversion only)" % (direction, vn, rv, tags, want),
                   sample={"direction": direction, "variant": vn, "maps_to": want, "through": tags})
        # recursion / entry construction facts (container arms)
        rec = [c for bi, c, t in static.calls(P, inst) if c is not None]
        closures = [P.inst[i] for i in P.reachable([inst["id"]]) if P.inst[i]["path"].startswith(inst["path"] + "::{closure")]
        uses_self = any(fr in [inst["id"]] for fr in P.fn_refs(inst["id"])) or any(inst["id"] in P.edges()[c["id"]] for c in closures)
        # (that nested values are converted recursively is decided by the container arms above: every element must come out as conv(element))
        if direction == "from_serde_json":
            reach = P.reachable([inst["id"]])
            pe = any(P.inst[i]["path"] == "json_syntax::Object::push_entry" for i in reach)
            ins = any(P.inst[i]["path"] in ("json_syntax::Object::insert", "json_syntax::Object::insert_front") for i in reach)
            res.ob(pe and not ins, rule, "%s/%s/push-family" % (rule, direction), "from_serde_json must build objects through the push family (push_entry reachable: %s, insert reachable: %s)" % (pe, ins))
    res.floor(rule, "variant_mappings", 6 * len(directions))
    # the From impls delegate
    for rx, target in ((r"<impl std::convert::From<serde_json::Value> for json_syntax::Value>::from$", "json_syntax::convert::serde_json::<impl json_syntax::Value>::from_serde_json"),
                       (r"<impl std::convert::From<json_syntax::Value> for serde_json::Value>::from$", "json_syntax::convert::serde_json::<impl json_syntax::Value>::into_serde_json")):
        if target.rsplit("::", 1)[-1] not in directions:
            continue
        try:
            f = shape.find_inst(P, rx)
            cs = [c["path"] for bi, c, t in static.calls(P, f) if c is not None]
            # the method and the From impl are one conversion: one of them holds the body (decided above, per variant, under
            # either name) and the other hands its argument to it
            meth = [i_ for i_ in P.inst if i_["path"] == target and i_.get("has_mir")]
            cs_m = [c["id"] for bi, c, t in static.calls(P, meth[0]) if c is not None] if len(meth) == 1 else None
            res.ob(cs == [target] or cs_m == [f["id"]], rule, rule + "/from-impl/" + target.rsplit("::", 1)[-1],
                   "neither does the From impl simply delegate to %s (it calls %r) nor the method to the From impl" % (target, cs[:4]))
        except Undecided as e:
            res.violation(rule, rule + "/from-impl/missing", str(e))


def container_arm(P, res, rule, direction, fn_rx, inst, src, dst, dstn, vi, vn, want, n):
    """Array / Object arm, decided on a container of n elements: the source container's iterator is scripted to yield n
    distinct items (entries: a key and a value each), the recursive conversion and the key conversion are recorded cut
    points, and the result must hold exactly conv(item_k) (entries: (convkey(key_k), conv(value_k))) for k = 0..n-1 in
    order — whichever way the code walks and builds (iterator chain and collect, explicit loop and push, ...)."""
    from ..absint import CallThen, FnItem
    from ..summ import AVec, LogVec, closure_instance
    key = "%s/%s/%s/n=%d" % (rule, direction, vn, n)
    sh = shape.Shape(P)
    payload = Top(src["variants"][vi]["fields"][0]["ty"], "payload")
    kconv = "str_from" if direction == "from_serde_json" else "str_into"

    def tagof(v):
        return v.tag if isinstance(v, Top) else repr(v)

    # the recursive conversion - under either of its names (the inherent method or the From impl, whichever holds the body) - is
    # a cut point for the scripted elements; applied to the value under conversion itself it is the (delegating) root and runs
    conv_rx = re.compile(fn_rx[:-1] + r"$|<impl std::convert::From<(serde_json|json_syntax)::Value> for (json_syntax|serde_json)::Value>::from$|^<(serde_json|json_syntax)::Value as std::convert::From<(serde_json|json_syntax)::Value>>::from$")
    root_val = []

    def conv(it, st, inst_, args, call):
        if root_val and args and args[0] == root_val[0]:
            return NotImplemented
        st.emit("conv", tuple(args), (), inst_["name"])
        return Top(shape.ret_ty(it, call), ("conv", tagof(args[0])))

    sh.it.summaries.insert(0, (lambda i_: bool(conv_rx.search(i_["name"])), conv))
    for rx in (r"^<smallstr::string::SmallString<.*> as std::convert::From<std::string::String>>::from$", r"^smallstr::string::SmallString::<.*>::into_string$"):
        sh.cut(rx, "kconv", ret=lambda it, st, c, a: Top(shape.ret_ty(it, c), ("kconv", tagof(a[0]))))

    def into_iter(it, st, inst_, args, call):
        if args and args[0] == payload:
            st.emit("walk", (), (), inst_["name"])
            return Top(shape.ret_ty(it, call), "the-iterator")
        return NotImplemented

    sh.it.summaries.insert(0, (lambda i_: i_["name"].endswith("as std::iter::IntoIterator>::into_iter"), into_iter))

    def item(st, ty, k):
        t = P.types[ty]
        if t["k"] == "tuple" and len(t["fields"]) == 2:
            return Agg(ty, 0, (Top(t["fields"][0], ("key", k)), Top(t["fields"][1], ("val", k))))
        if t["k"] == "adt" and t.get("name") == "json_syntax::object::Entry":
            return Agg(ty, 0, tuple(Top(f["ty"], ({"key": "key", "value": "val"}[f["name"]], k)) for f in t["variants"][0]["fields"]))
        return Top(ty, ("item", k))

    def scripted_next(st, opt_ty):
        k = st.ctr.get("scripted", 0)
        st.ctr["scripted"] = k + 1
        if k >= n:
            return Agg(opt_ty, 0, ())
        return Agg(opt_ty, 1, (item(st, P.types[opt_ty]["variants"][1]["fields"][0]["ty"], k),))

    def nxt(it, st, inst_, args, call):
        v = shape.deref(it, st, args[0], 2) if args else None
        if isinstance(v, Top) and v.tag == "the-iterator":
            return scripted_next(st, shape.ret_ty(it, call))
        return NotImplemented

    sh.it.summaries.insert(0, (lambda i_: i_["name"].endswith("as std::iter::Iterator>::next"), nxt))

    def hint(it, st, inst_, args, call):
        v = shape.deref(it, st, args[0], 2) if args else None
        if isinstance(v, Top) and v.tag in ("the-iterator", "payload"):
            return Top(shape.ret_ty(it, call), "size")
        return NotImplemented

    sh.it.summaries.insert(0, (lambda i_: bool(re.search(r"(::size_hint|::len|::is_empty)$", i_["name"])), hint))

    # `walk.map(f).collect()` into a std / serde_json collection: drain the adaptor chain by hand
    def drain(it, st, v, item_ty, then):
        """Calls then(it, st, [items]) with the items the iterator value v yields."""
        if isinstance(v, Top) and v.tag == "the-iterator":
            out = []
            for k in range(n):
                out.append(item(st, item_ty(v), k))
            st.ctr["scripted"] = n + 1
            return then(it, st, out)
        if isinstance(v, Agg) and v.ty is not None and P.types[v.ty].get("name") == "std::iter::Map":
            names = [f["name"] for f in P.types[v.ty]["variants"][0]["fields"]]
            inner, f = v.fields[names.index("iter")], v.fields[names.index("f")]
            if isinstance(f, FnItem):
                fid, fargs = f.inst, (lambda x: [x])
            elif isinstance(f, Agg) and f.ty is not None and P.types[f.ty]["k"] == "closure":
                fid = closure_instance(P, f.ty)
                cell = st.new_obj(f)
                fargs = lambda x: [Ref(("H", cell.id), ()), x]
            else:
                raise Undecided("map over an unknown function %r" % (f,))
            if fid is None:
                raise Undecided("the mapped closure cannot be identified")

            def apply_all(it_, st_, items, acc):
                if not items:
                    return then(it_, st_, acc)
                if isinstance(f, FnItem) and conv_rx.search(P.inst[fid]["name"]):
                    # the recursive conversion passed as a function item: the same cut point as a direct call
                    st_.emit("conv", (items[0],), (), P.inst[fid]["name"])
                    return apply_all(it_, st_, items[1:], acc + [Top(P.inst[fid]["locals"][0], ("conv", tagof(items[0])))])
                return CallThen(fid, fargs(items[0]), lambda it2, st2, rv: apply_all(it2, st2, items[1:], acc + [rv]))

            def inner_ty(_v):
                # the closure's / function's parameter type
                body = P.inst[fid]
                return body["locals"][1 if isinstance(f, FnItem) else 2]

            return drain(it, st, inner, inner_ty, lambda it_, st_, items: apply_all(it_, st_, items, []))
        raise Undecided("collect over an iterator that is not the walk of the source container: %r" % (v,))

    def collect(it, st, inst_, args, call):
        rt = shape.ret_ty(it, call)
        tn = P.types[rt].get("name") if rt is not None else None
        if tn == "std::vec::Vec":
            return drain(it, st, args[0], None, lambda it_, st_, items: st_.new_obj(AVec(tuple(items), "converted")))
        if tn == "serde_json::Map":
            def fin(it_, st_, items):
                for x in items:
                    st_.emit("map_insert", (x,), (), "collect")
                return Top(rt, "the-map")
            return drain(it, st, args[0], None, fin)
        return NotImplemented

    sh.it.summaries.insert(0, (lambda i_: bool(re.search(r"as std::iter::Iterator>::collect::<|as std::iter::FromIterator<.*>>::from_iter::<", i_["name"])), collect))
    # builders
    sh.cut(r"^json_syntax::Object::(new|with_capacity)$|^<json_syntax::Object as std::default::Default>::default$", "obj_new",
           ret=lambda it, st, c, a: Top(shape.ret_ty(it, c), "the-object"))
    sh.cut(r"^json_syntax::Object::push_entry$", "obj_push_entry", ret=lambda it, st, c, a: Conc(1))
    sh.cut(r"^json_syntax::Object::push$", "obj_push", ret=lambda it, st, c, a: Conc(1))
    sh.cut(r"^serde_json::Map::<.*>::(new|with_capacity)$", "map_new", ret=lambda it, st, c, a: Top(shape.ret_ty(it, c), "the-map"))

    def map_insert(it, st, c, a):
        tt = [t for t in P.types if t["k"] == "tuple" and len(t.get("fields", ())) == 2]
        st.events[-1] = ("map_insert", (Agg(None, 0, (a[1], a[2])),), (), "insert")
        return Agg(shape.ret_ty(it, c), 0, ())

    sh.cut(r"^serde_json::Map::<.*>::insert$", "map_insert_call", ret=map_insert)
    try:
        root_val.append(Agg(src["id"], vi, [payload]))
        outs = sh.run(inst, [root_val[0]])
        if len(outs) != 1 or outs[0].outcome[0] != "return":
            raise Undecided("%d paths (%s): the mapping depends on more than the variant" % (len(outs), [o.outcome[0] for o in outs][:4]))
        o = outs[0]
        rv = o.outcome[1]
        if not (isinstance(rv, Agg) and rv.ty == dst["id"] and dstn[rv.variant] == want):
            res.violation(rule, key, "%s maps %s to %r (expected variant %s)" % (direction, vn, rv, want))
            return
        ev = o.events
        stray = [e for e in ev if e[0] == "ext"]
        if stray:
            raise Undecided("unreviewed call into a dependency while converting a container: %s" % stray[0][3][:120])
        walks = [e for e in ev if e[0] == "walk"]
        got = rv.fields[0]
        conv = lambda kind, k: ("conv", (kind, k))
        if vn == "Array":
            h = o.heap.get(got.id) if isinstance(got, Obj) else None
            if isinstance(h, AVec):
                items = list(h.items)
            elif isinstance(h, LogVec):
                items = [e[4] for e in ev if e[0] == "push" and e[2] == got.id]
            else:
                raise Undecided("the converted array is not a tracked vector: %r" % (got,))
            have = [tagof(x) for x in items]
            wantl = [conv("item", k) for k in range(n)]
        elif direction == "from_serde_json":
            if not (isinstance(got, Top) and got.tag == "the-object"):
                raise Undecided("the converted object is not the object that was built: %r" % (got,))
            have = []
            for e in ev:
                if e[0] == "obj_push_entry":
                    en = e[1][1]
                    en = shape.deref(sh.it, o, en, 1) if isinstance(en, Ref) else en
                    if not isinstance(en, Agg):
                        raise Undecided("push_entry of an untracked entry %r" % (en,))
                    names = [f["name"] for f in P.types[en.ty]["variants"][0]["fields"]]
                    have.append((tagof(en.fields[names.index("key")]), tagof(en.fields[names.index("value")])))
                elif e[0] == "obj_push":
                    have.append((tagof(e[1][1]), tagof(e[1][2])))
            wantl = [(("kconv", ("key", k)), conv("val", k)) for k in range(n)]
        else:
            if not (isinstance(got, Top) and got.tag == "the-map"):
                raise Undecided("the converted object is not the map that was built: %r" % (got,))
            have = []
            for e in ev:
                if e[0] == "map_insert":
                    pr = e[1][0]
                    if not (isinstance(pr, Agg) and len(pr.fields) == 2):
                        raise Undecided("an untracked pair is inserted: %r" % (pr,))
                    have.append((tagof(pr.fields[0]), tagof(pr.fields[1])))
            wantl = [(("kconv", ("key", k)), conv("val", k)) for k in range(n)]
        res.ob(have == wantl and len(walks) == 1, rule, key,
               "%s on %s with %d element(s) builds %r, expected %r (every element converted by the recursive conversion, keys by the canonical key conversion, in order, nothing else)" % (direction, vn, n, have, wantl),
               sample={"direction": direction, "variant": vn, "elements": n, "built": repr(have)[:200]})
    except Undecided as e:
        res.violation(rule, key + "/undecided", "deviates from what can be decided; while interpreting: %s" % e)


def panic_rule(ctx, res):
    P = ctx.P
    rule = "C18.panic"
    roots = ["root_from_serde_json", "root_into_serde_json", "root_from_serde_json_trait", "root_into_serde_json_trait"]
    ids = [P.roots[r] for r in roots if r in P.roots]
    res.ob(len(ids) == 4, rule, rule + "/roots", "conversion roots missing")
    srcs = panics.reachable_sources(P, ids)
    res.count("panic_sources_in_own_code", len(srcs))
    ALLOW = [
        ("json_number::serde_json::<impl std::convert::From<serde_json::Number> for json_number::NumberBuf<B>>::from", "Option::unwrap/expect",
         "`NumberBuf::new(n.to_string()).ok().expect(..)`: serde_json's Display for Number always prints a valid JSON number (finite floats only can be stored in a serde_json::Number)"),
        ("json_syntax::Number::as_f64_lossy", "Result::unwrap/expect",
         "lexical parse of the number's own text: a NumberBuf holds a valid JSON number (type invariant; for parsed values exactly C01.lang / C02.num)"),
    ]
    from .C03 import shift_width_ok
    for k, v in sorted(srcs.items()):
        inst = P.inst[v["inst"]]
        src = v["src"]
        site = P.loc(v["inst"], src["bb"])
        key = "C18/panic/%s" % k
        if shift_width_ok(P, inst, src["bb"]):
            res.ob(True, rule, key, "", sample={"source": k, "discharged_by": "constant shift amount"})
            continue
        a = [x for x in ALLOW if x[0] == inst["path"] and x[1] in src["detail"]]
        a2 = allow.allowed(inst["path"], src["detail"], P, inst)
        if a or a2:
            res.ob(True, rule, key, "", sample={"source": k, "allowlisted": (a[0][2] if a else a2["reason"])[:120]})
            continue
        pth = None
        for r in ids:
            pth = P.path(r, lambda i, t=v["inst"]: i["id"] == t)
            if pth:
                break
        res.violation(rule, key, "a panic is reachable from the serde_json conversions: %s in %s" % (src["detail"], inst["name"]), site,
                      witness=" -> ".join(P.inst[i]["name"][-70:] for i in (pth or [])[:10]))
