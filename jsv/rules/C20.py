"""C20 — KindSet is a faithful finite set of value kinds (tables over the complete finite domain)."""
import itertools
import re

from .. import iset, tables
from ..absint import Agg, Conc, Expr, Interp, Ref, State, Str, Sym, Top, Undecided
from ..explore import path_domain
from ..model import _syms_of
from ..pmodel import role_of
from ..summ import FmtLib, Lib, install_bits
from .. import bits as bitsmod
from ..bits import Bits

LEVEL = "other"

KIND_NAMES = ["null", "boolean", "number", "string", "array", "object"]


def mk(P):
    it = Interp(P)
    Lib(role_of).install(it)
    FmtLib().install(it)
    install_bits(it)
    bitsmod.install(it)
    return it


def types(P):
    kind_ty = set_ty = iter_ty = None
    for t in P.types:
        if t.get("name") == "json_syntax::Kind" and t["k"] == "adt":
            kind_ty = t
        if t.get("name") == "json_syntax::KindSet" and t["k"] == "adt":
            set_ty = t
        if t.get("name") == "json_syntax::kind::KindSetIter" and t["k"] == "adt":
            iter_ty = t
    return kind_ty, set_ty, iter_ty


class Env:
    def __init__(self, ctx, res):
        self.P = ctx.P
        self.res = res
        self.kind_ty, self.set_ty, self.iter_ty = types(ctx.P)
        self.kinds = [v["name"] for v in self.kind_ty["variants"]]
        self.masks = None
        self.all = None

    def run(self, root, mkargs):
        """All paths of a root: list of (state, args info)."""
        it = mk(self.P)
        st = State()
        rinst = self.P.inst[self.P.roots[root]]
        args, info = mkargs(st, rinst)
        it.push_frame(st, rinst["id"], args, None, None)
        return it, it.run(st), info

    def bitsval(self, st, name):
        syms = [st.fresh_sym(iset.BOOL, kind="bit", name="%s.%d" % (name, i)) for i in range(6)]
        return Bits(syms + [Conc(0), Conc(0)]), tuple(syms)

    def setval(self, st, name):
        b, syms = self.bitsval(st, name)
        return Agg(self.set_ty["id"], 0, (b,)), syms

    def kindval(self, k):
        return Agg(self.kind_ty["id"], k, ())

    def unset(self, v):
        """The u8 expression inside a KindSet / KindSetIter value."""
        if isinstance(v, Agg) and len(v.fields) == 1:
            return v.fields[0]
        return None


def run(ctx, res):
    res.rules_run += ["C20.masks (the six constants / From<Kind> are distinct single bits; all() is their union; none() is 0)",
                      "C20.ops (every operator in every operand combination = set union / intersection, over all 64x64 / 64x6 / 6x6 operands)",
                      "C20.len (len = cardinality, is_empty = emptiness)",
                      "C20.iter (next = lowest kind in declaration order and removes exactly it; next_back = highest; size_hint = cardinality)",
                      "C20.text (kind names; list / disjunction / conjunction renderings for all 64 sets)",
                      "C20.kind (Value::kind maps each variant to the same-named kind)"]
    E = Env(ctx, res)
    if E.kind_ty is None or E.set_ty is None:
        res.violation("C20.masks", "C20/anchors", "types Kind / KindSet not found in the program")
        return
    try:
        masks_rule(E)
        if E.masks is None:
            return
        ops_rule(E)
        len_rule(E)
        iter_rule(E)
        text_rule(E)
        kind_rule(E, ctx)
    except Undecided as e:
        res.violation("C20", "C20/undecided/" + str(e)[:60], "undecided: %s (%s)" % (e, e.site))
    res.trusted += ["summary table (count_ones, fmt entry points)", "set semantics written in this rule file"]


def single(E, root, mkargs, what):
    it, outs, info = E.run(root, mkargs)
    rets = [o for o in outs if o.outcome[0] == "return"]
    if len(rets) != len(outs):
        E.res.violation("C20.ops", "C20/%s/outcome" % root, "%s can %s" % (root, [o.outcome[0] for o in outs if o.outcome[0] != "return"]))
    return it, rets, info


def masks_rule(E):
    res = E.res
    masks = []
    for k, kn in enumerate(E.kinds):
        it, rets, _ = single(E, "root_set_from_kind", lambda st, r, k=k: ([E.kindval(k)], None), "from")
        v = E.unset(rets[0].outcome[1]) if len(rets) == 1 else None
        ok = isinstance(v, Conc) and v.v > 0 and (v.v & (v.v - 1)) == 0 and v.v < 64
        res.ob(ok, "C20.masks", "C20.masks/from/" + kn, "KindSet::from(Kind::%s) = %r is not a single bit below 64" % (kn, v), sample={"kind": kn, "mask": v.v if isinstance(v, Conc) else None})
        masks.append(v.v if isinstance(v, Conc) else None)
    if None in masks:
        return
    res.ob(len(set(masks)) == 6, "C20.masks", "C20.masks/distinct", "the six masks are not distinct: %r" % (masks,))
    E.masks = masks
    E.all = 0
    for m in masks:
        E.all |= m
    it, rets, _ = single(E, "root_set_consts", lambda st, r: ([], None), "consts")
    arr = rets[0].outcome[1] if rets else None
    got = [E.unset(x).v if isinstance(E.unset(x), Conc) else None for x in arr.fields] if isinstance(arr, Agg) else None
    res.ob(got == masks, "C20.masks", "C20.masks/consts", "the constants NULL..OBJECT are %r, From<Kind> gives %r" % (got, masks))
    for root, want in (("root_set_all", E.all), ("root_set_none", 0)):
        it, rets, _ = single(E, root, lambda st, r: ([], None), root)
        v = E.unset(rets[0].outcome[1]) if rets else None
        res.ob(isinstance(v, Conc) and v.v == want, "C20.masks", "C20.masks/" + root[9:], "%s() = %r, expected %d" % (root[9:], v, want), sample={root[9:]: want})


def sets_of(E, v):
    return frozenset(k for k, m in enumerate(E.masks) if v & m)


def val_of(E, s):
    r = 0
    for k in s:
        r |= E.masks[k]
    return r


def check_paths(E, it, rets, syms, ref, rule, key, result_of=None):
    """For every assignment of the symbolic inputs (domain: values built from the masks) exactly one
    path applies and its result expression evaluates to ref(assignment)."""
    res = E.res
    dom = [val_of(E, s) for r in range(7) for s in itertools.combinations(range(6), r)]
    n = 0
    for vals in itertools.product(dom, repeat=len(syms)):
        env = {}
        for bsyms, v in zip(syms, vals):
            for i, b in enumerate(bsyms):
                env[b.id] = (v >> i) & 1
        hits = []
        for o in rets:
            ok = True
            for sid, bv in env.items():
                d = o.cons.get(sid)
                if d is not None and not iset.contains(d, bv):
                    ok = False
                    break
            if ok:
                for e, t in o.preds:
                    if _syms_of(e) <= set(env) and it.eval_expr(e, env) != t:
                        ok = False
                        break
            if ok:
                hits.append(o)
        n += 1
        if len(hits) != 1:
            res.violation(rule, "%s/paths" % key, "%d paths apply to operands %r" % (len(hits), vals))
            return n
        o = hits[0]
        got = result_of(o, env) if result_of else it.eval_expr(E.unset(o.outcome[1]), env)
        want = ref(*vals)
        if got != want:
            res.violation(rule, "%s" % key, "on operands %s the result is %r, set semantics give %r" % (
                [sorted(E.kinds[k] for k in sets_of(E, v)) for v in vals], got, want), witness={"operands": list(vals)})
            return n
    res.obligations += n
    res.discharged += n
    return n


def ops_rule(E):
    res = E.res
    OR = lambda a, b: a | b
    AND = lambda a, b: a & b
    # set x set
    for root, f in (("root_set_or_set", OR), ("root_set_and_set", AND)):
        def mk2(st, r):
            a, sa = E.setval(st, "a")
            b, sb = E.setval(st, "b")
            return [a, b], [sa, sb]
        it, rets, syms = single(E, root, mk2, root)
        n = check_paths(E, it, rets, syms, f, "C20.ops", "C20.ops/" + root[5:])
        res.count("operand_pairs", n)
        res.samples.append({"operator": root[5:], "operand_pairs_checked": n})
    # assign variants: (&mut set, set)
    for root, f in (("root_set_or_assign_set", OR), ("root_set_and_assign_set", AND)):
        def mk3(st, r):
            a, sa = E.setval(st, "a")
            b, sb = E.setval(st, "b")
            cell = st.new_obj(a)
            return [Ref(("H", cell.id), ()), b], ([sa, sb], cell.id)
        it, rets, (syms, cid) = single(E, root, mk3, root)
        n = check_paths(E, it, rets, syms, f, "C20.ops", "C20.ops/" + root[5:], result_of=lambda o, env, cid=cid, it=it: it.eval_expr(E.unset(o.heap[cid]), env))
        res.count("operand_pairs", n)
    # set x kind, kind x set, kind x kind
    for k, kn in enumerate(E.kinds):
        m = E.masks[k]
        for root, f, order in (("root_set_or_kind", OR, "sk"), ("root_set_and_kind", AND, "sk"), ("root_kind_or_set", OR, "ks"), ("root_kind_and_set", AND, "ks")):
            def mk4(st, r, order=order, k=k):
                a, sa = E.setval(st, "a")
                return ([a, E.kindval(k)] if order == "sk" else [E.kindval(k), a]), [sa]
            it, rets, syms = single(E, root, mk4, root)
            n = check_paths(E, it, rets, syms, lambda a, f=f, m=m: f(a, m), "C20.ops", "C20.ops/%s/%s" % (root[5:], kn))
            res.count("operand_pairs", n)
        for root, f in (("root_set_or_assign_kind", OR), ("root_set_and_assign_kind", AND)):
            def mk5(st, r, k=k):
                a, sa = E.setval(st, "a")
                cell = st.new_obj(a)
                return [Ref(("H", cell.id), ()), E.kindval(k)], ([sa], cell.id)
            it, rets, (syms, cid) = single(E, root, mk5, root)
            n = check_paths(E, it, rets, syms, lambda a, f=f, m=m: f(a, m), "C20.ops", "C20.ops/%s/%s" % (root[5:], kn),
                            result_of=lambda o, env, cid=cid, it=it: it.eval_expr(E.unset(o.heap[cid]), env))
            res.count("operand_pairs", n)
        for k2, kn2 in enumerate(E.kinds):
            for root, f in (("root_kind_or_kind", OR), ("root_kind_and_kind", AND)):
                it, rets, _ = single(E, root, lambda st, r, k=k, k2=k2: ([E.kindval(k), E.kindval(k2)], None), root)
                v = E.unset(rets[0].outcome[1]) if len(rets) == 1 else None
                want = f(m, E.masks[k2])
                res.ob(isinstance(v, Conc) and v.v == want, "C20.ops", "C20.ops/%s/%s/%s" % (root[5:], kn, kn2), "Kind::%s %s Kind::%s = %r, expected %d" % (kn, root[10:12], kn2, v, want))
                res.count("operand_pairs")
    res.floor("C20.ops", "operand_pairs", 64 * 64 * 4 + 64 * 6 * 6 + 72)


def len_rule(E):
    res = E.res

    def mkref(st, r):
        a, sa = E.setval(st, "a")
        cell = st.new_obj(a)
        return [Ref(("H", cell.id), ())], [sa]
    it, rets, syms = single(E, "root_set_len", mkref, "len")
    check_paths(E, it, rets, syms, lambda a: len(sets_of(E, a)), "C20.len", "C20.len/len", result_of=lambda o, env, it=it: it.eval_expr(o.outcome[1], env))
    it, rets, syms = single(E, "root_set_is_empty", mkref, "is_empty")
    check_paths(E, it, rets, syms, lambda a: int(len(sets_of(E, a)) == 0), "C20.len", "C20.len/is_empty", result_of=lambda o, env, it=it: it.eval_expr(o.outcome[1], env))
    res.samples.append({"len/is_empty": "64 sets each"})


def iter_rule(E):
    res = E.res
    P = E.P
    # iter()/into_iter() start from the set's own mask
    for root in ("root_set_iter", "root_set_into_iter", "root_set_ref_into_iter"):
        def mk1(st, r, root=root):
            a, sa = E.setval(st, "a")
            if root == "root_set_into_iter":
                return [a], [sa]
            cell = st.new_obj(a)
            return [Ref(("H", cell.id), ())], [sa]
        it, rets, syms = single(E, root, mk1, root)
        check_paths(E, it, rets, syms, lambda a: a, "C20.iter", "C20.iter/" + root[9:])

    def mkiter(st, r):
        b, s = E.bitsval(st, "it")
        cell = st.new_obj(Agg(E.iter_ty["id"], 0, (b,)))
        return [Ref(("H", cell.id), ())], ([s], cell.id)

    for root, pick in (("root_set_iter_next", min), ("root_set_iter_next_back", max)):
        it, rets, (syms, cid) = single(E, root, mkiter, root)

        def result(o, env, it=it, cid=cid):
            rv = o.outcome[1]
            kind = None
            if isinstance(rv, Agg) and rv.variant == 1:
                kind = rv.fields[0].variant
            rest = it.eval_expr(E.unset(o.heap[cid]), env)
            return (kind, rest)

        def ref(a, pick=pick):
            s = sets_of(E, a)
            if not s:
                return (None, a)
            k = pick(s)
            return (k, a & ~E.masks[k])
        check_paths(E, it, rets, syms, ref, "C20.iter", "C20.iter/" + root[14:], result_of=result)
        res.samples.append({"iterator step": root[14:], "sets_checked": 64})
    it, rets, (syms, cid) = single(E, "root_set_iter_size_hint", mkiter, "size_hint")

    def sh(o, env, it=it):
        rv = o.outcome[1]
        lo = it.eval_expr(rv.fields[0], env)
        hi = rv.fields[1]
        hiv = it.eval_expr(hi.fields[0], env) if isinstance(hi, Agg) and hi.variant == 1 else None
        return (lo, hiv)
    check_paths(E, it, rets, syms, lambda a: (len(sets_of(E, a)), len(sets_of(E, a))), "C20.iter", "C20.iter/size_hint", result_of=sh)

    # the consuming methods, whether they are the trait's defaults (built on next) or overridden: last() is the highest
    # remaining kind, count() the number of remaining kinds
    def mkiter_val(st, r):
        b, s = E.bitsval(st, "it")
        return [Agg(E.iter_ty["id"], 0, (b,))], ([s], None)

    for root, ref_fn in (("root_set_iter_last", lambda a: (max(sets_of(E, a)) if sets_of(E, a) else None)), ("root_set_iter_count", lambda a: len(sets_of(E, a)))):
        if root not in P.roots:
            res.violation("C20.iter", "C20.iter/missing-root/" + root, "harness root %s missing" % root)
            continue
        it, rets, (syms, _) = single(E, root, mkiter_val, root)

        def result2(o, env, it=it, root=root):
            rv = o.outcome[1]
            if root.endswith("last"):
                return rv.fields[0].variant if isinstance(rv, Agg) and rv.variant == 1 else None
            return it.eval_expr(rv, env)

        check_paths(E, it, rets, syms, ref_fn, "C20.iter", "C20.iter/" + root[14:], result_of=result2)
        res.samples.append({"iterator method": root[14:], "sets_checked": 64})


def render_ref(E, s, last_sep):
    names = [KIND_NAMES[k] for k in sorted(s)]
    if last_sep is None:
        return ", ".join(names)
    if len(s) == 6:
        return "anything"
    if not names:
        return "nothing"
    if len(names) == 1:
        return names[0]
    return ", ".join(names[:-1]) + last_sep + names[-1]


def text_rule(E):
    res = E.res
    # kind names
    for k, kn in enumerate(E.kinds):
        def mk1(st, r, k=k):
            cell = st.new_obj(E.kindval(k))
            return [Ref(("H", cell.id), ()), Top(None, "f")], None
        it, rets, _ = single(E, "root_kind_display", mk1, "kind_display")
        txt = tables.render(it, rets[0].events, {}) if len(rets) == 1 else None
        res.ob(txt == KIND_NAMES[k] and kn.lower() == KIND_NAMES[k], "C20.text", "C20.text/kind/" + kn, "Kind::%s is displayed as %r" % (kn, txt), sample={"kind": kn, "text": txt})
    for root, sep, byref in (("root_set_display", None, True), ("root_set_disjunction_display", " or ", False), ("root_set_conjunction_display", " and ", False)):
        def mk2(st, r, byref=byref):
            a, sa = E.setval(st, "a")
            if byref:
                cell = st.new_obj(a)
                return [Ref(("H", cell.id), ()), Top(None, "f")], [sa]
            return [a, Top(None, "f")], [sa]
        it, rets, syms = single(E, root, mk2, root)
        check_paths(E, it, rets, syms, lambda a, sep=sep: render_ref(E, sets_of(E, a), sep), "C20.text", "C20.text/" + root[9:],
                    result_of=lambda o, env, it=it: tables.render(it, o.events, env))
        res.samples.append({"rendering": root[9:], "sets_checked": 64, "paths": len(rets)})


def kind_rule(E, ctx):
    res = E.res
    P = E.P
    vt = [t for t in P.types if t.get("name") == "json_syntax::Value" and t["k"] == "adt"][0]
    for vi, v in enumerate(vt["variants"]):
        def mk1(st, r, vi=vi):
            cell = st.new_obj(Agg(vt["id"], vi, [Top(f["ty"], "p") for f in vt["variants"][vi]["fields"]]))
            return [Ref(("H", cell.id), ())], None
        it, rets, _ = single(E, "root_value_kind", mk1, "kind")
        rv = rets[0].outcome[1] if len(rets) == 1 else None
        got = E.kinds[rv.variant] if isinstance(rv, Agg) else None
        res.ob(got == v["name"], "C20.kind", "C20.kind/" + v["name"], "Value::%s reports kind %r" % (v["name"], got), sample={"variant": v["name"], "kind": got})
