"""C07 — errors point at the first offending character."""
from .. import parsercheck
from . import C01

LEVEL = "model_checking"


def run(ctx, res):
    res.rules_run += ["C07.unexp (Unexpected(p, c): p = offset of the first character R has no transition on, c = that character, None exactly at end of input)",
                      "C07.utf8 (a stream error is reported at the offset of the failed pull, before anything else is consumed)",
                      "C07.surr (surrogate errors carry the held / offending units and a span inside the escapes, start <= end <= current offset)",
                      "C07.bound (every offset in an error is a position read from the parser, no arithmetic)",
                      "C07.entry (every public entry point returns the core's error unchanged - Stream(p, _) becoming InvalidUtf8(p) on the byte-slice paths - and has no verdict of its own: all of its returning paths pass through the one core call)"]
    prod = parsercheck.apply(ctx, res, ["C07.", "E2."], strict_only=True)
    strict = prod["runs"][0]
    res.count("rejecting_transitions", strict["rejecting"])
    res.count("distinct_error_sites", strict["stats"].get("error_sites", 0))
    res.floor("C07.unexp", "rejecting_transitions", 1000)
    C01.entry_rule(ctx, res, rule="C07.entry")
    res.notes.append("io_into_utf8 (Stream(p,_) -> InvalidUtf8(p), other variants unchanged) is interpreted as part of C07.entry (tail of parse_slice / parse_slice_with)")
