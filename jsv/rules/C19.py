"""C19 — the `json!` macro builds exactly the written document.

Three static engines:

* C19.arms   — token-tree rules over the macro definition itself (dumped by the driver from the
               HIR): the accumulator discipline of the two tt-munchers, the order of the arms that
               decides which arm a token sequence selects, and the terminal / scalar arms.
* C19.expand — translation validation of the expansion: a bounded-exhaustive family of `json!`
               invocations is *compiled* (never run) against the current tree, and the MIR of every
               expanded body is interpreted abstractly down to the constructor tree
               (Value::Null / Boolean / Number(From<i32|f64>) / String(From<&str>) / Array(vec) /
               Object(from_vec(vec of Entry::new(key.into(), value)))), which must equal the
               document that was written, member for member and in order.
* C19.conv   — the conversions the expansion relies on: From<integer> for Value hands the integer
               unchanged to NumberBuf's From of the same integer type, From<&str>/String build
               Value::String of the same text, Object::from_vec keeps the vector as the entries
               and indexes every position (shared with C06.pair).
"""
import re

from .. import corpus, extract, facts, shape, static
from ..absint import UNIT, Agg, Conc, Obj, Ref, Str, Top, Undecided, Uninit
from ..summ import AVec, ret_ty

LEVEL = "translation_validation"


def _ob(res, rule, ok, key, msg, detail="", site=""):
    return res.ob(bool(ok), rule, key, msg if ok or not detail else "%s — %s" % (msg, detail), site=site)


def run(ctx, res):
    res.rules_run += ["C19.arms (token-tree rules over macro_rules! json: accumulator kept and extended at the end in every recursive arm, keyword / literal / array / object arms precede the expression arms, terminal arms hand the accumulator to json_vec! / Object::from_vec unchanged, scalar arms)",
                      "C19.expand (every json! invocation of the bounded-exhaustive corpus, compiled against the current tree: the expanded MIR interpreted to a constructor tree that must equal the written document)",
                      "C19.conv (From<integer|&str|String|bool> for Value and Object::from_vec are value-preserving delegations)"]
    arms_rule(ctx, res)
    expand_rule(ctx, res)
    # "... equals the value obtained by parsing the corresponding JSON text": the parser side — it accepts every valid text and
    # its value is the text's abstract content (what the macro is compared with)
    from .. import parsercheck
    res.rules_run.append("C19.parse (the strict parser rejects no valid text and decodes it to its abstract content: product findings of kind rejects-valid and on the output channels)")
    parsercheck.apply(ctx, res, ["C01.lang", "C02.", "E2."], strict_only=True, rename="C19.parse",
                      finding_filter=lambda f, strict: None if (f["rule"].startswith(("C02.str", "C02.struct")) or "rejects-valid" in f["key"]) else (
                          "the spelling the parser keeps for a number is C02's clause (the macro's numbers are formatted by the number crate, not taken from a text)" if f["rule"].startswith("C02.num")
                          else "the parser accepting too much does not change what a valid literal parses to"))
    res.trusted.append("rustc's macro_rules! expander and MIR construction (the expansion is taken from the compiler, not re-implemented)")
    res.trusted.append("json_number's NumberBuf::from(integer) / try_from(f64) and smallstr's From<&str> produce the lexical form of their argument (third-party crates, opaque)")


# =====================================================================================================================
# C19.arms
# =====================================================================================================================
def split_arms(body):
    """macro body token trees -> list of (matcher tokens, transcriber tokens)."""
    arms = []
    cur = []
    for t in body:
        if t == ";":
            if cur:
                arms.append(cur)
            cur = []
        else:
            cur.append(t)
    if cur:
        arms.append(cur)
    out = []
    for a in arms:
        if len(a) != 4 or a[1] != "=" or a[2] != ">" or not isinstance(a[0], dict) or not isinstance(a[3], dict):
            # `=>` may be dumped as one token
            if len(a) == 3 and a[1] == "=>" and isinstance(a[0], dict) and isinstance(a[2], dict):
                out.append((a[0]["t"], a[2]["t"]))
                continue
            raise Undecided("unexpected macro arm shape: %s" % flat(a)[:120])
        out.append((a[0]["t"], a[3]["t"]))
    return out


def flat(ts):
    """Canonical text of a token-tree list."""
    out = []
    for t in ts:
        if isinstance(t, dict):
            close = {"(": ")", "[": "]", "{": "}", "": ""}[t["d"]]
            out.append(t["d"] + flat(t["t"]) + close)
        else:
            out.append(t)
    return " ".join(out)


def norm(s):
    return re.sub(r"\s+", "", s)


def group_at(ts, i, delim):
    return isinstance(ts[i], dict) and ts[i]["d"] == delim if i < len(ts) else False


ACC_COMMA = norm("$($elems:expr,)*")
ACC_SEP = norm("$($elems:expr),*")
ACC_OUT = norm("$($elems,)*")


def arms_rule(ctx, res):
    I = ctx.I
    m = [x for x in I.macros if x["name"] == "json"]
    if len(m) != 1:
        res.violation("C19.arms", "macro/json/missing", "macro_rules! json not found in the crate (found %d)" % len(m), site="src/macros.rs")
        return
    try:
        arms = split_arms(m[0]["body"])
    except Undecided as e:
        res.violation("C19.arms", "macro/json/shape", str(e), site="src/macros.rs")
        return
    res.count("C19.arms macro arms", len(arms))
    res.floor("C19.arms", "C19.arms macro arms", 40)
    kinds = []
    for idx, (lhs, rhs) in enumerate(arms):
        kinds.append(classify(lhs))
    n_rec = 0
    for idx, ((lhs, rhs), kind) in enumerate(zip(arms, kinds)):
        key = "macro/json/arm/%s" % kind_key(kind, lhs)
        mode = kind[0]
        if mode in ("array", "object") and kind[1] in ("null", "true", "false", "literal", "array", "map", "expr_comma", "expr_last"):
            n_rec += 1
            check_recursive_arm(res, key, mode, kind[1], lhs, rhs)
        elif mode in ("array", "object") and kind[1] in ("done_comma", "done_sep"):
            check_terminal_arm(res, key, mode, kind[1], lhs, rhs)
        elif mode in ("array", "object") and kind[1] == "comma":
            check_comma_arm(res, key, mode, lhs, rhs)
        elif mode == "object" and kind[1] in ("paren_key", "munch"):
            check_key_arm(res, key, kind[1], lhs, rhs)
        elif mode == "key":
            ok = norm(flat(rhs)) == norm("$key.into()")
            _ob(res, "C19.arms", ok, key, "the key arm converts the key expression with .into() and nothing else", flat(rhs))
        elif mode == "scalar":
            check_scalar_arm(res, key, kind[1], rhs)
    res.count("C19.arms recursive muncher arms", n_rec)
    res.floor("C19.arms", "C19.arms recursive muncher arms", 16)
    check_order(res, kinds)
    # json_vec! must be vec![$($content)*]
    jv = [x for x in I.macros if x["name"] == "json_vec"]
    ok = False
    if len(jv) == 1:
        try:
            a = split_arms(jv[0]["body"])
            ok = len(a) == 1 and norm(flat(a[0][0])) == norm("$($content:tt)*") and norm(flat(a[0][1])) == norm("vec![$($content)*]")
        except Undecided:
            ok = False
    _ob(res, "C19.arms", ok, "macro/json_vec", "json_vec! forwards its tokens unchanged to vec!", "json_vec body")


def kind_key(kind, lhs):
    return "%s/%s" % (kind[0], kind[1]) + ("" if kind[1] not in ("other",) else "/" + norm(flat(lhs))[:60])


def classify(lhs):
    """(mode, kind) of an arm from its matcher."""
    if len(lhs) >= 2 and lhs[0] == "@" and lhs[1] == "array":
        rest = lhs[3:]
        acc = norm(flat(lhs[2]["t"])) if group_at(lhs, 2, "[") else None
        if not rest:
            return ("array", "done_comma" if acc == ACC_COMMA else "done_sep" if acc == ACC_SEP else "other")
        return ("array", item_kind(rest, acc, array=True))
    if len(lhs) >= 2 and lhs[0] == "@" and lhs[1] == "object":
        acc = norm(flat(lhs[2]["t"])) if group_at(lhs, 2, "[") else None
        if len(lhs) < 6 or not group_at(lhs, 3, "(") or not group_at(lhs, 4, "("):
            return ("object", "other")
        keyg, restg, copy = lhs[3]["t"], lhs[4]["t"], lhs[5:]
        if not (norm(flat(copy)) in (norm("$copy:tt"), "()") or (len(copy) == 1 and group_at(copy, 0, "("))):
            return ("object", "other")
        if not keyg and not restg and norm(flat(copy)) == "()":
            return ("object", "done_comma" if acc == ACC_COMMA else "done_sep" if acc == ACC_SEP else "other")
        nk = norm(flat(keyg))
        if restg and restg[0] == ":" and nk == norm("$($key:tt)+"):
            if len(restg) == 1:
                return ("object", "missing_value")
            return ("object", item_kind(restg[1:], acc, array=False))
        if not keyg and restg and restg[0] == ",":
            return ("object", "comma")
        if nk == norm("$($key:tt)+") and not restg:
            return ("object", "missing_colon")
        if not keyg and restg and restg[0] == ":":
            return ("object", "misplaced_colon")
        if nk == norm("$($key:tt)*") and restg and restg[0] == ",":
            return ("object", "comma_in_key")
        if not keyg and restg and group_at(restg, 0, "(") and norm(flat(restg[0]["t"])) == norm("$key:expr") and len(restg) > 1 and restg[1] == ":":
            return ("object", "paren_key")
        if nk == norm("$($key:tt)*") and restg and restg[0] == ":":
            return ("object", "refuse_colon")
        if nk == norm("$($key:tt)*") and norm(flat(restg)) == norm("$tt:tt $($rest:tt)*"):
            return ("object", "munch")
        return ("object", "other")
    if len(lhs) >= 2 and lhs[0] == "@" and lhs[1] == "key":
        return ("key", norm(flat(lhs[2:])))
    n = norm(flat(lhs))
    table = {"null": "null", "true": "true", "false": "false", norm("$lit:literal"): "literal", "[]": "empty_array", norm("[$($tt:tt)+]"): "array",
             "{}": "empty_object", norm("{$($tt:tt)+}"): "object", norm("$other:expr"): "expr"}
    return ("scalar", table.get(n, "other:" + n[:40]))


def item_kind(rest, acc, array):
    """Kind of a muncher arm from the tokens after the accumulator (array) / after the colon (object)."""
    n = norm(flat(rest))
    tail = norm("$($rest:tt)*")
    if acc == ACC_SEP and rest[0] == ",":
        return "comma"
    if acc == ACC_SEP and n.startswith(norm("$unexpected:tt")):
        return "unexpected"
    if acc != ACC_COMMA:
        return "other"
    for kw in ("null", "true", "false"):
        if n == kw + tail:
            return kw
    if n == norm("$lit:literal") + tail:
        return "literal"
    if n == norm("[$($array:tt)*]") + tail:
        return "array"
    if n == norm("{$($map:tt)*}") + tail:
        return "map"
    if n == norm("$next:expr,") + tail:
        return "expr_comma"
    if n == norm("$last:expr"):
        return "expr_last"
    if not array and n == norm("$($unexpected:tt)+"):
        return "refuse_colon"
    return "other"


VALUE_OF = {"null": "json!(null)", "true": "json!(true)", "false": "json!(false)", "literal": "json!($lit)", "array": "json!([$($array)*])",
            "map": "json!({$($map)*})", "expr_comma": "json!($next)", "expr_last": "json!($last)"}


def check_recursive_arm(res, key, mode, kind, lhs, rhs):
    """The transcriber must be json!(@array [ACC new] REST) resp. json!(@object [ACC Entry::new(key, new)] () (REST) (REST)),
    with ACC = `$($elems,)*` first and the new element after it."""
    ok = len(rhs) == 3 and rhs[0] == "json" and rhs[1] == "!" and group_at(rhs, 2, "(")
    detail = flat(rhs)
    if not ok:
        _ob(res, "C19.arms", False, key, "recursive arm re-invokes json! once", detail)
        return
    inner = rhs[2]["t"]
    if len(inner) < 3 or inner[0] != "@" or inner[1] != mode or not group_at(inner, 2, "["):
        _ob(res, "C19.arms", False, key, "recursive arm stays in the @%s muncher with a bracketed accumulator" % mode, detail)
        return
    acc = norm(flat(inner[2]["t"]))
    # the accumulator must be `$($elems,)*` followed by exactly one new element.  What the new element looks like is decided
    # by C19.expand on the compiled corpus; here only the discipline is checked: earlier members kept in order, the new
    # member last, and — for the arms that matched tokens — built from those tokens ($lit, $array, $map, $next, $last; and the
    # accumulated key for objects).
    ok_prefix = acc.startswith(ACC_OUT)
    new_el = acc[len(ACC_OUT):] if ok_prefix else ""
    comma = kind == "expr_comma"
    if comma and new_el.endswith(","):
        new_el = new_el[:-1]
    meta = {"literal": "$lit", "array": "$array", "map": "$map", "expr_comma": "$next", "expr_last": "$last"}.get(kind)
    uses_tokens = meta is None or meta in new_el
    one_element = bool(new_el) and top_level_commas(inner[2]["t"]) == (1 if comma else 0)
    uses_key = mode == "array" or "$key" in new_el
    res_ok = ok_prefix and one_element and uses_tokens and uses_key and "$elems" not in new_el
    _ob(res, "C19.arms", res_ok, key,
        "the accumulator is `$($elems,)*` followed by exactly one new element built from the matched tokens (earlier members kept, in order, new member last)",
        "accumulator: %s" % flat(inner[2]["t"]))
    rest = norm(flat(inner[3:]))
    if mode == "array":
        want_rest = "" if kind == "expr_last" else norm("$($rest)*")
    else:
        want_rest = norm("() () ()") if kind == "expr_last" else norm("() ($($rest)*) ($($rest)*)")
    _ob(res, "C19.arms", rest == want_rest, key + "/rest", "the remaining tokens are passed on unchanged (nothing dropped or duplicated)", "rest: %s" % flat(inner[3:]))


def top_level_commas(tokens):
    """Number of `,` tokens at the top level of the accumulator that are not part of the `$($elems,)*` repetition."""
    n = 0
    i = 0
    while i < len(tokens):
        t = tokens[i]
        if t == "$" and i + 1 < len(tokens) and isinstance(tokens[i + 1], dict):
            # a repetition `$( ... ) sep? op`: skip the group, an optional separator and the operator
            i += 2
            if i < len(tokens) and tokens[i] in (",", ";") and i + 1 < len(tokens) and tokens[i + 1] in ("*", "+", "?"):
                i += 1
            if i < len(tokens) and tokens[i] in ("*", "+", "?"):
                i += 1
            continue
        if t == ",":
            n += 1
        i += 1
    return n


def check_terminal_arm(res, key, mode, kind, lhs, rhs):
    acc = "$($elems,)*" if kind == "done_comma" else "$($elems),*"
    if mode == "array":
        want = norm("json_vec![%s]" % acc)
    else:
        want = norm("$crate::Object::from_vec(json_vec![%s])" % acc)
    _ob(res, "C19.arms", norm(flat(rhs)) == want, key, "the terminal arm hands the whole accumulator, in order, to json_vec! (and Object::from_vec)", flat(rhs))


def check_comma_arm(res, key, mode, lhs, rhs):
    if mode == "array":
        want = norm("json!(@array [$($elems,)*] $($rest)*)")
    else:
        want = norm("json!(@object [$($elems,)*] () ($($rest)*) ($($rest)*))")
    _ob(res, "C19.arms", norm(flat(rhs)) == want, key, "the comma arm keeps the accumulator and drops only the comma", flat(rhs))


def check_key_arm(res, key, kind, lhs, rhs):
    if kind == "paren_key":
        want = norm("json!(@object [$($elems,)*] ($key) (: $($rest)*) (: $($rest)*))")
    else:
        want = norm("json!(@object [$($elems,)*] ($($key)* $tt) ($($rest)*) ($($rest)*))")
    _ob(res, "C19.arms", norm(flat(rhs)) == want, key, "key tokens are accumulated in order and the accumulator is kept", flat(rhs))


SCALAR = {"null": "$crate::Value::Null", "true": "$crate::Value::Boolean(true)", "false": "$crate::Value::Boolean(false)",
          "literal": "$crate::Value::try_from($lit).unwrap()", "empty_array": "$crate::Value::Array(json_vec![])",
          "array": "$crate::Value::Array(json!(@array [] $($tt)+))", "empty_object": "$crate::Value::Object($crate::Object::new())",
          "object": "$crate::Value::Object(json!(@object [] () ($($tt)+) ($($tt)+)))", "expr": "$crate::Value::from($other)"}


def check_scalar_arm(res, key, kind, rhs):
    if kind not in SCALAR:
        _ob(res, "C19.arms", False, key, "unreviewed top-level arm", flat(rhs))
        return
    _ob(res, "C19.arms", norm(flat(rhs)) == norm(SCALAR[kind]), key, "top-level arm builds the matching Value variant from the matched tokens", flat(rhs))


def check_order(res, kinds):
    """macro_rules tries arms top to bottom: in each muncher the specific arms (keywords, literal, array, map) must come
    before the expression arms (which would otherwise swallow `null`, `[..]`, `{..}` as Rust expressions or fail), the
    done arms before everything else, and on top level null/true/false/literal/[]/{} before `$other:expr`."""
    def pos(mode, k):
        r = [i for i, kd in enumerate(kinds) if kd == (mode, k)]
        return r[0] if len(r) == 1 else None
    for mode in ("array", "object"):
        need = ["done_comma", "done_sep", "null", "true", "false", "literal", "array", "map", "expr_comma", "expr_last", "comma"]
        p = {k: pos(mode, k) for k in need}
        missing = [k for k, v in p.items() if v is None]
        _ob(res, "C19.arms", not missing, "macro/json/order/%s/present" % mode, "each muncher arm exists exactly once", "missing or duplicated: %s" % missing)
        if missing:
            continue
        specific = [p[k] for k in ("null", "true", "false", "literal", "array", "map")]
        ok = max(specific) < min(p["expr_comma"], p["expr_last"]) and max(p["done_comma"], p["done_sep"]) < min(specific)
        _ob(res, "C19.arms", ok, "macro/json/order/%s" % mode, "done arms first, keyword / literal / array / map arms before the expression arms", str(p))
        if mode == "object":
            extra = {k: pos("object", k) for k in ("paren_key", "refuse_colon", "munch")}
            ok = all(v is not None for v in extra.values()) and max(p["expr_comma"], p["expr_last"], p["comma"]) < extra["paren_key"] < extra["refuse_colon"] < extra["munch"]
            _ob(res, "C19.arms", ok, "macro/json/order/object/key", "value arms before the key arms; the token-munching key arm last", str(extra))
    p = {k: pos("scalar", k) for k in SCALAR}
    missing = [k for k, v in p.items() if v is None]
    _ob(res, "C19.arms", not missing, "macro/json/order/scalar/present", "each top-level arm exists exactly once", "missing or duplicated: %s" % missing)
    if not missing:
        ok = max(p[k] for k in SCALAR if k != "expr") < p["expr"] and p["empty_array"] < p["array"] and p["empty_object"] < p["object"]
        munch = [i for i, kd in enumerate(kinds) if kd[0] in ("array", "object", "key")]
        ok = ok and max(munch) < min(p.values())
        _ob(res, "C19.arms", ok, "macro/json/order/scalar", "internal @-arms first, then null/true/false/literal/[]/{} before the catch-all expression arm", str(p))


# =====================================================================================================================
# C19.conv
# =====================================================================================================================
INTS = ["u8", "u16", "u32", "u64", "i8", "i16", "i32", "i64"]


def conv_rule(ctx, res, P):
    n = 0
    for ity in INTS:
        cands = [i for i in P.inst if i["name"] == "<json_syntax::Value as std::convert::From<%s>>::from" % ity and i.get("has_mir")]
        if len(cands) != 1:
            _ob(res, "C19.conv", False, "conv/from/%s" % ity, "From<%s> for Value is in the program" % ity, "found %d instances (roots crate must reference it)" % len(cands))
            continue
        inst = cands[0]
        key = "conv/from/%s" % ity
        try:
            sh = shape.Shape(P)
            bits = int(ity[1:])
            from .. import iset
            x = sh.sym(iset.full(bits, ity[0] == "i"), name="n")
            outs = sh.run(inst, [x])
        except Undecided as e:
            _ob(res, "C19.conv", False, key, "interpretable", str(e))
            continue
        ok = len(outs) == 1 and outs[0].outcome and outs[0].outcome[0] == "return"
        detail = ""
        if ok:
            o = outs[0]
            v = o.outcome[1]
            evs = [e for e in o.events if e[0] == "ext"]
            want = "<json_number::NumberBuf<smallvec::SmallVec<[u8; 16]>> as std::convert::From<%s>>::from" % ity
            ok = (isinstance(v, Agg) and vname(P, v) == "Number" and len(evs) == 1 and evs[0][-1] == want and len(evs[0][1]) == 1 and evs[0][1][0] is x
                  and isinstance(v.fields[0], Top) and v.fields[0].tag == "ext:" + P.inst[P.by_name[want]]["path"] if want in P.by_name else False)
            detail = "result %r; external calls %s" % (v, [(e[-1], e[1]) for e in evs])
        else:
            detail = "%d paths: %s" % (len(outs), [o.outcome for o in outs][:3])
        _ob(res, "C19.conv", ok, key, "Value::Number(NumberBuf::from(n)) with n the argument itself, converted at its own integer type", detail, site=P.loc(inst["id"]))
        n += 1
    res.count("C19.conv integer conversions", n)
    res.floor("C19.conv", "C19.conv integer conversions", 8)
    # strings and booleans
    for name, variant in (("<json_syntax::Value as std::convert::From<bool>>::from", "Boolean"),
                          ("<json_syntax::Value as std::convert::From<&str>>::from", "String"),
                          ("<json_syntax::Value as std::convert::From<std::string::String>>::from", "String")):
        cands = [i for i in P.inst if i["name"] == name and i.get("has_mir")]
        key = "conv/from/" + name.split("From<")[1].split(">")[0]
        if len(cands) != 1:
            _ob(res, "C19.conv", False, key, "%s is in the program" % name, "found %d" % len(cands))
            continue
        try:
            sh = shape.Shape(P)
            from .. import iset
            x = sh.sym(iset.BOOL, name="b") if variant == "Boolean" else Top(None, "the-argument")
            outs = sh.run(cands[0], [x])
        except Undecided as e:
            _ob(res, "C19.conv", False, key, "interpretable", str(e))
            continue
        ok = len(outs) == 1 and outs[0].outcome[0] == "return"
        detail = "%d paths" % len(outs)
        if ok:
            v = outs[0].outcome[1]
            evs = [e for e in outs[0].events if e[0] == "ext"]
            if variant == "Boolean":
                ok = isinstance(v, Agg) and vname(P, v) == "Boolean" and v.fields[0] is x and not evs
            else:
                ok = isinstance(v, Agg) and vname(P, v) == "String" and len(evs) == 1 and len(evs[0][1]) == 1 and (evs[0][1][0] is x or evs[0][2][0] == x) and isinstance(v.fields[0], Top) and v.fields[0].tag.startswith("ext:")
            detail = "result %r; external calls %s" % (v, [(e[-1], e[1]) for e in evs])
        _ob(res, "C19.conv", ok, key, "Value::%s built from the argument itself" % variant, detail, site=P.loc(cands[0]["id"]))


def vname(P, v):
    t = P.types[v.ty]
    if t["k"] != "adt":
        return None
    return t["variants"][v.variant]["name"]


# =====================================================================================================================
# C19.expand
# =====================================================================================================================
def expand_rule(ctx, res):
    import shutil
    import tempfile
    thorough = ctx.tier == "thorough"
    documents = corpus.docs(3, 2, seed=ctx.seed, extra=150) if thorough else corpus.docs(2, 1, seed=ctx.seed, extra=40)
    d = tempfile.mkdtemp(prefix="jsv-corpus-")
    try:
        corpus.write_crate(d, documents)
        try:
            path, cached = extract.extract_crate(d, "jsvcorpus", "corpus")
        except extract.ExtractionError as e:
            res.violation("C19.expand", "corpus/compile", "the json! corpus no longer compiles against the tree: %s" % e, site="src/macros.rs")
            return
    finally:
        shutil.rmtree(d, ignore_errors=True)
    P = facts.Program(path)
    conv_rule(ctx, res, P)
    res.count("C19.expand corpus programs", len(documents))
    res.floor("C19.expand", "C19.expand corpus programs", 250)
    stats = {"arrays": 0, "objects": 0, "members": 0, "max_members": 0, "trailing_comma": 0, "keys:lit": 0, "keys:paren": 0, "keys:ident": 0}
    n_ok = 0
    for i, doc in enumerate(documents):
        root = "root_p%d" % i
        src = corpus.render(doc)
        key = "expand/" + src
        if root not in P.roots:
            _ob(res, "C19.expand", False, key, "program present in the dump", "missing root %s" % root)
            continue
        try:
            tree, extra = interpret(P, P.inst[P.roots[root]])
        except Undecided as e:
            _ob(res, "C19.expand", False, key, "the expansion is interpretable down to constructors", "undecided: %s" % e, site="json!(%s)" % src)
            continue
        want = expected(doc, stats)
        diff = compare(want, tree, "$")
        if diff is None and extra:
            diff = "unexpected calls in the expansion: %s" % extra[:3]
        _ob(res, "C19.expand", diff is None, key, "json!(%s) builds exactly the written document" % src, diff or "", site="src/macros.rs json!(%s)" % src)
        n_ok += diff is None
        if diff is None and i % 23 == 0:
            res.samples.append({"program": "json!(%s)" % src, "constructor_tree": repr(tree)[:300]})
    for k, v in stats.items():
        res.count("C19.expand " + k, v)
    res.count("C19.expand programs equal to their document", n_ok)
    res.programs = {"programs": len(documents), "disagreements_checked": len(documents),
                    "programs_note": "each program is one json! invocation compiled (not run) against the current tree; its expanded MIR is interpreted and the resulting constructor tree compared with the written document (one comparison per program)"}
    res.floor("C19.expand", "C19.expand arrays", 100)
    res.floor("C19.expand", "C19.expand objects", 100)
    res.floor("C19.expand", "C19.expand trailing_comma", 50)


def expected(doc, stats):
    k = doc[0]
    if k == "null":
        return ("Null",)
    if k == "bool":
        return ("Boolean", doc[1])
    if k == "int":
        return ("Number", "i32", doc[1] & 0xFFFFFFFF)
    if k == "float":
        return ("Number", "f64", corpus.float_bits(doc[1]))
    if k == "str":
        return ("String", doc[1])
    if k == "arr":
        stats["arrays"] += 1
        stats["members"] += len(doc[1])
        stats["max_members"] = max(stats["max_members"], len(doc[1]))
        stats["trailing_comma"] += 1 if (doc[2] and doc[1]) else 0
        return ("Array", [expected(x, stats) for x in doc[1]])
    if k == "obj":
        stats["objects"] += 1
        stats["members"] += len(doc[1])
        stats["max_members"] = max(stats["max_members"], len(doc[1]))
        stats["trailing_comma"] += 1 if (doc[2] and doc[1]) else 0
        for key, _ in doc[1]:
            stats["keys:" + key[0]] += 1
        return ("Object", [(corpus.key_text(key), expected(v, stats)) for key, v in doc[1]])
    raise ValueError(k)


def compare(want, got, path):
    if want[0] != got[0]:
        return "%s: expected %s, the expansion builds %s" % (path, want[0], short(got))
    if want[0] in ("Null",):
        return None
    if want[0] in ("Boolean", "String"):
        return None if want[1] == got[1] else "%s: expected %s(%r), built %s" % (path, want[0], want[1], short(got))
    if want[0] == "Number":
        return None if want[1:] == got[1:] else "%s: expected Number from %s %r, built %s" % (path, want[1], want[2], short(got))
    if want[0] == "Array":
        if len(want[1]) != len(got[1]):
            return "%s: expected %d array elements, built %d" % (path, len(want[1]), len(got[1]))
        for i, (a, b) in enumerate(zip(want[1], got[1])):
            d = compare(a, b, "%s[%d]" % (path, i))
            if d:
                return d
        return None
    if want[0] == "Object":
        if len(want[1]) != len(got[1]):
            return "%s: expected %d object members, built %d" % (path, len(want[1]), len(got[1]))
        for i, ((ka, a), (kb, b)) in enumerate(zip(want[1], got[1])):
            if ka != kb:
                return "%s: member %d has key %r, expected %r (order or key text changed)" % (path, i, kb, ka)
            d = compare(a, b, "%s.%s#%d" % (path, ka, i))
            if d:
                return d
        if got[2] != list(range(len(got[1]))):
            return "%s: from_vec indexes positions %s of %d entries" % (path, got[2], len(got[1]))
        return None
    return "%s: unknown node" % path


def short(t):
    s = repr(t)
    return s if len(s) < 120 else s[:117] + "..."


class Opq:
    """Result of an opaque third-party conversion: remembers the callee and its (resolved) argument."""

    def __init__(self, fn, arg):
        self.fn = fn
        self.arg = arg


def interpret(P, inst):
    sh = shape.Shape(P)
    it = sh.it
    it.skip_pointer_checks = True
    opaque = {}
    extra = []

    def conv(tagfn):
        def fn(it_, st, c, a):
            v = a[0]
            if isinstance(v, Ref):
                v = shape.deref(it_, st, v, 2)
            t = Top(shape.ret_ty(it_, c), "conv%d" % len(opaque))
            opaque[t.tag] = (tagfn, v)
            return t
        return fn

    sh.cut(r"^<json_number::NumberBuf<smallvec::SmallVec<\[u8; 16\]>> as std::convert::From<i32>>::from$", "num", ret=conv("num:i32"))

    def try_from_f64(it_, st, c, a):
        rt = shape.ret_ty(it_, c)
        t = Top(None, "conv%d" % len(opaque))
        opaque[t.tag] = ("num:f64", a[0])
        return Agg(rt, 0, (t,))  # finite literal: Ok (the Err path is the documented panic for NaN / infinities)

    sh.cut(r"^<json_number::NumberBuf<smallvec::SmallVec<\[u8; 16\]>> as std::convert::TryFrom<f64>>::try_from$", "num", ret=try_from_f64)
    sh.cut(r"^<smallstr::string::SmallString<\[u8; 16\]> as std::convert::From<&str>>::from$", "str", ret=conv("str"))
    index_log = []

    def index_insert(it_, st, c, a):
        index_log.append((a[1], a[2]))
        return Top(shape.ret_ty(it_, c), "index-insert")

    sh.cut(r"^json_syntax::object::index_map::IndexMap::insert$", "index_insert", ret=index_insert)
    sh.cut(r"^std::vec::Vec::<.*>::new$", "vec_new", ret=lambda it_, st, c, a: st.new_obj(AVec((), "vec")))
    sh.cut(r"^json_syntax::object::index_map::IndexMap::new$|^<json_syntax::object::index_map::IndexMap as std::default::Default>::default$", "index_new",
           ret=lambda it_, st, c, a: Top(shape.ret_ty(it_, c), "index-map"))

    # vec![a, b, c] expands to Box::new_uninit() + a write of the array through the raw pointer + box_assume_init_into_vec_unsafe
    def new_uninit(it_, st, c, a):
        bt = shape.ret_ty(it_, c)
        T = P.types
        box = T[bt]
        mu = box["targs"][0]
        md = T[mu]["variants"][0]["fields"][1]["ty"]
        mdg = T[md]["variants"][0]["fields"][0]["ty"]
        inner = Uninit()
        if T[mdg]["k"] == "adt" and T[mdg]["name"].endswith("MaybeDangling"):
            val = Agg(mu, 0, (UNIT, Agg(md, 0, (Agg(mdg, 0, (inner,)),))))
        else:
            val = Agg(mu, 0, (UNIT, Agg(md, 0, (inner,))))
        cell = st.new_obj(val)
        uq = box["variants"][0]["fields"][0]["ty"]
        nn = T[uq]["variants"][0]["fields"][0]["ty"]
        ph = T[uq]["variants"][0]["fields"][1]["ty"]
        return Agg(bt, 0, (Agg(uq, 0, (Agg(nn, 0, (Ref(("H", cell.id), ()),)), Agg(ph, 0, ()))), Agg(box["variants"][0]["fields"][1]["ty"], 0, ())))

    sh.cut(r"^std::boxed::Box::<\[.*\]>::new_uninit$", "box_new_uninit", ret=new_uninit)

    def into_vec(it_, st, c, a):
        b = a[0]
        try:
            ref = b.fields[0].fields[0].fields[0]
            v = it_.read_path(st, ref.base, ref.proj)
            arr = v.fields[1].fields[0]
            while isinstance(arr, Agg) and arr.ty is not None and P.types[arr.ty]["k"] == "adt":
                arr = arr.fields[0]
        except Exception as e:  # noqa
            raise Undecided("vec! expansion: box contents not tracked (%s)" % e)
        if not isinstance(arr, Agg):
            raise Undecided("vec! expansion: the array was not written before the conversion: %r" % (arr,))
        return st.new_obj(AVec(tuple(arr.fields), "vec"))

    sh.cut(r"^std::boxed::box_assume_init_into_vec_unsafe::<", "into_vec", ret=into_vec)
    outs = sh.run(inst, [])
    rets = [o for o in outs if o.outcome and o.outcome[0] == "return"]
    if len(rets) != 1:
        raise Undecided("%d returning paths (%s)" % (len(rets), [o.outcome[0] if o.outcome else None for o in outs][:4]))
    others = [o for o in outs if o not in rets]
    for o in others:
        # the only tolerated non-returning path is the documented unwrap of try_from(f64) — it is cut to Ok above, so none remain
        raise Undecided("a path of the expansion does not return: %s" % (o.outcome,))
    o = rets[0]
    st = o
    for e in o.events:
        if e[0] == "ext":
            extra.append(e[-1])
    if sh.unknown():
        extra.extend(sh.unknown())

    def tree(v):
        if isinstance(v, Ref):
            v = shape.deref(it, st, v, 2)
        if not isinstance(v, Agg) or P.types[v.ty]["s"] != "json_syntax::Value":
            raise Undecided("not a constructed Value: %r" % (v,))
        vn = vname(P, v)
        if vn == "Null":
            return ("Null",)
        if vn == "Boolean":
            b = v.fields[0]
            if not isinstance(b, Conc):
                raise Undecided("boolean payload %r" % (b,))
            return ("Boolean", b.v)
        if vn == "Number":
            t = v.fields[0]
            if isinstance(t, Top) and t.tag in opaque:
                fn, arg = opaque[t.tag]
                if isinstance(arg, Top) and isinstance(arg.tag, str) and arg.tag.startswith("float:0x") and fn == "num:f64":
                    return ("Number", "f64", int(arg.tag[8:], 16))
                if not isinstance(arg, Conc):
                    raise Undecided("number built from %r" % (arg,))
                return ("Number", fn.split(":")[1], arg.v & (0xFFFFFFFF if fn == "num:i32" else 0xFFFFFFFFFFFFFFFF))
            raise Undecided("number payload %r" % (t,))
        if vn == "String":
            t = v.fields[0]
            if isinstance(t, Top) and t.tag in opaque:
                fn, arg = opaque[t.tag]
                if fn == "str" and isinstance(arg, Str):
                    return ("String", arg.s)
            raise Undecided("string payload %r" % (t,))
        if vn == "Array":
            return ("Array", [tree(x) for x in vec_items(v.fields[0])])
        if vn == "Object":
            ob = v.fields[0]
            if not isinstance(ob, Agg):
                raise Undecided("object payload %r" % (ob,))
            ev = ob.fields[0]
            items = vec_items(ev)
            members = []
            for e in items:
                if not isinstance(e, Agg):
                    raise Undecided("entry %r" % (e,))
                kt = e.fields[0]
                if not (isinstance(kt, Top) and kt.tag in opaque and opaque[kt.tag][0] == "str" and isinstance(opaque[kt.tag][1], Str)):
                    raise Undecided("entry key %r" % (kt,))
                members.append((opaque[kt.tag][1].s, tree(e.fields[1])))
            idx = []
            if isinstance(ev, Obj):
                for (ents, i) in index_log:
                    tid = ents.base[1] if isinstance(ents, Ref) and ents.base[0] == "H" and not ents.proj else None
                    if tid == ev.id:
                        if not isinstance(i, Conc):
                            raise Undecided("index position %r" % (i,))
                        idx.append(i.v)
            return ("Object", members, idx)
        raise Undecided("variant %s" % vn)

    def vec_items(v):
        if isinstance(v, Obj):
            m = st.heap[v.id]
            if isinstance(m, AVec):
                return list(m.items)
        raise Undecided("vector contents not tracked: %r" % (v,))

    if not isinstance(o.outcome[1], Agg):
        raise Undecided("result %r" % (o.outcome[1],))
    return tree(o.outcome[1]), extra
