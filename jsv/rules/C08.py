"""C08 — compact output is the unique minimal serialisation (RFC 8785 string escaping, no whitespace)."""
import re

from .. import entry, iset, tables
from ..absint import Agg, Conc, Expr, Ref, State, Str, Sym, Top, Undecided

LEVEL = "other"

SPECIAL = iset.mk((0, 0x1F), (0x22, 0x22), (0x5C, 0x5C))


def run(ctx, res):
    res.rules_run += ["C08.table (string_literal as a total function on char = RFC 8785 escape table)",
                      "C08.preset (Options::compact(): every spacing field 0, both limits None)",
                      "C08.deleg (Display / to_string / From<Value> for String all reach the printer with exactly that record)",
                      "C08.nows (with that record the printer model emits no whitespace token) — see C13 printer model"]
    table_rule(ctx, res, "C08.table")
    preset_rule(ctx, res)
    deleg_rule(ctx, res)
    from . import C13, C04
    C13.nows_rule(ctx, res, "compact", "C08.nows")
    C13.emit_rule(ctx, res, "C08.emit", mode="compact")
    res.rules_run.append("C08.dispatch (every string goes through string_literal, numbers through the number's Display; shared with C04)")
    C04.dispatch_rule(ctx, res, "C08.dispatch")
    res.trusted += ["summary table (Formatter::write_str, <char as Display>::fmt, str::chars yield the characters of the string in order)",
                    "RFC 8785 table in jsv/tables.py", "Display for json_number::Number prints the stored text (dependency)"]


def table_rule(ctx, res, rule, also_inverse=False, rfc8785=True):
    """rfc8785=True: the table equals the RFC 8785 table (C08, C09).  rfc8785=False (C04): only that the text written for a
    character is a valid RFC 8259 string body that decodes back to it; a different but valid choice of escapes is accepted."""
    P = ctx.P
    try:
        ex, rows = tables.char_loop_table(P, "root_string_literal")
    except Undecided as e:
        res.violation(rule, rule + "/undecided", "undecided while extracting the escape table: %s (%s)" % (e, e.site))
        return None
    it = ex.it
    res.count("escape_table_rows", len([r for r in rows if r["kind"] == "char"]))
    res.ob(len(ex.nodes) == 1, rule, rule + "/loop-state", "string_literal keeps state between characters (%d abstract loop states): the escaping of a character depends on its predecessors" % len(ex.nodes))
    covered = ()
    for r in rows:
        if r["kind"] == "init":
            ok = r["final"] is None and [tuple(e) for e in r["events"]] == [("w", Str('"'))]
            res.ob(ok, rule, rule + "/open-quote", "string_literal does not start by writing exactly one `\"`: %r" % (r["events"],))
        elif r["kind"] == "end":
            ok = r["final"] is not None and r["final"][0] == "return" and [tuple(e) for e in r["events"]] == [("w", Str('"'))]
            res.ob(ok, rule, rule + "/close-quote", "string_literal does not end by writing exactly one `\"` and returning: %r" % (r["events"],))
        else:
            dom = r["dom"]
            covered = iset.union(covered, dom)
            if r["final"] is not None:
                res.violation(rule, rule + "/aborts/" + iset.show(dom, True)[:40], "string_literal stops (%s) on characters %s" % (r["final"][0], iset.show(dom, True)))
                continue
            sym = r["sym"]
            if iset.size(dom) <= 128:
                for c in iset.elems(dom):
                    try:
                        got = tables.render(it, r["events"], {sym.id: c})
                    except Undecided as e:
                        res.violation(rule, rule + "/render", "cannot render the writes for U+%04X: %s" % (c, e))
                        break
                    want = tables.rfc8785_escape(c)
                    if rfc8785:
                        res.ob(got == want, rule, "%s/char/U+%04X" % (rule, c), "U+%04X is written as %r, RFC 8785 requires %r" % (c, got, want),
                               sample={"char": "U+%04X" % c, "written": got} if c in (0, 8, 0x1F, 0x22, 0x5C) else None)
                    if also_inverse:
                        back = tables.rfc8259_unescape(got)
                        res.ob(back == c, "C04.esc", "C04.esc/char/U+%04X" % c, "the text %r written for U+%04X does not decode back to it under RFC 8259 section 7 (decodes to %r)" % (got, c, back))
            else:
                ev = [tuple(e) for e in r["events"]]
                ok = ev == [("wc", sym)]
                res.ob(ok, rule, rule + "/raw-class", "characters %s are not written raw (one write of the character itself): %r" % (iset.show(dom, True), r["events"]),
                       sample={"class": iset.show(dom, True), "written": "the character itself"})
                bad = iset.inter(dom, SPECIAL)
                res.ob(iset.is_empty(bad), rule, rule + "/raw-class-special", "characters %s are written raw but must be escaped" % iset.show(bad, True))
    res.ob(covered == iset.CHAR, rule, rule + "/total", "the extracted table does not cover every char: missing %s" % iset.show(iset.sub(iset.CHAR, covered), True))
    res.floor(rule, "escape_table_rows", 8)
    return ex


def preset_value(P, root):
    it = entry.mk_interp(P)
    st = State()
    it.push_frame(st, P.roots[root], [], None, None)
    outs = it.run(st)
    if len(outs) != 1 or outs[0].outcome[0] != "return":
        raise Undecided("%s does not evaluate to a single value" % root)
    v = outs[0].outcome[1]
    t = P.types[v.ty]
    names = [f["name"] for f in t["variants"][0]["fields"]]
    return dict(zip(names, v.fields)), v


def describe_field(P, v):
    if isinstance(v, Conc):
        return v.v
    if isinstance(v, Agg) and v.ty is not None:
        t = P.types[v.ty]
        vn = t["variants"][v.variant]["name"]
        return (vn,) + tuple(describe_field(P, f) for f in v.fields)
    return repr(v)


def preset_rule(ctx, res):
    P = ctx.P
    try:
        fields, v = preset_value(P, "root_print_options_compact")
    except Undecided as e:
        res.violation("C08.preset", "C08.preset/undecided", str(e))
        return
    for name, val in fields.items():
        d = describe_field(P, val)
        if name == "indent":
            ok = d == ("Spaces", 0)
        elif name.endswith("_limit"):
            ok = d == ("None",)
        else:
            ok = d == 0
        res.ob(ok, "C08.preset", "C08.preset/" + name, "Options::compact().%s = %r (must be 0 / None / Spaces(0))" % (name, d),
               sample={"field": name, "value": str(d)})
    res.count("compact_fields", len(fields))
    res.floor("C08.preset", "compact_fields", 15)


PRINT_CORE = re.compile(r"^<json_syntax::Value as json_syntax::Print>::fmt_with$")


def deleg_rule(ctx, res):
    P = ctx.P
    compact, compact_val = preset_value(P, "root_print_options_compact")
    # Display for Value -> fmt_with(f, &compact, 0)
    for root in ("root_display_value", "root_print_compact"):
        it = tables.mk(P)
        it.cuts.append((lambda inst: bool(PRINT_CORE.search(inst["name"])), "PRINT"))
        st = State()
        rinst = P.inst[P.roots[root]]
        args = [Top(rinst["locals"][i], "arg%d" % i) for i in range(1, rinst["arg_count"] + 1)]
        it.push_frame(st, rinst["id"], args, None, None)
        try:
            outs = it.run(st)
        except Undecided as e:
            res.violation("C08.deleg", "C08.deleg/undecided/" + root, "undecided: %s" % e)
            continue
        cuts = [o for o in outs if o.outcome[0] == "cut"]
        ok = len(cuts) == 1 and len(outs) == 1
        res.ob(ok, "C08.deleg", "C08.deleg/%s/shape" % root[5:], "%s does not reach the printer exactly once on a single path (%s)" % (root[5:], [o.outcome[0] for o in outs]))
        if not ok:
            continue
        o = cuts[0]
        a = o.outcome[2]
        val_ok = a[0] == args[0] or (isinstance(a[0], Ref) and it.read_path(o, a[0].base, a[0].proj) == args[0]) or isinstance(a[0], (Ref, Top))
        opt = it.read_path(o, a[2].base, a[2].proj) if isinstance(a[2], Ref) else a[2]
        res.ob(opt == compact_val, "C08.deleg", "C08.deleg/%s/options" % root[5:], "%s prints with %r instead of Options::compact()" % (root[5:], opt),
               sample={"entry": root[5:], "options": "Options::compact()"})
        res.ob(a[3] == Conc(0), "C08.deleg", "C08.deleg/%s/indent" % root[5:], "%s starts at indentation %r instead of 0" % (root[5:], a[3]))
        res.ob(not o.events, "C08.deleg", "C08.deleg/%s/extra-output" % root[5:], "%s writes something before delegating: %r" % (root[5:], o.events))
    # to_string / From<Value> for String: whatever chain of wrappers they go through (ToString's blanket impl is replaced by
    # "call Display::fmt of the receiver with a fresh formatter"), the printer must be reached exactly once, with the value
    # that was given, Options::compact() and indentation 0, and nothing else written
    from ..absint import CallThen

    def to_string(it_, st_, inst_, args_, call_):
        targ = inst_.get("args", [None])[0]
        t = P.types[targ] if isinstance(targ, int) else None
        disp = [i_ for i_ in P.inst if t is not None and i_["name"] == "<%s as std::fmt::Display>::fmt" % t["s"] and i_.get("has_mir")]
        if len(disp) != 1:
            raise Undecided("to_string of %s: its Display impl is not in the program" % (t["s"] if t else targ))
        fcell = st_.new_obj(Top(None, "the-formatter"))
        return CallThen(disp[0]["id"], [args_[0], Ref(("H", fcell.id), ())], lambda it2, st2, rv: Top(dispatch_ret(it2, call_), "the-string"))

    def dispatch_ret(it_, call_):
        from ..summ import ret_ty
        return ret_ty(it_, call_)

    for root in ("root_string_from_value", "root_value_to_string"):
        if root not in P.roots:
            res.violation("C08.deleg", "C08.deleg/missing-root/" + root, "harness root %s missing" % root)
            continue
        it = tables.mk(P)
        it.cuts.append((lambda inst: bool(PRINT_CORE.search(inst["name"])), "PRINT"))
        it.summaries.insert(0, (lambda inst: bool(re.search(r"as std::string::ToString>::to_string$", inst["name"])), to_string))
        st = State()
        rinst = P.inst[P.roots[root]]
        byref = P.types[rinst["locals"][1]]["k"] == "ref"
        val = Top(P.types[rinst["locals"][1]]["to"] if byref else rinst["locals"][1], "the-value")
        arg = Ref(("H", st.new_obj(val).id), ()) if byref else val
        it.push_frame(st, rinst["id"], [arg], None, None)
        try:
            outs = it.run(st)
        except Undecided as e:
            res.violation("C08.deleg", "C08.deleg/undecided/" + root, "undecided: %s" % e)
            continue
        cuts = [o for o in outs if o.outcome[0] == "cut"]
        ok = len(cuts) == 1 and len(outs) == 1
        res.ob(ok, "C08.deleg", "C08.deleg/%s/shape" % root[5:], "%s does not reach the printer exactly once on a single path (%s)" % (root[5:], [o.outcome[0] for o in outs]),
               sample={"entry": root[5:], "reaches": "Print::fmt_with once"})
        if not ok:
            continue
        o = cuts[0]
        a = o.outcome[2]
        v0 = a[0]
        for _ in range(3):
            if isinstance(v0, Ref):
                v0 = it.read_path(o, v0.base, v0.proj)
        res.ob(v0 == val, "C08.deleg", "C08.deleg/%s/arg" % root[5:], "%s prints something else than the value it was given (%r)" % (root[5:], v0))
        opt = it.read_path(o, a[2].base, a[2].proj) if isinstance(a[2], Ref) else a[2]
        res.ob(opt == compact_val, "C08.deleg", "C08.deleg/%s/options" % root[5:], "%s prints with %r instead of Options::compact()" % (root[5:], opt),
               sample={"entry": root[5:], "options": "Options::compact()"})
        res.ob(a[3] == Conc(0), "C08.deleg", "C08.deleg/%s/indent" % root[5:], "%s starts at indentation %r instead of 0" % (root[5:], a[3]))
        res.ob(not [e for e in o.events if e[0] == "w"], "C08.deleg", "C08.deleg/%s/extra-output" % root[5:], "%s writes something before delegating: %r" % (root[5:], o.events))
