"""C05 — code map: one exact span and volume per fragment, pre-order."""
from .. import parsercheck, static
from . import C01

LEVEL = "model_checking"


def run(ctx, res):
    res.rules_run += ["C05.ts/C05.span/C05.vol (fragment events of P = fragment events of R: every reserved entry closed once, exact begin/end offsets, volume = count_now - index)",
                      "C05.pos (Parser.position has one writer, adding the consumed character's len)",
                      "C05.append (CodeMap entries are only appended by reserve and only completed through get_mut in end_fragment)"]
    # the code map is produced under every option valuation (the lenient flags only change how surrogate escapes decode)
    prod = parsercheck.apply(ctx, res, ["C05.", "E2."], strict_only=False)
    for run in prod["runs"][:1]:
        res.ob(run.get("initial_position_ok", False), "C05.pos", "C05.pos/initial", "a fresh parser does not start at position 0")
    position_writers(ctx, res)
    codemap_writers(ctx, res)
    # spans are byte offsets: every entry point feeds the core characters whose recorded length is their
    # UTF-8 length (C01.entry, shared rule)
    res.rules_run.append("C05.entry (every entry point starts the parser at offset 0, its adaptors record len_utf8 for every character, and the code map returned is the parser's)")
    C01.entry_rule(ctx, res, rule="C05.entry", skip_roots=("root_from_str",))  # FromStr returns no code map
    # "in pre-order, i.e. the order in which traversal yields them": the traversal side of that clause
    from . import C11
    res.rules_run.append("C05.traverse (Value::traverse numbers from 0, pops one fragment and pushes its sub-fragments reversed; the sub-fragments of an entry are key then value, forwards, and value then key backwards: the traversal is the pre-order in which the parser reserves the entries)")
    C11.traverse_rule(ctx, res, rule="C05.traverse")


def position_writers(ctx, res):
    """Every write to Parser.position in the parsing program is `position += <DecodedChar>.len()` in
    the consuming primitive (the product additionally checks the operand is the consumed character)."""
    P = ctx.P
    root = P.roots["root_parse_model"]
    writers = []
    for iid in P.reachable([root]):
        inst = P.inst[iid]
        for bi, acc, fname, last in static.field_accesses(P, inst, "json_syntax::parse::Parser"):
            if fname == "position" and last and acc in ("write", "refmut"):
                writers.append((inst["name"], bi, iid))
    names = sorted(set(w[0] for w in writers))
    res.count("position_writer_sites", len(writers))
    for n in names:
        allowed = n.endswith("::new") or n.endswith("::new_with") or "::next_char" in n
        res.ob(allowed, "C05.pos", "C05.pos/writer/" + n, "Parser.position is written outside the consuming primitive: %s" % n,
               sample={"position_writer": n})
    res.floor("C05.pos", "position_writer_sites", 1)


def codemap_writers(ctx, res):
    """CodeMap.0 is mutated only by `reserve` (push) and `get_mut`; volume/span fields of an entry
    are written only in Parser::end_fragment / Span::set_end."""
    P = ctx.P
    root = P.roots["root_parse_model"]
    for iid in P.reachable([root]):
        inst = P.inst[iid]
        if inst["crate"] != "json_syntax":
            continue
        for bi, acc, fname, last in static.field_accesses(P, inst, "json_syntax::code_map::Entry"):
            if acc in ("write", "refmut"):
                ok = inst["name"].endswith("::end_fragment") or inst["name"].endswith("CodeMap::reserve")
                res.ob(ok, "C05.append", "C05.append/entry-writer/" + inst["name"],
                       "a code-map entry field (%s) is written outside end_fragment/reserve: %s" % (fname, inst["name"]),
                       sample={"entry_field_writer": inst["name"], "field": fname})
        for bi, acc, fname, last in static.field_accesses(P, inst, "json_syntax::CodeMap"):
            if acc in ("write", "refmut", "move"):
                ok = any(inst["name"].endswith(s) for s in ("CodeMap::reserve", "CodeMap::get_mut", "::into_iter", "as std::default::Default>::default"))
                res.ob(ok, "C05.append", "C05.append/codemap-writer/" + inst["name"],
                       "the code map's entry list is borrowed mutably outside reserve/get_mut: %s" % inst["name"],
                       sample={"codemap_mut_access": inst["name"]})
