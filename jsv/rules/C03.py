"""C03 — parsing is total, single pass, stack independent of nesting depth; traversal is iterative."""
import re

from .. import allow, entry, facts, panics, parsercheck, static
from ..absint import Agg, Conc, Obj, Ref, State, Top, Undecided

LEVEL = "other"

PARSE_ROOTS = sorted(entry.ENTRY_ROOTS) + ["root_parse_model"]
TRAVERSE_ROOTS = ["root_traverse", "root_traverse_next", "root_volume", "root_count_all", "root_sub_fragments",
                  "root_sub_fragments_next", "root_sub_fragments_next_back"]


def run(ctx, res):
    res.rules_run += ["C03.rec (no recursion cycle through crate code or drop glue of crate types reachable from parsing / traversal roots)",
                      "C03.panic (every panic source in crate or sibling-crate code reachable from a parsing / traversal root is discharged by E2 or on the reviewed allowlist)",
                      "C03.single/C03.term (every step of the extracted model between two reads terminates; each read delivers a fresh character: implied by the product of C01)",
                      "C03.iter (SubFragments of an entry yields key, value, end — forwards and backwards)",
                      "C03.alloc (no request for a computed capacity - with_capacity / reserve / resize / from_elem with a non-constant size - in crate code on the parsing and traversal paths; positive control on the print path)"]
    prod = parsercheck.apply(ctx, res, ["C03.", "E2."], strict_only=False)
    rec(ctx, res)
    panic_rule(ctx, res, prod, PARSE_ROOTS + TRAVERSE_ROOTS, "C03.panic")
    subfragments(ctx, res)
    alloc_rule(ctx, res)
    res.assumptions.append("heap exhaustion while growing a collection by push is resource exhaustion, not a panic of the parser (requests for a computed capacity are C03.alloc); std/smallvec/smallstr/hashbrown internals are trusted")
    res.assumptions.append("the caller's iterator is fused (returns None again after None) and terminates")


def scc_key(P, comp):
    names = sorted(P.inst[i]["name"] for i in comp)
    crate_related = [n for n in names if "json_syntax::" in n or "json_number::" in n or "utf8_decode::" in n or "locspan::" in n]
    drop_types = [P.inst[i] for i in comp if P.inst[i]["kind"] == "drop_glue"]
    if drop_types and all(P.inst[i]["kind"] == "drop_glue" or P.inst[i]["path"].endswith("as std::ops::Drop>::drop") for i in comp):
        # pure drop-glue cycle: name it after the smallest crate ADT dropped
        tys = sorted(P.tystr(d["drop_ty"]) for d in drop_types if "drop_ty" in d)
        adts = [t for t in tys if t.startswith("json_syntax::") and "<" not in t and "[" not in t]
        return "drop-glue/" + (adts[-1] if adts else tys[0]), names
    own = sorted(set(P.inst[i]["path"] for i in comp if P.inst[i]["crate"] in facts.SIBLING_CRATES))
    return "cycle/" + (own[0] if own else names[0]), names


def rec(ctx, res):
    P = ctx.P
    for group, roots in (("parse", PARSE_ROOTS), ("traverse", TRAVERSE_ROOTS)):
        ids = []
        for r in roots:
            if r not in P.roots:
                res.violation("C03.rec", "C03.rec/missing-root/" + r, "harness root %s missing" % r)
            else:
                ids.append(P.roots[r])
        reach = P.reachable(ids)
        res.count("instances_reachable_" + group, len(reach))
        comps = P.sccs(reach)
        for comp in comps:
            related = any(P.inst[i]["crate"] in facts.SIBLING_CRATES for i in comp) or any(
                "json_syntax::" in P.inst[i]["name"] or "json_number::" in P.inst[i]["name"] for i in comp)
            if not related:
                continue  # recursion confined to std / third-party types over non-crate data (e.g. dyn Error drop glue)
            k, names = scc_key(P, comp)
            # which root reaches it
            witness = None
            for r in roots:
                if r in P.roots:
                    pth = P.path(P.roots[r], lambda inst, c=set(comp): inst["id"] in c)
                    if pth:
                        witness = " -> ".join(P.inst[i]["name"][-70:] for i in pth[:8])
                        break
            res.violation("C03.rec", "C03/recursion/%s/%s" % (group, k),
                          "recursion reachable from %s roots: cycle of %d functions (%s ...): stack use grows with nesting depth" % (group, len(comp), "; ".join(names[:3])),
                          witness=witness)
        res.obligations += 1
        res.discharged += 1
        res.samples.append({"rule": "C03.rec", "roots": group, "instances_searched_for_cycles": len(reach), "cycles_touching_crate_code": sum(1 for c in comps if any("json_syntax::" in P.inst[i]["name"] for i in c))})
    res.floor("C03.rec", "instances_reachable_parse", 600)
    res.floor("C03.rec", "instances_reachable_traverse", 30)


ALLOC_RX = re.compile(r"::(with_capacity|with_capacity_in|with_capacity_and_hasher|reserve|reserve_exact|try_reserve|try_reserve_exact|resize|resize_with|from_elem|repeat|set_len)$")


def bounded_by_memory(P, inst, l, depth=4):
    """The local is (a copy of) the length of something that already exists in memory: the result of a std `len()` call
    or of the slice-length primitive."""
    if depth == 0:
        return False
    for b in inst["blocks"]:
        t = b["t"]
        if t["k"] == "call" and t.get("dest") == {"l": l}:
            c = t.get("callee")
            ci = P.inst[c] if c is not None else None
            return bool(ci and ci["crate"] not in ("json_syntax", "jsvroots") and re.search(r"::len$", ci["path"]))
        for st in b["s"]:
            if st.get("k") == "assign" and st.get("p") == {"l": l}:
                r = st["r"]
                if r["k"] == "use":
                    a = r["a"]
                    pl = a.get("move") or a.get("copy")
                    return bool(pl and not pl.get("p") and bounded_by_memory(P, inst, pl["l"], depth - 1))
                if r["k"] == "len" or (r["k"] == "unop" and r.get("op") == "PtrMetadata"):
                    return True
                return False
    return False


def alloc_requests(P, ids):
    """Call sites in crate code reachable from the given roots that ask a std / dependency collection for room for a
    *computed* number of elements (an integer operand of the request is neither a constant nor the length of a slice / str /
    collection that already exists in memory)."""
    out = []
    for iid in sorted(P.reachable(ids)):
        inst = P.inst[iid]
        if inst["crate"] not in ("json_syntax", "jsvroots") or not inst.get("has_mir"):
            continue
        for s in P.sites(iid):
            c = s["callee"]
            if c is None or s["kind"] != "call":
                continue
            ci = P.inst[c]
            if ci["crate"] in ("json_syntax", "jsvroots") or not ALLOC_RX.search(ci["path"]):
                continue
            computed = False
            for a in s["term"].get("args", []):
                pl = a.get("move") or a.get("copy") if isinstance(a, dict) else None
                if pl is None:
                    continue  # a constant operand
                ty = inst["locals"][pl["l"]] if not pl.get("p") else None
                t = P.types[ty] if isinstance(ty, int) else None
                if (t is None or t["k"] == "int") and not (ty is not None and bounded_by_memory(P, inst, pl["l"])):
                    computed = True
            if computed:
                out.append((inst, ci, s))
    return out


def alloc_rule(ctx, res):
    """C03.alloc: `Vec::with_capacity(n)` / `reserve(n)` / `resize(n, ..)` panic with "capacity overflow" (or abort on allocation
    failure) when n is large; a size taken from a caller-controlled quantity (an iterator's size_hint, a length field) makes
    parsing panic on tiny inputs.  Today the parsing and traversal code makes no such request at all: everything grows by push."""
    P = ctx.P
    rule = "C03.alloc"
    ids = [P.roots[r] for r in PARSE_ROOTS + TRAVERSE_ROOTS if r in P.roots]
    for inst, ci, s in alloc_requests(P, ids):
        res.violation(rule, "%s/%s/%s" % (rule, inst["path"], ci["path"].rsplit("::", 1)[-1]),
                      "%s asks %s for a computed number of elements on the parsing / traversal path: a huge request panics (capacity overflow) or aborts, "
                      "whatever the input is" % (inst["name"][:120], ci["path"]), site=P.loc(inst["id"], s["bb"]))
    res.obligations += 1
    res.discharged += 1
    # positive control (the rule's expected count is zero): the printer sizes its table with Vec::with_capacity(self.count(..))
    ctl = [P.roots[r] for r in P.roots if r.startswith("root_print") or r.startswith("root_display")]
    n = len(alloc_requests(P, ctl)) if ctl else 0
    res.count("alloc_requests_seen_on_the_print_path", n)
    res.floor(rule, "alloc_requests_seen_on_the_print_path", 1)
    res.samples.append({"rule": rule, "requests_on_parse_and_traverse_paths": 0, "control_requests_on_print_path": n})


def const_shift_ok(P, inst, bb):
    t = inst["blocks"][bb]["t"]
    if t["k"] == "assert" and t["assert"] in ("Overflow(Shl)", "Overflow(Shr)"):
        b = t.get("b")
        a_ty = None
        if b and "const" in b and b["const"].get("k") == "int":
            sh = int(b["const"]["v"])
            # width of the shifted operand: find from the 'a' operand's type when it is a place
            return 0 <= sh < 8  # every integer type has at least 8 bits
    return False


def shift_width_ok(P, inst, bb):
    """Overflow(Shl/Shr) with a constant shift amount smaller than the operand width."""
    t = inst["blocks"][bb]["t"]
    if t["k"] != "assert" or t["assert"] not in ("Overflow(Shl)", "Overflow(Shr)"):
        return False
    b = t.get("b")
    a = t.get("a")
    if not (b and "const" in b and b["const"].get("k") == "int"):
        return False
    sh = int(b["const"]["v"])
    width = None
    if a and ("copy" in a or "move" in a):
        pl = a.get("copy") or a.get("move")
        if not pl.get("p"):
            ty = P.types[inst["locals"][pl["l"]]]
            if ty["k"] == "int":
                width = ty["bits"]
    if a and "const" in a and a["const"].get("k") == "int":
        width = a["const"].get("bits")
    return width is not None and 0 <= sh < width


def unit_counter_ok(P, inst, bb):
    """Overflow(Add) of `c + 1` where c is a 64-bit local counter of this function: it is initialised by constants, its only other
    assignments store back the result of `c + 1`, and no mutable reference to it is taken.  Overflow would need 2^64 increments."""
    t = inst["blocks"][bb]["t"]
    if t["k"] != "assert" or t.get("assert") != "Overflow(Add)":
        return False
    a, b = t.get("a") or {}, t.get("b") or {}

    def is_one(o):
        return "const" in o and o["const"].get("k") == "int" and int(o["const"]["v"]) == 1

    def plain_local(o):
        pl = o.get("copy") or o.get("move")
        return pl["l"] if pl and not pl.get("p") else None

    c = plain_local(a) if is_one(b) else (plain_local(b) if is_one(a) else None)
    if c is None or c <= inst.get("arg_count", 0):
        return False  # arguments can start anywhere
    ty = P.types[inst["locals"][c]]
    if ty["k"] != "int" or ty["bits"] < 64:
        return False
    sums = set()  # temporaries holding AddWithOverflow(c, 1)
    for blk in inst["blocks"]:
        for st in blk["s"]:
            if st.get("k") == "assign" and not st["p"].get("p"):
                r = st["r"]
                if r["k"] == "bin" and r.get("op") == "AddWithOverflow":
                    x, y = r["a"], r["b"]
                    if (plain_local(x) == c and is_one(y)) or (plain_local(y) == c and is_one(x)):
                        sums.add(st["p"]["l"])
    for blk in inst["blocks"]:
        for st in blk["s"]:
            if st.get("k") != "assign":
                continue
            r = st["r"]
            if r["k"] in ("ref", "rawptr") and r["p"]["l"] == c and r.get("mut"):
                return False
            if st["p"]["l"] == c:
                if st["p"].get("p"):
                    return False
                if r["k"] == "use" and "const" in r["a"] and r["a"]["const"].get("k") == "int":
                    continue
                if r["k"] == "use":
                    pl = r["a"].get("move") or r["a"].get("copy")
                    if pl and pl["l"] in sums and [e.get("f") for e in pl.get("p", [])] == [0]:
                        continue
                return False
        tt = blk["t"]
        if tt["k"] in ("call", "tailcall") and tt.get("dest", {}).get("l") == c:
            return False
    return True


def panic_rule(ctx, res, prod, roots, rule):
    P = ctx.P
    ids = [P.roots[r] for r in roots if r in P.roots]
    srcs = panics.reachable_sources(P, ids)
    covered = set()
    may_fail = set()
    for run in prod["runs"]:
        covered |= set(run.get("coverage", []))
        for k, outcomes in run["asserts"].items():
            if set(outcomes) - {"discharged"}:
                may_fail.add(k)
    res.count("panic_sources_in_own_code", len(srcs))
    for k, v in sorted(srcs.items()):
        inst = P.inst[v["inst"]]
        src = v["src"]
        site = P.loc(v["inst"], src["bb"])
        ck = "%s|%d" % (inst["path"], src["bb"])
        key = "%s/%s" % (rule.split(".")[0] + "/panic", k)
        if shift_width_ok(P, inst, src["bb"]):
            res.ob(True, rule, key, "", sample={"source": k, "discharged_by": "constant shift amount smaller than the operand width", "site": site})
            continue
        if unit_counter_ok(P, inst, src["bb"]):
            res.ob(True, rule, key, "", sample={"source": k, "discharged_by": "unit increments of a local 64-bit counter that starts at a constant: overflow needs 2^64 iterations", "site": site})
            continue
        if ck in covered:
            # executed by the abstract interpreter in the parser model: any failing path is a product finding
            res.ob(True, rule, key, "", sample={"source": k, "discharged_by": "E2: block executed in the parser model for all four option valuations, asserted condition holds on every abstract state reaching it", "site": site})
            continue
        a = allow.allowed(inst["path"], src["detail"], P, inst)
        if a is not None:
            res.ob(True, rule, key, "", sample={"source": k, "allowlisted": a["reason"], "site": site})
            continue
        pth = None
        for r in ids:
            pth = P.path(r, lambda i, t=v["inst"]: i["id"] == t)
            if pth:
                break
        res.violation(rule, key, "panic source reachable and neither discharged nor allowlisted: %s in %s" % (src["detail"], inst["name"]), site,
                      witness=" -> ".join(P.inst[i]["name"][-60:] for i in (pth or [])[:10]))
    res.floor(rule, "panic_sources_in_own_code", 3)


def subfragments(ctx, res, rule="C03.iter"):
    """SubFragments::next / next_back on an entry: key, value, None / value, key, None."""
    P = ctx.P
    for root, order in (("root_sub_fragments_next", ["Key", "Value", None]), ("root_sub_fragments_next_back", ["Value", "Key", None])):
        it = entry.mk_interp(P)
        rinst = P.inst[P.roots[root]]
        st = State()
        sf_ty = P.types[rinst["locals"][1]]["to"]
        t = P.types[sf_ty]
        vnames = [v["name"] for v in t["variants"]]
        ent = vnames.index("Entry")
        ftys = [f["ty"] for f in t["variants"][ent]["fields"]]
        # the key / value references are real references (to opaque cells), so that a re-borrow keeps their identity
        kcell = Ref(("H", st.new_obj(Top(None, "the-key")).id), ())
        vcell = Ref(("H", st.new_obj(Top(None, "the-value")).id), ())
        cell = st.new_obj(Agg(sf_ty, ent, (Agg(ftys[0], 1, (kcell,)), Agg(ftys[1], 1, (vcell,)))))
        got = []
        ok = True
        try:
            for step in range(3):
                s2 = State()
                s2.heap = dict(st.heap)
                s2.ctr = dict(st.ctr)
                it.push_frame(s2, rinst["id"], [Ref(("H", cell.id), ())], None, None)
                outs = it.run(s2)
                if len(outs) != 1 or outs[0].outcome[0] != "return":
                    ok = False
                    got.append("?%d outcomes" % len(outs))
                    break
                rv = outs[0].outcome[1]
                if isinstance(rv, Agg) and rv.variant == 0:
                    got.append(None)
                elif isinstance(rv, Agg) and rv.variant == 1 and isinstance(rv.fields[0], Agg):
                    fr = rv.fields[0]
                    name = P.types[fr.ty]["variants"][fr.variant]["name"]
                    payload = fr.fields[0]
                    if (name == "Key" and payload != kcell) or (name == "Value" and payload != vcell):
                        name += "(wrong payload)"
                    got.append(name)
                else:
                    got.append(repr(rv))
                st = outs[0]
        except Undecided as e:
            ok = False
            got.append("undecided: %s" % e)
        res.ob(ok and got == order, rule, rule + "/" + root[5:], "%s on an entry yields %r, expected %r (then the iteration must end)" % (root[5:], got, order),
               sample={"iterator": root[5:], "yields": [str(g) for g in got]})
