"""C15 — unordered equality = equality up to permutation of object entries (necessary structural
clauses only; the one-to-one matching of duplicate keys is not decided, see DESIGN.md)."""
import re

from .. import iset, shape, static
from ..absint import Agg, Conc, Ref, Sym, Top, Undecided
from ..summ import AVec

LEVEL = "other"


def run(ctx, res):
    res.rules_run += ["C15.dispatch (Value::unordered_eq pairs equal variants only: scalars with ==, arrays and objects with their unordered_eq, mixed variants false)",
                      "C15.vec (Vec::unordered_eq requires equal lengths and compares elements with unordered_eq)",
                      "C15.redundant (Indexes::is_redundant <=> more than one position)",
                      "C15.wrapper (Unordered<T>: PartialEq delegates to unordered_eq)"]
    dispatch_rule(ctx, res)
    vec_rule(ctx, res)
    redundant_rule(ctx, res)
    match_rule(ctx, res)
    # unordered_eq finds candidate entries through the key index: C15.match assumes a well-formed index, which is what the
    # index-maintenance rules of C06 establish (a stale index makes objects unequal to themselves)
    from . import C06
    res.rules_run.append("C15.index = C06.model restricted to index exactness + C06.shift + C06.sorted (every operation leaves the key index exact; unordered_eq looks entries up through it)")
    C06.model_rule(ctx, res, only_index=True, rule="C15.index")
    C06.shift(ctx, res)
    C06.sorted_rule(ctx, res)
    res.notes.append("C15.match replaces the structural rule C15.object of earlier revisions (two containment passes, duplicate guard): the procedure is now interpreted on every small configuration, which is both stronger and independent of how the matching is written")


def dispatch_rule(ctx, res):
    P = ctx.P
    rule = "C15.dispatch"
    try:
        inst = shape.find_inst(P, r"^<json_syntax::Value as json_syntax::UnorderedPartialEq>::unordered_eq$")
    except Undecided as e:
        res.violation(rule, rule + "/missing", str(e))
        return
    vt = [t for t in P.types if t.get("name") == "json_syntax::Value" and t["k"] == "adt"][0]
    names = [v["name"] for v in vt["variants"]]
    for i, a in enumerate(names):
        for j, b in enumerate(names):
            sh = shape.Shape(P)
            # the three delegated comparisons answer with a fresh symbolic boolean, so that code which branches on the
            # answer (`if a == b { true } else { false }`, `matches!`) forks instead of being undecided
            def answer(it_, st_, c_, a_):
                return st_.fresh_sym(iset.BOOL, kind="answer")
            sh.cut(r"^<std::vec::Vec<json_syntax::Value> as json_syntax::UnorderedPartialEq>::unordered_eq$", "vec_ueq", ret=answer)
            sh.cut(r"^<json_syntax::Object as json_syntax::UnorderedPartialEq>::unordered_eq$", "obj_ueq", ret=answer)
            sh.cut(r"as std::cmp::PartialEq.*>::eq$|^(std|alloc)::vec::partial_eq::<impl .*>::eq$|^(std|core)::slice::cmp::<impl .*PartialEq.*>::eq$", "eq", ret=answer)
            pa = [sh.sym(iset.BOOL, kind="a") if P.types[f["ty"]]["k"] == "bool" else Top(f["ty"], "a") for f in vt["variants"][i]["fields"]]
            pb = [sh.sym(iset.BOOL, kind="b") if P.types[f["ty"]]["k"] == "bool" else Top(f["ty"], "b") for f in vt["variants"][j]["fields"]]
            ra, rb = sh.cell(Agg(vt["id"], i, pa)), sh.cell(Agg(vt["id"], j, pb))
            key = "%s/%s-%s" % (rule, a, b)
            try:
                outs = sh.run(inst, [ra, rb])
            except Undecided as e:
                res.violation(rule, key + "/undecided", "deviates from the reviewed dispatch; while interpreting: %s" % e)
                continue
            res.count("variant_pairs")
            if not outs or any(o.outcome[0] != "return" for o in outs):
                res.violation(rule, key + "/paths", "unordered_eq(%s, %s): %s" % (a, b, [o.outcome[0] for o in outs]))
                continue

            def verdict(o):
                """('const', 0|1) | ('answer-of', tag, args) | ('bool-eq',) | ('other', repr): what this path returns, where a
                returned constant that the path condition ties to the delegated answer counts as that answer."""
                rv = o.outcome[1]
                ev = shape.events(o)
                if len(ev) > 1:
                    return ("other", "several comparisons: %r" % [e[0] for e in ev])
                if ev:
                    e = ev[0]
                    # the symbol the cut returned is the one fresh 'answer' symbol of this path
                    ans = [sid for sid, info in o.syminfo.items() if info.get("kind") == "answer"]
                    if len(ans) != 1:
                        return ("other", "answer symbol lost")
                    sid = ans[0]
                    dom = o.cons.get(sid)
                    if isinstance(rv, Sym) and rv.id == sid:
                        return ("answer-of", e[0], e[2])
                    if isinstance(rv, Conc) and dom is not None and iset.size(dom) == 1 and iset.lo(dom) == rv.v:
                        return ("answer-of", e[0], e[2])
                    return ("other", "returns %r after %s" % (rv, e[0]))
                if isinstance(rv, Conc):
                    return ("const", rv.v)
                return ("expr", rv)

            vs = [verdict(o) for o in outs]
            if i != j:
                ok = all(v == ("const", 0) for v in vs)
                why = "values of different kinds must be unequal"
            elif a == "Null":
                ok = all(v == ("const", 1) for v in vs)
                why = "null ~ null"
            elif a == "Boolean":
                # primitive comparison of the two payloads: decided by evaluating the paths over the four assignments
                ok = True
                for va in (0, 1):
                    for vb in (0, 1):
                        hits = []
                        for o in outs:
                            da, db = o.cons.get(pa[0].id, iset.BOOL), o.cons.get(pb[0].id, iset.BOOL)
                            if not (iset.contains(da, va) and iset.contains(db, vb)):
                                continue
                            try:
                                if not all(sh.it.eval_expr(p_, {pa[0].id: va, pb[0].id: vb}) == t_ for p_, t_ in o.preds):
                                    continue
                                rv = o.outcome[1]
                                r_ = rv.v if isinstance(rv, Conc) else sh.it.eval_expr(rv, {pa[0].id: va, pb[0].id: vb})
                            except Exception:  # noqa
                                ok = False
                                continue
                            hits.append(r_)
                        ok = ok and hits == [int(va == vb)]
                why = "booleans are compared with =="
            elif a in ("Number", "String"):
                ok = all(v[0] == "answer-of" and v[1] == "eq" and tuple(v[2]) == (pa[0], pb[0]) for v in vs) and len(set(v[0] for v in vs)) == 1
                why = "scalars are compared with =="
            elif a == "Array":
                ok = all(v[0] == "answer-of" and v[1] == "vec_ueq" and tuple(v[2]) == (pa[0], pb[0]) for v in vs)
                why = "arrays are compared with Vec::unordered_eq (element-wise unordered comparison)"
            else:
                ok = all(v[0] == "answer-of" and v[1] == "obj_ueq" and tuple(v[2]) == (pa[0], pb[0]) for v in vs)
                why = "objects are compared with Object::unordered_eq"
            res.ob(ok, rule, key, "unordered_eq(%s, %s) behaves as %r (%s)" % (a, b, [v[:2] for v in vs], why),
                   sample={"pair": "%s/%s" % (a, b), "does": [str(v[:2]) for v in vs]} if i == j else None)
    res.floor(rule, "variant_pairs", 36)
    # wrapper
    try:
        w = shape.find_inst(P, r"^<json_syntax::Unordered<json_syntax::Value> as std::cmp::PartialEq>::eq$")
        sh = shape.Shape(P)
        sh.cut(r"^<json_syntax::Value as json_syntax::UnorderedPartialEq>::unordered_eq$", "ueq", ret=lambda it, st, c, a_: Top(None, "R"))
        uty = P.types[w["locals"][1]]["to"]
        a, b = Top(None, "a"), Top(None, "b")
        outs = sh.run(w, [sh.cell(Agg(uty, 0, (a,))), sh.cell(Agg(uty, 0, (b,)))])
        ok = len(outs) == 1 and [e[0] for e in shape.events(outs[0])] == ["ueq"] and shape.events(outs[0])[0][2] == (a, b) and isinstance(outs[0].outcome[1], Top)
        res.ob(ok, "C15.wrapper", "C15.wrapper/eq", "Unordered<Value> == does not delegate to unordered_eq of the wrapped values", sample={"wrapper": "Unordered<Value>::eq -> unordered_eq"})
    except Undecided as e:
        res.violation("C15.wrapper", "C15.wrapper/undecided", str(e))


def calls_in(P, inst, rx):
    out = []
    for bi, c, t in static.calls(P, inst):
        if c is not None and re.search(rx, c["name"]):
            out.append((bi, c, t))
    return out


def closures_of(P, inst):
    """Closure instances defined inside a function that are reachable from it."""
    pref = inst["path"] + "::{closure"
    reach = P.reachable([inst["id"]])
    return [P.inst[i] for i in reach if P.inst[i]["path"].startswith(pref)]


def vec_rule(ctx, res):
    """Arrays stay ordered: Vec::unordered_eq, interpreted on every pair of small vectors of value tokens (lengths 0..2 on
    either side), is `same length and position-wise unordered_eq`."""
    import itertools
    P = ctx.P
    rule = "C15.vec"
    try:
        inst = shape.find_inst(P, r"^<std::vec::Vec<json_syntax::Value> as json_syntax::UnorderedPartialEq>::unordered_eq$")
    except Undecided as e:
        res.violation(rule, rule + "/missing", str(e))
        return
    vecs = [()] + [(x,) for x in (1, 2)] + list(itertools.product((1, 2), repeat=2)) + [(1, 2, 1)]
    bad = None
    n = 0
    for xs in vecs:
        for ys in vecs:
            sh = shape.Shape(P)

            def ueq(it, st, c, a_):
                x, y = (shape.deref(it, st, v, 4) for v in a_[:2])
                if not all(isinstance(v, Top) and isinstance(v.tag, tuple) and v.tag[0] == "val" for v in (x, y)):
                    raise Undecided("element comparison of %r and %r" % (x, y))
                return Conc(int(x.tag[1] == y.tag[1]))

            sh.cut(r"^<json_syntax::Value as json_syntax::UnorderedPartialEq>::unordered_eq$", "ueq", ret=ueq)

            def ordered(it, st, c, a_):
                raise Undecided("elements are compared with == (PartialEq), which is sensitive to the order of nested object entries")

            sh.cut(r"^<json_syntax::Value as std::cmp::PartialEq>::eq$", "eq", ret=ordered)
            va = sh.st.new_obj(AVec(tuple(Top(None, ("val", x)) for x in xs), "array"))
            vb = sh.st.new_obj(AVec(tuple(Top(None, ("val", y)) for y in ys), "array"))
            try:
                outs = sh.run(inst, [sh.cell(va), sh.cell(vb)])
            except Undecided as e:
                res.violation(rule, rule + "/undecided", "undecided while interpreting Vec::unordered_eq on %r ~ %r: %s" % (xs, ys, e))
                return
            n += 1
            if len(outs) != 1 or outs[0].outcome[0] != "return" or not isinstance(outs[0].outcome[1], Conc):
                res.violation(rule, rule + "/paths", "Vec::unordered_eq on %r ~ %r: %s" % (xs, ys, [o.outcome for o in outs][:3]))
                return
            got = outs[0].outcome[1].v
            want = int(xs == ys)
            if got != want and bad is None:
                bad = (xs, ys, got)
    res.count("C15.vec configurations", n)
    res.floor(rule, "C15.vec configurations", 60)
    res.ob(bad is None, rule, rule + "/ordered", "Vec::unordered_eq must hold exactly for vectors of the same length whose elements are unordered-equal position by position; %r ~ %r returns %s" % (
        bad[0] if bad else None, bad[1] if bad else None, "true" if bad and bad[2] else "false"), sample={"configurations": n, "verdict": "same length and position-wise"})


def redundant_rule(ctx, res):
    P = ctx.P
    rule = "C15.redundant"
    try:
        inst = shape.find_inst(P, r"^json_syntax::object::index_map::Indexes::is_redundant$")
    except Undecided as e:
        res.violation(rule, rule + "/missing", str(e))
        return
    ity = P.types[inst["locals"][1]]["to"]
    for k in (0, 1, 2, 3):
        sh = shape.Shape(P)
        other = sh.st.new_obj(AVec(tuple(Conc(10 + i) for i in range(k)), "other"))
        me = sh.cell(Agg(ity, 0, (Conc(0), other)))
        try:
            outs = sh.run(inst, [me])
        except Undecided as e:
            res.violation(rule, rule + "/undecided", "undecided: %s" % e)
            return
        ok = len(outs) == 1 and outs[0].outcome == ("return", Conc(int(k > 0)))
        res.ob(ok, rule, "%s/k=%d" % (rule, k), "a key with %d positions is reported %s" % (k + 1, "redundant" if k == 0 else "not redundant" if len(outs) == 1 else "?"),
               sample={"positions": k + 1, "redundant": k > 0})
    # contains_duplicate_keys returns true iff some bucket is redundant
    try:
        cd = shape.find_inst(P, r"IndexMap::contains_duplicate_keys$")
        c = calls_in(P, cd, r"Indexes::is_redundant$")
        res.ob(len(c) == 1, rule, rule + "/scan", "contains_duplicate_keys does not test every bucket with is_redundant")
    except Undecided as e:
        res.violation(rule, rule + "/missing2", str(e))


# ---- C15.match: the decision procedure itself, on every small configuration ------------------------------------------
def small_objects(max_len, keys, vals):
    out = [()]
    import itertools
    ents = [(k, v) for k in keys for v in vals]
    for n in range(1, max_len + 1):
        out.extend(itertools.product(ents, repeat=n))
    return out


def canonical(a, b):
    """Rename keys and values by order of first appearance over a + b (the procedure only compares them for equality)."""
    km, vm = {}, {}
    out = []
    for seq in (a, b):
        r = []
        for k, v in seq:
            r.append((km.setdefault(k, len(km)), vm.setdefault(v, len(vm))))
        out.append(tuple(r))
    return tuple(out)


def match_rule(ctx, res):
    """Object::unordered_eq is interpreted exactly (hash lookup replaced by the positions of the key in the abstract
    object, nested value comparison by equality of abstract value tokens) on every pair of objects of equal length up to
    L entries over two keys and two values (up to renaming), and its verdict compared with equality of the multisets of
    (key, value) pairs.  Pairs of different length are covered by the length rule."""
    import collections
    P = ctx.P
    rule = "C15.match"
    res.rules_run.append("C15.match (Object::unordered_eq interpreted on every pair of small abstract objects — up to 3 entries (4 in the thorough tier) over two keys and two value tokens, up to renaming — must return multiset equality of the entries)")
    try:
        inst = shape.find_inst(P, r"^<json_syntax::Object as json_syntax::UnorderedPartialEq>::unordered_eq$")
    except Undecided as e:
        res.violation(rule, rule + "/missing", str(e))
        return
    oty = P.types[inst["locals"][1]]["to"]
    fld = {f["name"]: f["ty"] for f in P.types[oty]["variants"][0]["fields"]}
    et = [t for t in P.types if t.get("name") == "json_syntax::object::Entry" and t["k"] == "adt" and t["s"] == "json_syntax::object::Entry<smallstr::string::SmallString<[u8; 16]>>"]
    if len(et) != 1 or "entries" not in fld or "indexes" not in fld:
        res.violation(rule, rule + "/anchors", "Object { entries, indexes } / Entry not found as expected (anchor lost)")
        return
    ety = et[0]["id"]
    L = 4 if ctx.tier == "thorough" else 3
    seen = set()
    pairs = []
    objs = small_objects(L, ("k", "m"), (1, 2))
    by_len = collections.defaultdict(list)
    for o in objs:
        by_len[len(o)].append(o)
    for n, group in by_len.items():
        for a in group:
            for b in group:
                c = canonical(a, b)
                if c not in seen:
                    seen.add(c)
                    pairs.append(c)
    # objects of different length are never equal (one entry more on either side, lengths up to 2 / 3)
    for n in range(0, L - 1):
        for a in by_len[n]:
            for b in by_len[n + 1]:
                for c in (canonical(a, b), canonical(b, a)):
                    if c not in seen:
                        seen.add(c)
                        pairs.append(c)
    wrong = {}
    n_eq = n_ne = 0
    for a, b in pairs:
        try:
            got = interpret_pair(P, inst, oty, fld, ety, a, b)
        except Undecided as e:
            res.violation(rule, rule + "/undecided", "undecided while interpreting Object::unordered_eq on %s ~ %s: %s" % (show(a), show(b), e), site=P.loc(inst["id"]))
            return
        want = int(collections.Counter(a) == collections.Counter(b))
        n_eq += want
        n_ne += 1 - want
        if got != want:
            kind = "accepts-different-multisets" if got == 1 else "rejects-a-permutation"
            dup = "duplicate-keys" if (len(set(k for k, _ in a)) < len(a) or len(set(k for k, _ in b)) < len(b)) else "unique-keys"
            wrong.setdefault((kind, dup), []).append((a, b))
    res.count("C15.match configurations", len(pairs))
    res.count("C15.match permutation pairs", n_eq)
    res.count("C15.match non-permutation pairs", n_ne)
    res.floor(rule, "C15.match configurations", 300)
    for (kind, dup), ex in sorted(wrong.items()):
        a, b = min(ex, key=lambda p: (len(p[0]), p))
        res.violation(rule, "%s/%s/%s" % (rule, kind, dup),
                      "Object::unordered_eq %s: %d of the %d small configurations, e.g. %s ~ %s returns %s" % (
                          "holds for objects whose entries are not a permutation of each other" if kind.startswith("accepts") else "fails for two permutations of the same entries",
                          len(ex), len(pairs), show(a), show(b), "true" if kind.startswith("accepts") else "false"), site=P.loc(inst["id"]))
    if not wrong:
        res.ob(True, rule, rule + "/all", "", sample={"configurations": len(pairs), "verdict": "unordered_eq = multiset equality on all of them"})


def show(o):
    return "{" + ", ".join("%s:%s" % ("km"[k] if isinstance(k, int) else k, v + 1 if isinstance(v, int) else v) for k, v in o) + "}"


def interpret_pair(P, inst, oty, fld, ety, A, B):
    from ..summ import AVec as _AVec
    sh = shape.Shape(P)
    objs = {}

    def mk(name, ents):
        items = tuple(Agg(ety, 0, (Top(None, ("key", k)), Top(None, ("val", v)))) for k, v in ents)
        vec = sh.st.new_obj(_AVec(items, "entries"))
        objs[name] = ents
        return sh.cell(Agg(oty, 0, (vec, Top(fld["indexes"], ("idx", name)))))

    a, b = mk("A", A), mk("B", B)

    def which(it, st, v):
        idx = shape.deref(it, st, v, 3)
        if not (isinstance(idx, Top) and isinstance(idx.tag, tuple) and idx.tag[0] == "idx"):
            raise Undecided("index map of an unknown object: %r" % (idx,))
        return idx.tag[1]

    def im_get(it, st, c, args):
        name = which(it, st, args[0])
        key = shape.deref(it, st, args[2], 4)
        if not (isinstance(key, Top) and isinstance(key.tag, tuple) and key.tag[0] == "key"):
            raise Undecided("lookup of something that is not an entry's key: %r" % (key,))
        # the entries slice handed to the index map must be the object's own
        pos = [i for i, (kk, _) in enumerate(objs[name]) if kk == key.tag[1]]
        rt = shape.ret_ty(it, c)
        if not pos:
            return Agg(rt, 0, ())
        ity = P.types[P.types[rt]["variants"][1]["fields"][0]["ty"]]["to"]
        other = st.new_obj(_AVec(tuple(Conc(p) for p in pos[1:]), "other"))
        cell = st.new_obj(Agg(ity, 0, (Conc(pos[0]), other)))
        return Agg(rt, 1, (Ref(("H", cell.id), ()),))

    sh.cut(r"^json_syntax::object::index_map::IndexMap::get::<", "im_get", ret=im_get)

    def dup(it, st, c, args):
        ks = [k for k, _ in objs[which(it, st, args[0])]]
        return Conc(int(len(set(ks)) != len(ks)))

    sh.cut(r"IndexMap::contains_duplicate_keys$", "dup", ret=dup)

    def ueq(it, st, c, args):
        x, y = shape.deref(it, st, args[0], 4), shape.deref(it, st, args[1], 4)
        if not all(isinstance(v, Top) and isinstance(v.tag, tuple) and v.tag[0] == "val" for v in (x, y)):
            raise Undecided("nested comparison of something that is not an entry's value: %r ~ %r" % (x, y))
        return Conc(int(x.tag == y.tag))

    sh.cut(r"^<json_syntax::Value as json_syntax::UnorderedPartialEq>::unordered_eq$", "ueq", ret=ueq)

    def ordered_eq(it, st, c, args):
        raise Undecided("nested values are compared with == (PartialEq), which is sensitive to the order of nested object entries")

    sh.cut(r"^<json_syntax::Value as std::cmp::PartialEq>::eq$", "eq", ret=ordered_eq)

    def from_elem(it, st, c, args):
        n = args[1]
        if not isinstance(n, Conc):
            raise Undecided("vec![x; n] with unknown n: %r" % (n,))
        return st.new_obj(_AVec(tuple(args[0] for _ in range(n.v)), "flags"))

    sh.cut(r"^std::vec::from_elem::<", "from_elem", ret=from_elem)
    outs = sh.run(inst, [a, b])
    rets = [o for o in outs if o.outcome and o.outcome[0] == "return"]
    if len(outs) != 1 or len(rets) != 1 or not isinstance(rets[0].outcome[1], Conc):
        raise Undecided("%d paths / result %r" % (len(outs), [o.outcome for o in outs][:3]))
    if sh.unknown():
        raise Undecided("unknown callees %s" % sh.unknown()[:3])
    return rets[0].outcome[1].v
