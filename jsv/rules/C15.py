"""C15 — unordered equality = equality up to permutation of object entries (necessary structural
clauses only; the one-to-one matching of duplicate keys is not decided, see DESIGN.md)."""
import re

from .. import shape, static
from ..absint import Agg, Conc, Ref, Sym, Top, Undecided
from ..summ import AVec

LEVEL = "other"


def run(ctx, res):
    res.rules_run += ["C15.dispatch (Value::unordered_eq pairs equal variants only: scalars with ==, arrays and objects with their unordered_eq, mixed variants false)",
                      "C15.vec (Vec::unordered_eq requires equal lengths and compares elements with unordered_eq)",
                      "C15.redundant (Indexes::is_redundant <=> more than one position)",
                      "C15.wrapper (Unordered<T>: PartialEq delegates to unordered_eq)"]
    dispatch_rule(ctx, res)
    vec_rule(ctx, res)
    redundant_rule(ctx, res)
    match_rule(ctx, res)
    # unordered_eq finds candidate entries through the key index: C15.match assumes a well-formed index, which is what the
    # index-maintenance rules of C06 establish (a stale index makes objects unequal to themselves)
    from . import C06
    res.rules_run.append("C15.index = C06.model restricted to index exactness + C06.shift + C06.sorted (every operation leaves the key index exact; unordered_eq looks entries up through it)")
    C06.model_rule(ctx, res, only_index=True, rule="C15.index")
    C06.shift(ctx, res)
    C06.sorted_rule(ctx, res)
    res.notes.append("C15.match replaces the structural rule C15.object of earlier revisions (two containment passes, duplicate guard): the procedure is now interpreted on every small configuration, which is both stronger and independent of how the matching is written")


def dispatch_rule(ctx, res):
    P = ctx.P
    rule = "C15.dispatch"
    try:
        inst = shape.find_inst(P, r"^<json_syntax::Value as json_syntax::UnorderedPartialEq>::unordered_eq$")
    except Undecided as e:
        res.violation(rule, rule + "/missing", str(e))
        return
    vt = [t for t in P.types if t.get("name") == "json_syntax::Value" and t["k"] == "adt"][0]
    names = [v["name"] for v in vt["variants"]]
    for i, a in enumerate(names):
        for j, b in enumerate(names):
            sh = shape.Shape(P)
            sh.cut(r"^<std::vec::Vec<json_syntax::Value> as json_syntax::UnorderedPartialEq>::unordered_eq$", "vec_ueq", ret=lambda it, st, c, a_: Top(None, "R"))
            sh.cut(r"^<json_syntax::Object as json_syntax::UnorderedPartialEq>::unordered_eq$", "obj_ueq", ret=lambda it, st, c, a_: Top(None, "R"))
            sh.cut(r"as std::cmp::PartialEq.*>::eq$|^(std|alloc)::vec::partial_eq::<impl .*>::eq$|^(std|core)::slice::cmp::<impl .*PartialEq.*>::eq$", "eq", ret=lambda it, st, c, a_: Top(None, "R"))
            pa = [Top(f["ty"], "a") for f in vt["variants"][i]["fields"]]
            pb = [Top(f["ty"], "b") for f in vt["variants"][j]["fields"]]
            ra, rb = sh.cell(Agg(vt["id"], i, pa)), sh.cell(Agg(vt["id"], j, pb))
            key = "%s/%s-%s" % (rule, a, b)
            try:
                outs = sh.run(inst, [ra, rb])
            except Undecided as e:
                res.violation(rule, key + "/undecided", "deviates from the reviewed dispatch; while interpreting: %s" % e)
                continue
            res.count("variant_pairs")
            if len(outs) != 1 or outs[0].outcome[0] != "return":
                res.violation(rule, key + "/paths", "unordered_eq(%s, %s): %d paths" % (a, b, len(outs)))
                continue
            o = outs[0]
            ev = shape.events(o)
            rv = o.outcome[1]
            if i != j:
                ok = rv == Conc(0) and not ev
                why = "values of different kinds must be unequal"
            elif a == "Null":
                ok = rv == Conc(1) and not ev
                why = "null ~ null"
            elif a in ("Boolean", "Number", "String"):
                ok = len(ev) == 1 and ev[0][0] == "eq" and isinstance(rv, Top) and rv.tag == "R" and ev[0][2] == (pa[0], pb[0])
                why = "scalars are compared with =="
                if a == "Boolean":  # bool == bool is a primitive comparison
                    ok = not ev and not isinstance(rv, Conc)
            elif a == "Array":
                ok = len(ev) == 1 and ev[0][0] == "vec_ueq" and isinstance(rv, Top) and rv.tag == "R" and ev[0][2] == (pa[0], pb[0])
                why = "arrays are compared with Vec::unordered_eq (element-wise unordered comparison)"
            else:
                ok = len(ev) == 1 and ev[0][0] == "obj_ueq" and isinstance(rv, Top) and rv.tag == "R" and ev[0][2] == (pa[0], pb[0])
                why = "objects are compared with Object::unordered_eq"
            res.ob(ok, rule, key, "unordered_eq(%s, %s) does %r and returns %r (%s)" % (a, b, [(e[0], e[3][-60:]) for e in ev], rv, why),
                   sample={"pair": "%s/%s" % (a, b), "does": [e[0] for e in ev] or repr(rv)} if i == j else None)
    res.floor(rule, "variant_pairs", 36)
    # wrapper
    try:
        w = shape.find_inst(P, r"^<json_syntax::Unordered<json_syntax::Value> as std::cmp::PartialEq>::eq$")
        sh = shape.Shape(P)
        sh.cut(r"^<json_syntax::Value as json_syntax::UnorderedPartialEq>::unordered_eq$", "ueq", ret=lambda it, st, c, a_: Top(None, "R"))
        uty = P.types[w["locals"][1]]["to"]
        a, b = Top(None, "a"), Top(None, "b")
        outs = sh.run(w, [sh.cell(Agg(uty, 0, (a,))), sh.cell(Agg(uty, 0, (b,)))])
        ok = len(outs) == 1 and [e[0] for e in shape.events(outs[0])] == ["ueq"] and shape.events(outs[0])[0][2] == (a, b) and isinstance(outs[0].outcome[1], Top)
        res.ob(ok, "C15.wrapper", "C15.wrapper/eq", "Unordered<Value> == does not delegate to unordered_eq of the wrapped values", sample={"wrapper": "Unordered<Value>::eq -> unordered_eq"})
    except Undecided as e:
        res.violation("C15.wrapper", "C15.wrapper/undecided", str(e))


def calls_in(P, inst, rx):
    out = []
    for bi, c, t in static.calls(P, inst):
        if c is not None and re.search(rx, c["name"]):
            out.append((bi, c, t))
    return out


def closures_of(P, inst):
    """Closure instances defined inside a function that are reachable from it."""
    pref = inst["path"] + "::{closure"
    reach = P.reachable([inst["id"]])
    return [P.inst[i] for i in reach if P.inst[i]["path"].startswith(pref)]


def vec_rule(ctx, res):
    P = ctx.P
    rule = "C15.vec"
    try:
        inst = shape.find_inst(P, r"^<std::vec::Vec<json_syntax::Value> as json_syntax::UnorderedPartialEq>::unordered_eq$")
    except Undecided as e:
        res.violation(rule, rule + "/missing", str(e))
        return
    lens = calls_in(P, inst, r"^std::vec::Vec::<json_syntax::Value>::len$")
    origins = sorted(static.origin(inst, t["args"][0])[1] for _, _, t in lens if static.origin(inst, t["args"][0])[0] == "param")
    res.ob(origins == [1, 2], rule, rule + "/len", "Vec::unordered_eq does not compare the lengths of both operands (len called on parameters %r)" % (origins,), sample={"len_of": "self and other"})
    cl = closures_of(P, inst)
    ueq = [c for c in cl if calls_in(P, c, r"as json_syntax::UnorderedPartialEq>::unordered_eq$")]
    eq = [c for c in cl if calls_in(P, c, r"as std::cmp::PartialEq.*>::eq$")]
    res.ob(len(ueq) >= 1 and not eq, rule, rule + "/elements", "Vec::unordered_eq does not compare elements with unordered_eq (closures calling unordered_eq: %d, calling ==: %d)" % (len(ueq), len(eq)),
           sample={"elements_compared_with": "unordered_eq"})
    zips = calls_in(P, inst, r"std::iter::Iterator>::zip")
    res.ob(len(zips) == 1, rule, rule + "/zip", "Vec::unordered_eq does not pair elements position-wise (zip)")


def redundant_rule(ctx, res):
    P = ctx.P
    rule = "C15.redundant"
    try:
        inst = shape.find_inst(P, r"^json_syntax::object::index_map::Indexes::is_redundant$")
    except Undecided as e:
        res.violation(rule, rule + "/missing", str(e))
        return
    ity = P.types[inst["locals"][1]]["to"]
    for k in (0, 1, 2, 3):
        sh = shape.Shape(P)
        other = sh.st.new_obj(AVec(tuple(Conc(10 + i) for i in range(k)), "other"))
        me = sh.cell(Agg(ity, 0, (Conc(0), other)))
        try:
            outs = sh.run(inst, [me])
        except Undecided as e:
            res.violation(rule, rule + "/undecided", "undecided: %s" % e)
            return
        ok = len(outs) == 1 and outs[0].outcome == ("return", Conc(int(k > 0)))
        res.ob(ok, rule, "%s/k=%d" % (rule, k), "a key with %d positions is reported %s" % (k + 1, "redundant" if k == 0 else "not redundant" if len(outs) == 1 else "?"),
               sample={"positions": k + 1, "redundant": k > 0})
    # contains_duplicate_keys returns true iff some bucket is redundant
    try:
        cd = shape.find_inst(P, r"IndexMap::contains_duplicate_keys$")
        c = calls_in(P, cd, r"Indexes::is_redundant$")
        res.ob(len(c) == 1, rule, rule + "/scan", "contains_duplicate_keys does not test every bucket with is_redundant")
    except Undecided as e:
        res.violation(rule, rule + "/missing2", str(e))


# ---- C15.match: the decision procedure itself, on every small configuration ------------------------------------------
def small_objects(max_len, keys, vals):
    out = [()]
    import itertools
    ents = [(k, v) for k in keys for v in vals]
    for n in range(1, max_len + 1):
        out.extend(itertools.product(ents, repeat=n))
    return out


def canonical(a, b):
    """Rename keys and values by order of first appearance over a + b (the procedure only compares them for equality)."""
    km, vm = {}, {}
    out = []
    for seq in (a, b):
        r = []
        for k, v in seq:
            r.append((km.setdefault(k, len(km)), vm.setdefault(v, len(vm))))
        out.append(tuple(r))
    return tuple(out)


def match_rule(ctx, res):
    """Object::unordered_eq is interpreted exactly (hash lookup replaced by the positions of the key in the abstract
    object, nested value comparison by equality of abstract value tokens) on every pair of objects of equal length up to
    L entries over two keys and two values (up to renaming), and its verdict compared with equality of the multisets of
    (key, value) pairs.  Pairs of different length are covered by the length rule."""
    import collections
    P = ctx.P
    rule = "C15.match"
    res.rules_run.append("C15.match (Object::unordered_eq interpreted on every pair of small abstract objects — up to 3 entries (4 in the thorough tier) over two keys and two value tokens, up to renaming — must return multiset equality of the entries)")
    try:
        inst = shape.find_inst(P, r"^<json_syntax::Object as json_syntax::UnorderedPartialEq>::unordered_eq$")
    except Undecided as e:
        res.violation(rule, rule + "/missing", str(e))
        return
    oty = P.types[inst["locals"][1]]["to"]
    fld = {f["name"]: f["ty"] for f in P.types[oty]["variants"][0]["fields"]}
    et = [t for t in P.types if t.get("name") == "json_syntax::object::Entry" and t["k"] == "adt" and t["s"] == "json_syntax::object::Entry<smallstr::string::SmallString<[u8; 16]>>"]
    if len(et) != 1 or "entries" not in fld or "indexes" not in fld:
        res.violation(rule, rule + "/anchors", "Object { entries, indexes } / Entry not found as expected (anchor lost)")
        return
    ety = et[0]["id"]
    L = 4 if ctx.tier == "thorough" else 3
    seen = set()
    pairs = []
    objs = small_objects(L, ("k", "m"), (1, 2))
    by_len = collections.defaultdict(list)
    for o in objs:
        by_len[len(o)].append(o)
    for n, group in by_len.items():
        for a in group:
            for b in group:
                c = canonical(a, b)
                if c not in seen:
                    seen.add(c)
                    pairs.append(c)
    # objects of different length are never equal (one entry more on either side, lengths up to 2 / 3)
    for n in range(0, L - 1):
        for a in by_len[n]:
            for b in by_len[n + 1]:
                for c in (canonical(a, b), canonical(b, a)):
                    if c not in seen:
                        seen.add(c)
                        pairs.append(c)
    wrong = {}
    n_eq = n_ne = 0
    for a, b in pairs:
        try:
            got = interpret_pair(P, inst, oty, fld, ety, a, b)
        except Undecided as e:
            res.violation(rule, rule + "/undecided", "undecided while interpreting Object::unordered_eq on %s ~ %s: %s" % (show(a), show(b), e), site=P.loc(inst["id"]))
            return
        want = int(collections.Counter(a) == collections.Counter(b))
        n_eq += want
        n_ne += 1 - want
        if got != want:
            kind = "accepts-different-multisets" if got == 1 else "rejects-a-permutation"
            dup = "duplicate-keys" if (len(set(k for k, _ in a)) < len(a) or len(set(k for k, _ in b)) < len(b)) else "unique-keys"
            wrong.setdefault((kind, dup), []).append((a, b))
    res.count("C15.match configurations", len(pairs))
    res.count("C15.match permutation pairs", n_eq)
    res.count("C15.match non-permutation pairs", n_ne)
    res.floor(rule, "C15.match configurations", 300)
    for (kind, dup), ex in sorted(wrong.items()):
        a, b = min(ex, key=lambda p: (len(p[0]), p))
        res.violation(rule, "%s/%s/%s" % (rule, kind, dup),
                      "Object::unordered_eq %s: %d of the %d small configurations, e.g. %s ~ %s returns %s" % (
                          "holds for objects whose entries are not a permutation of each other" if kind.startswith("accepts") else "fails for two permutations of the same entries",
                          len(ex), len(pairs), show(a), show(b), "true" if kind.startswith("accepts") else "false"), site=P.loc(inst["id"]))
    if not wrong:
        res.ob(True, rule, rule + "/all", "", sample={"configurations": len(pairs), "verdict": "unordered_eq = multiset equality on all of them"})


def show(o):
    return "{" + ", ".join("%s:%s" % ("km"[k] if isinstance(k, int) else k, v + 1 if isinstance(v, int) else v) for k, v in o) + "}"


def interpret_pair(P, inst, oty, fld, ety, A, B):
    from ..summ import AVec as _AVec
    sh = shape.Shape(P)
    objs = {}

    def mk(name, ents):
        items = tuple(Agg(ety, 0, (Top(None, ("key", k)), Top(None, ("val", v)))) for k, v in ents)
        vec = sh.st.new_obj(_AVec(items, "entries"))
        objs[name] = ents
        return sh.cell(Agg(oty, 0, (vec, Top(fld["indexes"], ("idx", name)))))

    a, b = mk("A", A), mk("B", B)

    def which(it, st, v):
        idx = shape.deref(it, st, v, 3)
        if not (isinstance(idx, Top) and isinstance(idx.tag, tuple) and idx.tag[0] == "idx"):
            raise Undecided("index map of an unknown object: %r" % (idx,))
        return idx.tag[1]

    def im_get(it, st, c, args):
        name = which(it, st, args[0])
        key = shape.deref(it, st, args[2], 4)
        if not (isinstance(key, Top) and isinstance(key.tag, tuple) and key.tag[0] == "key"):
            raise Undecided("lookup of something that is not an entry's key: %r" % (key,))
        # the entries slice handed to the index map must be the object's own
        pos = [i for i, (kk, _) in enumerate(objs[name]) if kk == key.tag[1]]
        rt = shape.ret_ty(it, c)
        if not pos:
            return Agg(rt, 0, ())
        ity = P.types[P.types[rt]["variants"][1]["fields"][0]["ty"]]["to"]
        other = st.new_obj(_AVec(tuple(Conc(p) for p in pos[1:]), "other"))
        cell = st.new_obj(Agg(ity, 0, (Conc(pos[0]), other)))
        return Agg(rt, 1, (Ref(("H", cell.id), ()),))

    sh.cut(r"^json_syntax::object::index_map::IndexMap::get::<", "im_get", ret=im_get)

    def dup(it, st, c, args):
        ks = [k for k, _ in objs[which(it, st, args[0])]]
        return Conc(int(len(set(ks)) != len(ks)))

    sh.cut(r"IndexMap::contains_duplicate_keys$", "dup", ret=dup)

    def ueq(it, st, c, args):
        x, y = shape.deref(it, st, args[0], 4), shape.deref(it, st, args[1], 4)
        if not all(isinstance(v, Top) and isinstance(v.tag, tuple) and v.tag[0] == "val" for v in (x, y)):
            raise Undecided("nested comparison of something that is not an entry's value: %r ~ %r" % (x, y))
        return Conc(int(x.tag == y.tag))

    sh.cut(r"^<json_syntax::Value as json_syntax::UnorderedPartialEq>::unordered_eq$", "ueq", ret=ueq)

    def ordered_eq(it, st, c, args):
        raise Undecided("nested values are compared with == (PartialEq), which is sensitive to the order of nested object entries")

    sh.cut(r"^<json_syntax::Value as std::cmp::PartialEq>::eq$", "eq", ret=ordered_eq)

    def from_elem(it, st, c, args):
        n = args[1]
        if not isinstance(n, Conc):
            raise Undecided("vec![x; n] with unknown n: %r" % (n,))
        return st.new_obj(_AVec(tuple(args[0] for _ in range(n.v)), "flags"))

    sh.cut(r"^std::vec::from_elem::<", "from_elem", ret=from_elem)
    outs = sh.run(inst, [a, b])
    rets = [o for o in outs if o.outcome and o.outcome[0] == "return"]
    if len(outs) != 1 or len(rets) != 1 or not isinstance(rets[0].outcome[1], Conc):
        raise Undecided("%d paths / result %r" % (len(outs), [o.outcome for o in outs][:3]))
    if sh.unknown():
        raise Undecided("unknown callees %s" % sh.unknown()[:3])
    return rets[0].outcome[1].v
