"""C15 — unordered equality = equality up to permutation of object entries (necessary structural
clauses only; the one-to-one matching of duplicate keys is not decided, see DESIGN.md)."""
import re

from .. import shape, static
from ..absint import Agg, Conc, Ref, Sym, Top, Undecided
from ..summ import AVec

LEVEL = "other"


def run(ctx, res):
    res.rules_run += ["C15.dispatch (Value::unordered_eq pairs equal variants only: scalars with ==, arrays and objects with their unordered_eq, mixed variants false)",
                      "C15.vec (Vec::unordered_eq requires equal lengths and compares elements with unordered_eq)",
                      "C15.object (Object::unordered_eq: length check; containment checked with unordered_eq on values in both directions; the backward pass is guarded by duplicate keys of *self*)",
                      "C15.redundant (Indexes::is_redundant <=> more than one position)",
                      "C15.wrapper (Unordered<T>: PartialEq delegates to unordered_eq)"]
    dispatch_rule(ctx, res)
    vec_rule(ctx, res)
    object_rule(ctx, res)
    redundant_rule(ctx, res)
    res.notes.append("not decided: that the containment procedure is a one-to-one matching of duplicate keys (it is not: {k:1,k:1,k:2} ~ {k:1,k:2,k:2}); no sound structural criterion is in reach")


def dispatch_rule(ctx, res):
    P = ctx.P
    rule = "C15.dispatch"
    try:
        inst = shape.find_inst(P, r"^<json_syntax::Value as json_syntax::UnorderedPartialEq>::unordered_eq$")
    except Undecided as e:
        res.violation(rule, rule + "/missing", str(e))
        return
    vt = [t for t in P.types if t.get("name") == "json_syntax::Value" and t["k"] == "adt"][0]
    names = [v["name"] for v in vt["variants"]]
    for i, a in enumerate(names):
        for j, b in enumerate(names):
            sh = shape.Shape(P)
            sh.cut(r"^<std::vec::Vec<json_syntax::Value> as json_syntax::UnorderedPartialEq>::unordered_eq$", "vec_ueq", ret=lambda it, st, c, a_: Top(None, "R"))
            sh.cut(r"^<json_syntax::Object as json_syntax::UnorderedPartialEq>::unordered_eq$", "obj_ueq", ret=lambda it, st, c, a_: Top(None, "R"))
            sh.cut(r"as std::cmp::PartialEq.*>::eq$", "eq", ret=lambda it, st, c, a_: Top(None, "R"))
            pa = [Top(f["ty"], "a") for f in vt["variants"][i]["fields"]]
            pb = [Top(f["ty"], "b") for f in vt["variants"][j]["fields"]]
            ra, rb = sh.cell(Agg(vt["id"], i, pa)), sh.cell(Agg(vt["id"], j, pb))
            key = "%s/%s-%s" % (rule, a, b)
            try:
                outs = sh.run(inst, [ra, rb])
            except Undecided as e:
                res.violation(rule, key + "/undecided", "deviates from the reviewed dispatch; while interpreting: %s" % e)
                continue
            res.count("variant_pairs")
            if len(outs) != 1 or outs[0].outcome[0] != "return":
                res.violation(rule, key + "/paths", "unordered_eq(%s, %s): %d paths" % (a, b, len(outs)))
                continue
            o = outs[0]
            ev = shape.events(o)
            rv = o.outcome[1]
            if i != j:
                ok = rv == Conc(0) and not ev
                why = "values of different kinds must be unequal"
            elif a == "Null":
                ok = rv == Conc(1) and not ev
                why = "null ~ null"
            elif a in ("Boolean", "Number", "String"):
                ok = len(ev) == 1 and ev[0][0] == "eq" and isinstance(rv, Top) and rv.tag == "R" and ev[0][2] == (pa[0], pb[0])
                why = "scalars are compared with =="
                if a == "Boolean":  # bool == bool is a primitive comparison
                    ok = not ev and not isinstance(rv, Conc)
            elif a == "Array":
                ok = len(ev) == 1 and ev[0][0] == "vec_ueq" and isinstance(rv, Top) and rv.tag == "R" and ev[0][2] == (pa[0], pb[0])
                why = "arrays are compared with Vec::unordered_eq (element-wise unordered comparison)"
            else:
                ok = len(ev) == 1 and ev[0][0] == "obj_ueq" and isinstance(rv, Top) and rv.tag == "R" and ev[0][2] == (pa[0], pb[0])
                why = "objects are compared with Object::unordered_eq"
            res.ob(ok, rule, key, "unordered_eq(%s, %s) does %r and returns %r (%s)" % (a, b, [(e[0], e[3][-60:]) for e in ev], rv, why),
                   sample={"pair": "%s/%s" % (a, b), "does": [e[0] for e in ev] or repr(rv)} if i == j else None)
    res.floor(rule, "variant_pairs", 36)
    # wrapper
    try:
        w = shape.find_inst(P, r"^<json_syntax::Unordered<json_syntax::Value> as std::cmp::PartialEq>::eq$")
        sh = shape.Shape(P)
        sh.cut(r"^<json_syntax::Value as json_syntax::UnorderedPartialEq>::unordered_eq$", "ueq", ret=lambda it, st, c, a_: Top(None, "R"))
        uty = P.types[w["locals"][1]]["to"]
        a, b = Top(None, "a"), Top(None, "b")
        outs = sh.run(w, [sh.cell(Agg(uty, 0, (a,))), sh.cell(Agg(uty, 0, (b,)))])
        ok = len(outs) == 1 and [e[0] for e in shape.events(outs[0])] == ["ueq"] and shape.events(outs[0])[0][2] == (a, b) and isinstance(outs[0].outcome[1], Top)
        res.ob(ok, "C15.wrapper", "C15.wrapper/eq", "Unordered<Value> == does not delegate to unordered_eq of the wrapped values", sample={"wrapper": "Unordered<Value>::eq -> unordered_eq"})
    except Undecided as e:
        res.violation("C15.wrapper", "C15.wrapper/undecided", str(e))


def calls_in(P, inst, rx):
    out = []
    for bi, c, t in static.calls(P, inst):
        if c is not None and re.search(rx, c["name"]):
            out.append((bi, c, t))
    return out


def closures_of(P, inst):
    """Closure instances defined inside a function that are reachable from it."""
    pref = inst["path"] + "::{closure"
    reach = P.reachable([inst["id"]])
    return [P.inst[i] for i in reach if P.inst[i]["path"].startswith(pref)]


def vec_rule(ctx, res):
    P = ctx.P
    rule = "C15.vec"
    try:
        inst = shape.find_inst(P, r"^<std::vec::Vec<json_syntax::Value> as json_syntax::UnorderedPartialEq>::unordered_eq$")
    except Undecided as e:
        res.violation(rule, rule + "/missing", str(e))
        return
    lens = calls_in(P, inst, r"^std::vec::Vec::<json_syntax::Value>::len$")
    origins = sorted(static.origin(inst, t["args"][0])[1] for _, _, t in lens if static.origin(inst, t["args"][0])[0] == "param")
    res.ob(origins == [1, 2], rule, rule + "/len", "Vec::unordered_eq does not compare the lengths of both operands (len called on parameters %r)" % (origins,), sample={"len_of": "self and other"})
    cl = closures_of(P, inst)
    ueq = [c for c in cl if calls_in(P, c, r"as json_syntax::UnorderedPartialEq>::unordered_eq$")]
    eq = [c for c in cl if calls_in(P, c, r"as std::cmp::PartialEq.*>::eq$")]
    res.ob(len(ueq) >= 1 and not eq, rule, rule + "/elements", "Vec::unordered_eq does not compare elements with unordered_eq (closures calling unordered_eq: %d, calling ==: %d)" % (len(ueq), len(eq)),
           sample={"elements_compared_with": "unordered_eq"})
    zips = calls_in(P, inst, r"std::iter::Iterator>::zip")
    res.ob(len(zips) == 1, rule, rule + "/zip", "Vec::unordered_eq does not pair elements position-wise (zip)")


def object_rule(ctx, res):
    P = ctx.P
    rule = "C15.object"
    try:
        inst = shape.find_inst(P, r"^<json_syntax::Object as json_syntax::UnorderedPartialEq>::unordered_eq$")
    except Undecided as e:
        res.violation(rule, rule + "/missing", str(e))
        return
    # (i) duplicate-key guard on self
    dup = calls_in(P, inst, r"IndexMap::contains_duplicate_keys$")
    ok = len(dup) == 1
    org = static.origin(inst, dup[0][2]["args"][0]) if ok else None
    res.ob(ok and org[0] == "param" and org[1] == 1 and org[2][-1:] == ["indexes"], rule, rule + "/dup-guard",
           "the backward containment pass must be guarded by duplicate keys of `self` (the left operand): the guard is evaluated on %r" % (org,),
           sample={"duplicate_guard_on": "self.indexes"})
    # (ii) length comparison of both entry lists
    lens = calls_in(P, inst, r"^std::vec::Vec::<json_syntax::object::Entry<.*>>::len$")
    origins = sorted(static.origin(inst, t["args"][0])[1:] for _, _, t in lens if static.origin(inst, t["args"][0])[0] == "param")
    res.ob([o[0] for o in origins] == [1, 2] and all(o[1][-1:] == ["entries"] for o in origins), rule, rule + "/len",
           "Object::unordered_eq does not compare the number of entries of both operands (%r)" % (origins,), sample={"len_of": "self.entries and other.entries"})
    # (iii) two `all` passes whose closures look the entry up in the *other* operand and compare values with unordered_eq
    cl = closures_of(P, inst)
    outer = [c for c in cl if calls_in(P, c, r"^json_syntax::Object::get_entries::<")]
    inner = [c for c in cl if calls_in(P, c, r"^<json_syntax::Value as json_syntax::UnorderedPartialEq>::unordered_eq$")]
    inner_eq = [c for c in cl if calls_in(P, c, r"^<json_syntax::Value as std::cmp::PartialEq>::eq$")]
    res.ob(len(outer) == 2, rule, rule + "/passes", "expected two containment passes (forward and backward), found %d closures looking entries up by key" % len(outer),
           sample={"containment_passes": len(outer)})
    res.ob(len(inner) == 2 and not inner_eq, rule, rule + "/values", "nested values are not compared with unordered_eq in both passes (unordered_eq: %d closures, ==: %d)" % (len(inner), len(inner_eq)),
           sample={"values_compared_with": "unordered_eq"})
    # which operand each pass iterates / looks up: closure environments capture the looked-up object
    alls = calls_in(P, inst, r"as std::iter::Iterator>::all::<")
    res.ob(len(alls) == 2, rule, rule + "/all", "expected two `all` passes, found %d" % len(alls))
    iters = calls_in(P, inst, r"^json_syntax::Object::iter$")
    its = sorted(static.origin(inst, t["args"][0])[1] for _, _, t in iters if static.origin(inst, t["args"][0])[0] == "param")
    res.ob(its == [1, 2], rule, rule + "/directions", "the two passes must iterate `self` and `other` respectively (iterate parameters %r)" % (its,), sample={"passes_iterate": "self, other"})


def redundant_rule(ctx, res):
    P = ctx.P
    rule = "C15.redundant"
    try:
        inst = shape.find_inst(P, r"^json_syntax::object::index_map::Indexes::is_redundant$")
    except Undecided as e:
        res.violation(rule, rule + "/missing", str(e))
        return
    ity = P.types[inst["locals"][1]]["to"]
    for k in (0, 1, 2, 3):
        sh = shape.Shape(P)
        other = sh.st.new_obj(AVec(tuple(Conc(10 + i) for i in range(k)), "other"))
        me = sh.cell(Agg(ity, 0, (Conc(0), other)))
        try:
            outs = sh.run(inst, [me])
        except Undecided as e:
            res.violation(rule, rule + "/undecided", "undecided: %s" % e)
            return
        ok = len(outs) == 1 and outs[0].outcome == ("return", Conc(int(k > 0)))
        res.ob(ok, rule, "%s/k=%d" % (rule, k), "a key with %d positions is reported %s" % (k + 1, "redundant" if k == 0 else "not redundant" if len(outs) == 1 else "?"),
               sample={"positions": k + 1, "redundant": k > 0})
    # contains_duplicate_keys returns true iff some bucket is redundant
    try:
        cd = shape.find_inst(P, r"IndexMap::contains_duplicate_keys$")
        c = calls_in(P, cd, r"Indexes::is_redundant$")
        res.ob(len(c) == 1, rule, rule + "/scan", "contains_duplicate_keys does not test every bucket with is_redundant")
    except Undecided as e:
        res.violation(rule, rule + "/missing2", str(e))
