"""C13 — pretty-print layout follows the documented options and limits exactly (printer model vs
refmodels/print_layout.py).  Also hosts the shared printer rules used by C04 and C08."""
import re

from .. import iset, linear, printer, tables
from ..absint import Agg, Conc, Expr, Interp, Ref, State, Str, Sym, Top, Undecided
from ..refmodels import print_layout as L
from ..summ import FmtLib, Lib, mk_none, mk_some, ret_ty

LEVEL = "other"

_cache = {}


def nmax(ctx):
    return 3 if ctx.tier == "quick" else 5


def run(ctx, res):
    res.rules_run += ["C13.emit (emission sequence of arrays/objects, n = 0..N children, expanded / inline, token by token with field identity)",
                      "C13.width (pre-computed width = character count of the inline emission, as linear forms over the option fields)",
                      "C13.limit (per Limit variant: expanded iff the documented predicate holds; a container is expanded whenever a child is)",
                      "C13.strwidth (printed_string_size increments = length of the text string_literal writes, per character class)",
                      "C13.lemma (Spaces / IndentBy / Indent write exactly n spaces / k units / n spaces or tabs)",
                      "C13.noline (inline() and compact() have both limits None, hence never a line break)"]
    emit_rule(ctx, res, "C13.emit")
    width_rule(ctx, res, "C13.width", "C13.limit")
    strwidth_rule(ctx, res)
    lemma_rule(ctx, res, "C13.lemma")
    noline_rule(ctx, res)
    from . import C04
    res.rules_run.append("C13.dispatch (Value-level dispatch of fmt_with / fmt_with_size / pre_compute_size: scalars are measured as printed - null 4, true 4, false 5, numbers their text, strings printed_string_size - and containers, at the root too, go through the measured emitters with the same options, indent and size table)")
    C04.dispatch_rule(ctx, res, "C13.dispatch")
    res.trusted += ["summary table (fmt entry points, slice iterators yield the items in order, ExactSizeIterator::len)",
                    "layout reference jsv/refmodels/print_layout.py (two doc-silent rows follow today's behaviour)"]
    res.assumptions.append("width additions do not overflow usize (bounded by the length of the output)")
    res.notes.append("loops are unrolled for n = 0..%d children; the body is checked to be uniform between the last two iterations" % nmax(ctx))


# ---- token conversion ---------------------------------------------------------------------------------------
def merge_w(tokens):
    out = []
    for t in tokens:
        if t[0] == "w" and out and out[-1][0] == "w":
            out[-1] = ("w", out[-1][1] + t[1])
        else:
            out.append(t)
    return out


def depth_token(pm, e):
    try:
        c, co = linear.lin(e)
    except linear.NotLinear:
        return "?" + repr(e)
    names = {pm.names.get(k, k): v for k, v in co.items()}
    if names == {"depth": 1} and c in (0, 1):
        return "d" if c == 0 else "d+1"
    return "?" + linear.show((c, co), pm.names)


def to_tokens(pm, events, obligations):
    toks = []
    for e in events:
        k = e[0]
        if k == "w":
            s = e[1]
            toks.append(("w", s.s if isinstance(s, Str) else "?" + repr(s)))
        elif k == "sp":
            v = e[1]
            if isinstance(v, Sym):
                toks.append(("sp", pm.names.get(v.id, "$%d" % v.id)))
            elif isinstance(v, Conc) and v.v == 0:
                continue
            else:
                toks.append(("sp", "?" + repr(v)))
        elif k == "ind":
            unit_ok = isinstance(e[1], Top) and e[1].tag == "options.indent"
            toks.append(("ind", depth_token(pm, e[2])) if unit_ok else ("ind", "?unit:" + repr(e[1])))
        elif k == "strlit":
            m = re.match(r"key(\d+)$", str(e[1]))
            toks.append(("key", int(m.group(1))) if m else ("key", "?" + str(e[1])))
        elif k == "child":
            m = re.match(r"item(\d+)$", str(e[1]))
            toks.append(("child", int(m.group(1)) if m else "?" + str(e[1]), depth_token(pm, e[2])))
            obligations.append(("child-args", e[3:6]))
        elif k in ("wc", "ws", "wfmt"):
            toks.append((k, repr(e[1])))
    return merge_w(toks)


def emit_scenarios(ctx):
    key = ("emit", ctx.info["key"], nmax(ctx))
    if key in _cache:
        return _cache[key]
    pm = printer.PrinterModel(ctx.P)
    out = []
    for kind in ("array", "object"):
        for n in range(0, nmax(ctx) + 1):
            for sk in ("Expanded", "Width"):
                sc = printer.Scenario(n, size_kind=sk, kind=kind)
                pm.names = {}
                try:
                    rs = pm.run_emit(sc)
                    obl = []
                    rows = []
                    for r in rs:
                        rows.append({"outcome": r["outcome"][0], "tokens": to_tokens(pm, r["events"], obl), "events": r["events"],
                                     "index_after": r["index_after"], "obl": list(obl), "panic": r["outcome"][1] if r["outcome"][0] == "panic" else None})
                    out.append((sc, rows, None))
                except Undecided as e:
                    out.append((sc, [], "%s (%s)" % (e, e.site)))
    _cache[key] = out
    return out


def skeleton(tokens):
    """The emission with every JSON-whitespace token removed: what is left is what a JSON parser sees."""
    out = []
    for t in tokens:
        if t[0] in ("sp", "ind"):
            continue
        if t[0] == "w":
            txt = "".join(ch for ch in t[1] if ch not in " \t\n\r")
            if not txt:
                continue
            t = ("w", txt)
        out.append(t)
    return merge_w(out)


def emit_rule(ctx, res, rule, lockstep_rule=None, mode="layout"):
    """mode 'layout': the exact documented layout (C13).  mode 'skeleton': only the non-whitespace tokens, their order and
    the child arguments (C04: layout changes that only move whitespace do not affect the round trip).  mode 'compact': the
    skeleton of the inline scenarios only (with the compact record nothing is ever expanded; whitespace is C08.nows)."""
    for sc, rows, err in emit_scenarios(ctx):
        if mode == "compact" and sc.size_kind == "Expanded":
            continue
        key = "%s/%s" % (rule, sc.tag())
        if err:
            res.violation(rule, key + "/undecided", "undecided: " + err)
            continue
        rets = [r for r in rows if r["outcome"] == "return"]
        others = [r for r in rows if r["outcome"] != "return"]
        for r in others:
            res.violation(rule, key + "/outcome/" + r["outcome"], "the emitter can %s in scenario %s: %r" % (r["outcome"], sc.tag(), r["panic"]))
        if len(rets) != 1:
            res.violation(rule, key + "/paths", "expected one emission path for scenario %s, found %d" % (sc.tag(), len(rets)))
            continue
        r = rets[0]
        want = merge_w(L.emission(sc.kind, sc.n, sc.size_kind == "Expanded"))
        got = r["tokens"]
        if mode != "layout":
            want, got = skeleton(want), skeleton(got)
        if got != want:
            # first difference
            i = 0
            while i < min(len(got), len(want)) and got[i] == want[i]:
                i += 1
            res.violation(rule, "%s/token%d/%s" % (key, i, "/".join(map(str, got[i])) if i < len(got) else "end"),
                          "%s in scenario %s at token %d: printed %r, expected %r" % (
                              "emission differs from the documented layout" if mode == "layout" else "the JSON tokens written (whitespace ignored) differ from the document",
                              sc.tag(), i, got[i] if i < len(got) else None, want[i] if i < len(want) else None),
                          witness={"printed": [list(t) for t in got], "documented": [list(t) for t in want]})
        else:
            res.ob(True, rule, key, "", sample={"scenario": sc.tag(), "tokens": [" ".join(map(str, t)) for t in got][:14]} if sc.n == 2 else None)
        for o in r["obl"]:
            res.ob(tuple(o[1]) == ("options", "sizes", "index"), rule, key + "/child-args", "a child is printed with other options / sizes / index than the parent's: %r" % (o[1],))
        res.count("emit_scenarios")
    res.floor(rule, "emit_scenarios", 12 if mode != "compact" else 8)


def lockstep_emit(ctx, res, rule):
    """One `sizes[*index]` read per container at entry (before anything is written and before any
    child), followed by exactly one increment before the first child."""
    for sc, rows, err in emit_scenarios(ctx):
        key = "%s/emit/%s" % (rule, sc.tag())
        for r in rows:
            if r["outcome"] != "return":
                continue
            ev = r["events"]
            reads = [e for e in ev if e[0] == "read_size"]
            ok = len(reads) == 1 and ev and ev[0][0] == "read_size" and reads[0][1] == Conc(0)
            res.ob(ok, rule, key + "/read", "the emitter does not read exactly the slot at the incoming index first: %r" % (reads,))
            childs = [e for e in ev if e[0] == "child"]
            if childs:
                res.ob(childs[0][6] == Conc(1), rule, key + "/increment", "`*index` is %r when the first child is printed (must be incoming index + 1)" % (childs[0][6],))
            else:
                res.ob(r["index_after"] == Conc(1), rule, key + "/increment", "`*index` is %r after printing a container without children (must be incoming index + 1)" % (r["index_after"],))
            order = [e[1] for e in childs]
            res.ob(order == ["item%d" % i for i in range(sc.n)], rule, key + "/order", "children are not printed once each, in order: %r" % (order,))


def pre_scenarios(ctx):
    key = ("pre", ctx.info["key"], nmax(ctx))
    if key in _cache:
        return _cache[key]
    pm = printer.PrinterModel(ctx.P)
    out = []
    for kind in ("array", "object"):
        for n in range(0, nmax(ctx) + 1):
            combos = [("None", ["W"] * n)]
            for lim in ("Always", "Item", "Width", "ItemOrWidth"):
                combos.append((lim, ["W"] * n))
            for j in range(n):
                cs = ["W"] * n
                cs[j] = "E"
                combos.append(("None", cs))
            for lim, cs in combos:
                sc = printer.Scenario(n, child_sizes=cs, limit=lim, kind=kind)
                pm.names = {}
                try:
                    rs = pm.run_precompute(sc)
                    rows = []
                    for r in rs:
                        row = {"outcome": r["outcome"][0], "events": r["events"], "names": dict(pm.names)}
                        if r["outcome"][0] == "return":
                            sz = r["size"]
                            vt = ctx.P.types[sz.ty]["variants"][sz.variant]["name"]
                            row["size_kind"] = vt
                            row["width"] = sz.fields[0] if vt == "Width" else None
                            row["slots"] = r["slots"]
                            row["pushed"] = r["pushed"]
                            row["preds"] = list(r["state"].preds)
                            row["cons"] = dict(r["state"].cons)
                            row["size"] = sz
                        else:
                            row["panic"] = r["outcome"][1] if len(r["outcome"]) > 1 else None
                        rows.append(row)
                    out.append((sc, rows, None))
                except Undecided as e:
                    out.append((sc, [], "%s (%s)" % (e, e.site)))
    _cache[key] = out
    return out


def ref_width_syms(sc, names):
    """Reference width as a linear form over this run's symbol ids."""
    inv = {}
    for sid, n in names.items():
        m = re.match(r"kw\(key(\d+)\)$", n)
        inv["kw" + m.group(1) if m else n] = sid
    c, co = L.width(sc.kind, sc.n)
    out = {}
    for n, k in co.items():
        if n not in inv:
            return None, "the implementation never obtains `%s`" % n
        out[inv[n]] = k
    return (c, out), None


def width_rule(ctx, res, wrule, lrule):
    for sc, rows, err in pre_scenarios(ctx):
        key = "%s" % sc.tag()
        if err:
            res.violation(wrule, "%s/%s/undecided" % (wrule, key), "undecided: " + err)
            continue
        for r in rows:
            if r["outcome"] != "return":
                res.violation(wrule, "%s/%s/outcome/%s" % (wrule, key, r["outcome"]), "size pre-computation can %s in scenario %s: %r" % (r["outcome"], key, r.get("panic")))
        rets = [r for r in rows if r["outcome"] == "return"]
        res.count("precompute_scenarios")
        any_e = "E" in sc.child_sizes
        for r in rets:
            names = r["names"]
            refw, why = ref_width_syms(sc, names)
            pfx = "array_limit" if sc.kind == "array" else "object_limit"
            if any_e:
                res.ob(r["size_kind"] == "Expanded", lrule, "%s/%s/child-expanded" % (lrule, key), "a container with an expanded child is sized %s (must be Expanded)" % r["size_kind"])
                continue
            # truth of the documented atoms on this path
            inv = {n: s for s, n in names.items()}
            items_gt = width_gt = None
            if pfx + ".items" in inv:
                d = r["cons"].get(inv[pfx + ".items"])
                if d is not None:
                    if iset.hi(d) < sc.n:
                        items_gt = True
                    elif iset.lo(d) >= sc.n:
                        items_gt = False
            if pfx + ".width" in inv and refw is not None:
                wsym = inv[pfx + ".width"]
                want = linear.atom("Gt", refw, (0, {wsym: 1}))
                for e, t in r["preds"]:
                    if isinstance(e, Expr) and e.op in ("Gt", "Ge", "Lt", "Le") and t == 1:
                        try:
                            at = linear.atom(e.op, linear.lin(e.args[0]), linear.lin(e.args[1]))
                        except linear.NotLinear:
                            continue
                        if at == want:
                            width_gt = True
                        elif at == linear.negate(want):
                            width_gt = False
            exp = three(sc.limit, items_gt, width_gt)
            got = r["size_kind"] == "Expanded"
            if sc.limit == "None":
                # plain width comparison
                if refw is None:
                    res.violation(wrule, "%s/%s/missing" % (wrule, key), "width of %s: %s" % (key, why))
                    continue
                if r["size_kind"] != "Width":
                    res.violation(lrule, "%s/%s/none-expands" % (lrule, key), "without a limit the container is expanded")
                    continue
                try:
                    gotw = linear.lin(r["width"])
                except linear.NotLinear:
                    res.violation(wrule, "%s/%s/nonlinear" % (wrule, key), "the computed width is not a sum of option fields and child widths: %r" % (r["width"],))
                    continue
                if (gotw[0], {k: v for k, v in gotw[1].items()}) != (refw[0], refw[1]):
                    res.violation(wrule, "%s/%s" % (wrule, key),
                                  "pre-computed width of the inline form differs from the characters the emitter prints (%s): computed %s, printed %s" % (
                                      key, linear.show(gotw, names), linear.show(refw, names)),
                                  witness={"computed": linear.show(gotw, names), "printed": linear.show(refw, names)})
                else:
                    res.ob(True, wrule, "%s/%s" % (wrule, key), "", sample={"scenario": key, "width": linear.show(gotw, names)} if sc.n in (0, 2) else None)
                continue
            if exp is None:
                res.violation(lrule, "%s/%s/undistinguished" % (lrule, key),
                              "limit %s: on one path the implementation does not decide the documented condition (items>threshold: %r, width>threshold: %r) yet returns %s" % (
                                  sc.limit, items_gt, width_gt, r["size_kind"]))
                continue
            res.ob(got == exp, lrule, "%s/%s/%s" % (lrule, key, "items_gt=%r,width_gt=%r" % (items_gt, width_gt)),
                   "limit %s with n=%d: items>threshold is %r, width>threshold is %r: documented %s, implementation %s" % (
                       sc.limit, sc.n, items_gt, width_gt, "Expanded" if exp else "inline", r["size_kind"]),
                   sample={"scenario": key, "items_gt": items_gt, "width_gt": width_gt, "decision": r["size_kind"]} if sc.n == 2 else None)
            if not got and refw is not None:
                try:
                    gotw = linear.lin(r["width"])
                    res.ob((gotw[0], gotw[1]) == (refw[0], refw[1]), wrule, "%s/%s/limited" % (wrule, key), "width under limit %s differs: computed %s, printed %s" % (
                        sc.limit, linear.show(gotw, names), linear.show(refw, names)))
                except linear.NotLinear:
                    pass
    res.floor(wrule, "precompute_scenarios", 30)


def three(limit, items_gt, width_gt):
    if limit == "None":
        return False
    if limit == "Always":
        return True
    if limit == "Item":
        return items_gt
    if limit == "Width":
        return width_gt
    if limit == "ItemOrWidth":
        if items_gt is True or width_gt is True:
            return True
        if items_gt is False and width_gt is False:
            return False
        return None
    return None


def lockstep_pre(ctx, res, rule):
    """The pre-computation reserves its slot before any child is sized, sizes every child once in
    order with the same options and sizes vector, and stores the returned size in that slot."""
    for sc, rows, err in pre_scenarios(ctx):
        if err:
            continue
        key = "%s/pre/%s" % (rule, sc.tag())
        for r in rows:
            if r["outcome"] != "return":
                continue
            ev = r["events"]
            kinds = [e[0] for e in ev]
            pushes = [i for i, e in enumerate(ev) if e[0] == "push" and e[1] == "sizes"]
            childs = [i for i, e in enumerate(ev) if e[0] == "child_size"]
            res.ob(len(pushes) == 1 and (not childs or pushes[0] < childs[0]), rule, key + "/reserve", "the container's slot is not reserved exactly once before its children are sized (pushes at %r, children at %r)" % (pushes, childs))
            order = [ev[i][1] for i in childs]
            res.ob(order == ["item%d" % i for i in range(sc.n)], rule, key + "/children", "children are not sized once each, in order (%r): the sizes vector would be consumed out of step" % (order,))
            res.ob(all(ev[i][2] == "options" and ev[i][3] == "sizes" for i in childs), rule, key + "/child-args", "a child is sized with other options / another sizes vector")
            slots = r["slots"]
            ok = len(slots) == 1 and slots[0][1] == r["size"]
            res.ob(ok, rule, key + "/store", "the size returned (%r) is not the one stored in the reserved slot (%r)" % (r["size"], slots))


# ---- string width --------------------------------------------------------------------------------------------------
def strwidth_rule(ctx, res):
    P = ctx.P
    rule = "C13.strwidth"
    root = P.inst[P.roots["root_printed_string_size"]]
    classes = {}

    def run_chars(k):
        it = tables.mk(P)
        st = State()
        syms = []

        def nxt(it_, st_, inst, args, call):
            rty = ret_ty(it_, call)
            i = st_.ctr.get("ch", 0)
            if i >= k:
                return mk_none(rty)
            st_.ctr["ch"] = i + 1
            c = st_.fresh_sym(iset.CHAR, kind="input", idx=i)
            return mk_some(rty, c)

        it.summaries.insert(0, (lambda inst: bool(tables.CHARS_NEXT.search(inst["name"])), nxt))
        it.overflow_hooks.append(lambda st_, base, a, b, tid: None)
        it.push_frame(st, root["id"], [Top(root["locals"][1], "s")], None, None)
        return it, it.run(st)

    try:
        it0, outs0 = run_chars(0)
        base = [o.outcome[1] for o in outs0 if o.outcome[0] == "return"]
        res.ob(base == [Conc(2)], rule, rule + "/empty", "the printed size of an empty string is %r (must be 2: the two quotes)" % (base,), sample={"string": "", "size": 2})
        it1, outs1 = run_chars(1)
        for o in outs1:
            if o.outcome[0] != "return" or not isinstance(o.outcome[1], Conc):
                res.violation(rule, rule + "/outcome", "printed_string_size: unexpected outcome %r" % (o.outcome[:2],))
                continue
            sym = [s for s, info in o.syminfo.items() if info.get("kind") == "input"][0]
            dom = o.cons[sym]
            inc = o.outcome[1].v - 2
            # compare with the text string_literal writes (RFC 8785 table, checked by C08.table)
            if iset.size(dom) <= 128:
                for c in iset.elems(dom):
                    want = len(tables.rfc8785_escape(c))
                    res.ob(inc == want, rule, "%s/char/U+%04X" % (rule, c), "U+%04X counts %d columns but is printed with %d characters" % (c, inc, want),
                           sample={"char": "U+%04X" % c, "columns": inc} if c in (0, 9, 0x22) else None)
            else:
                res.ob(inc == 1, rule, rule + "/raw-class", "characters %s count %d columns each but are printed as one character" % (iset.show(dom, True), inc),
                       sample={"class": iset.show(dom, True), "columns": inc})
                bad = iset.inter(dom, iset.mk((0, 0x1F), (0x22, 0x22), (0x5C, 0x5C)))
                res.ob(iset.is_empty(bad), rule, rule + "/raw-class-special", "escaped characters %s are counted as one column" % iset.show(bad, True))
            res.count("string_width_classes")
        # uniformity: two characters add up
        it2, outs2 = run_chars(2)
        for o in outs2:
            if o.outcome[0] != "return" or not isinstance(o.outcome[1], Conc):
                res.violation(rule, rule + "/outcome2", "printed_string_size on two characters: unexpected outcome %r" % (o.outcome[:2],))
                continue
            ids = sorted((info.get("idx"), s) for s, info in o.syminfo.items() if info.get("kind") == "input")
            incs = []
            for _, s in ids:
                c = iset.lo(o.cons[s])
                incs.append(len(tables.rfc8785_escape(c)))
            res.ob(o.outcome[1].v == 2 + sum(incs), rule, rule + "/additive", "the size of a two-character string is not 2 + the sum of its characters' columns")
    except Undecided as e:
        res.violation(rule, rule + "/undecided", "undecided: %s (%s)" % (e, e.site))
    res.floor(rule, "string_width_classes", 8)


# ---- lemmas on Spaces / IndentBy / Indent ------------------------------------------------------------------------------
def lemma_rule(ctx, res, rule, exact=True):
    """exact=True (C13): Spaces / IndentBy / Indent write exactly n spaces / k units.  exact=False (C04): they write nothing
    but JSON whitespace (how much is a layout matter)."""
    P = ctx.P

    def run_loop(inst, selfval, k):
        """Interpret a `for _ in 0..n { .. }` Display impl with the range scripted to yield k items."""
        it = tables.mk(P)
        st = State()
        ranges = []

        def rnext(it_, st_, i_, args, call):
            rty = ret_ty(it_, call)
            r = it_.read_path(st_, args[0].base, args[0].proj)
            ranges.append(r)
            j = st_.ctr.get("rng", 0)
            if j >= k:
                return mk_none(rty)
            st_.ctr["rng"] = j + 1
            return mk_some(rty, Top(None, "i"))

        it.summaries.insert(0, (lambda i_: bool(re.search(r"impl std::iter::Iterator for std::ops::Range<(usize|u8)>>::next$", i_["name"])), rnext))
        it.summaries.insert(0, (lambda i_: i_["name"] == "<json_syntax::print::Indent as std::fmt::Display>::fmt" and inst["name"] != i_["name"],
                                lambda it_, st_, i_, args, call: (st_.emit("unit", it_.read_path(st_, args[0].base, args[0].proj)), Agg(ret_ty(it_, call), 0, (Agg(None, 0, ()),)))[1]))
        cell = st.new_obj(selfval)
        it.push_frame(st, inst["id"], [Ref(("H", cell.id), ()), Top(None, "f")], None, None)
        outs = it.run(st)
        return outs, ranges

    def check(name_rx, mk_self, expect, label, optional=False):
        insts = [i for i in P.inst if re.search(name_rx, i["name"])]
        if not insts and optional:
            res.infos.append("%s: %s is not part of the printing program (the indentation characters are written elsewhere): covered by the IndentBy grid" % (rule, label))
            return
        if len(insts) != 1:
            res.violation(rule, "%s/%s/missing" % (rule, label), "instance %s not found (anchor lost)" % name_rx)
            return
        inst = insts[0]
        for k in (0, 1, 3):
            st0 = State()
            try:
                selfval, nsym = mk_self(inst)
                outs, ranges = run_loop(inst, selfval, k)
            except Undecided as e:
                res.violation(rule, "%s/%s/undecided" % (rule, label), "undecided: %s" % e)
                return
            rets = [o for o in outs if o.outcome[0] == "return"]
            ok = len(outs) == 1 and len(rets) == 1
            ev = [tuple(e) for e in rets[0].events] if rets else None
            want = [expect(selfval)] * k
            if exact:
                res.ob(ok and ev == want, rule, "%s/%s/k=%d" % (rule, label, k), "%s with a range of %d items writes %r (expected %r)" % (label, k, ev, want),
                       sample={"lemma": label, "iterations": k, "writes": [str(x) for x in (ev or [])]} if k == 3 else None)
            else:
                ws = ok and all(e == expect(selfval) or (e[0] == "w" and isinstance(e[1], Str) and e[1].s.strip(" \t\n\r") == "") for e in ev)
                res.ob(ws, rule, "%s/%s/k=%d" % (rule, label, k), "%s writes something other than JSON whitespace: %r" % (label, ev),
                       sample={"lemma": label, "iterations": k, "writes": [str(x) for x in (ev or [])]} if k == 3 else None)
            if ranges and exact:
                r0 = ranges[0]
                okr = isinstance(r0, Agg) and r0.fields[0] == Conc(0) and r0.fields[1] == nsym
                res.ob(okr, rule, "%s/%s/range" % (rule, label), "%s does not iterate over 0..n with n its own count: %r" % (label, r0))
        res.count("lemmas")

    def ty_of(inst):
        return P.types[inst["locals"][1]]["to"]

    def spaces_self(inst):
        n = Top(None, "n")
        return Agg(ty_of(inst), 0, (n,)), n

    # Spaces(n) for n = 0, 1, 3: writes n spaces (concrete runs: it does not matter whether the loop is written here or in a helper)
    def spaces_grid():
        insts = [i for i in P.inst if re.search(r"^<json_syntax::print::Spaces as std::fmt::Display>::fmt$", i["name"])]
        if len(insts) != 1:
            res.violation(rule, "%s/Spaces/missing" % rule, "Display for Spaces not found (anchor lost)")
            return
        inst = insts[0]
        for n in (0, 1, 3):
            key = "%s/Spaces(%d)" % (rule, n)
            try:
                text = run_concrete(inst, Agg(ty_of(inst), 0, (Conc(n),)))
                if exact:
                    res.ob(text == " " * n, rule, key, "Spaces(%d) writes %r" % (n, text), sample={"lemma": "Spaces", "n": n} if n == 3 else None)
                else:
                    res.ob(text is not None and text.strip(" \t\n\r") == "", rule, key, "Spaces(%d) writes something other than JSON whitespace: %r" % (n, text))
            except Undecided as e:
                res.violation(rule, key + "/undecided", "undecided: %s" % e)
        res.count("lemmas")

    def run_concrete(inst, selfval):
        """Interpret a Display impl on a concrete receiver (ranges with constant bounds are stepped exactly); returns the text
        written, or None if the run is not a single returning path of plain writes."""
        it = tables.mk(P)
        st = State()

        def rnext(it_, st_, i_, args, call):
            rty = ret_ty(it_, call)
            r = it_.read_path(st_, args[0].base, args[0].proj)
            if not (isinstance(r, Agg) and all(isinstance(x, Conc) for x in r.fields)):
                raise Undecided("range with non-constant bounds %r" % (r,))
            lo, hi = r.fields[0].v, r.fields[1].v
            if lo >= hi:
                return mk_none(rty)
            it_.write_path(st_, args[0].base, args[0].proj, Agg(r.ty, r.variant, (Conc(lo + 1), Conc(hi))))
            return mk_some(rty, Conc(lo))

        it.summaries.insert(0, (lambda i_: bool(re.search(r"impl std::iter::Iterator for std::ops::Range<(usize|u8)>>::next$", i_["name"])), rnext))
        cell = st.new_obj(selfval)
        it.push_frame(st, inst["id"], [Ref(("H", cell.id), ()), Top(None, "f")], None, None)
        outs = it.run(st)
        rets = [o for o in outs if o.outcome[0] == "return"]
        if len(outs) != 1 or len(rets) != 1:
            return None
        ev = [tuple(e) for e in rets[0].events]
        if not all(e[0] == "w" and isinstance(e[1], Str) for e in ev):
            return None
        return "".join(e[1].s for e in ev)

    spaces_grid()

    def indentby_self(inst):
        n = Top(None, "k")
        unit = Top(None, "unit")
        return Agg(ty_of(inst), 0, (unit, n)), n

    # IndentBy(unit, k): decided on a grid of concrete units and depths, with the unit's own Display interpreted too (so it
    # does not matter whether IndentBy loops over the unit's Display or writes the characters itself): the text written is
    # n*k spaces for Spaces(n), n*k tabs for Tabs(n); for C04 (exact=False) only "nothing but JSON whitespace" is demanded
    def indentby_grid():
        insts = [i for i in P.inst if re.search(r"^<json_syntax::print::IndentBy as std::fmt::Display>::fmt$", i["name"])]
        it_ty_ = [t for t in P.types if t.get("name") == "json_syntax::print::Indent"]
        if len(insts) != 1 or not it_ty_:
            res.violation(rule, "%s/IndentBy/missing" % rule, "IndentBy's Display or the Indent type not found (anchor lost)")
            return
        inst = insts[0]
        vnames = [v["name"] for v in it_ty_[0]["variants"]]
        for vname_, ch in (("Spaces", " "), ("Tabs", "\t")):
            for n in (0, 1, 2):
                for k in (0, 1, 3):
                    key = "%s/IndentBy/%s(%d)x%d" % (rule, vname_, n, k)
                    try:
                        it = tables.mk(P)
                        st = State()

                        def rnext(it_, st_, i_, args, call):
                            rty = ret_ty(it_, call)
                            r = it_.read_path(st_, args[0].base, args[0].proj)
                            if not (isinstance(r, Agg) and all(isinstance(x, Conc) for x in r.fields)):
                                raise Undecided("range with non-constant bounds %r" % (r,))
                            lo, hi = r.fields[0].v, r.fields[1].v
                            if lo >= hi:
                                return mk_none(rty)
                            it_.write_path(st_, args[0].base, args[0].proj, Agg(r.ty, r.variant, (Conc(lo + 1), Conc(hi))))
                            return mk_some(rty, Conc(lo))

                        it.summaries.insert(0, (lambda i_: bool(re.search(r"impl std::iter::Iterator for std::ops::Range<(usize|u8)>>::next$", i_["name"])), rnext))
                        selfval = Agg(ty_of(inst), 0, (Agg(it_ty_[0]["id"], vnames.index(vname_), (Conc(n),)), Conc(k)))
                        cell = st.new_obj(selfval)
                        it.push_frame(st, inst["id"], [Ref(("H", cell.id), ()), Top(None, "f")], None, None)
                        outs = it.run(st)
                        rets = [o for o in outs if o.outcome[0] == "return"]
                        ok = len(outs) == 1 and len(rets) == 1
                        text = None
                        if ok:
                            ev = [tuple(e) for e in rets[0].events]
                            if all(e[0] == "w" and isinstance(e[1], Str) for e in ev):
                                text = "".join(e[1].s for e in ev)
                            else:
                                ok = False
                        if exact:
                            res.ob(ok and text == ch * (n * k), rule, key, "IndentBy(%s(%d), %d) writes %r, expected %r" % (vname_, n, k, text, ch * (n * k)),
                                   sample={"lemma": "IndentBy", "unit": "%s(%d)" % (vname_, n), "depth": k} if (n, k) == (2, 3) else None)
                        else:
                            res.ob(ok and text.strip(" \t\n\r") == "", rule, key, "IndentBy(%s(%d), %d) writes something other than JSON whitespace: %r" % (vname_, n, k, text))
                    except Undecided as e:
                        res.violation(rule, key + "/undecided", "undecided: %s" % e)
        res.count("lemmas")

    indentby_grid()

    def indent_self(variant):
        def f(inst):
            n = Top(None, "n")
            return Agg(ty_of(inst), variant, (n,)), n
        return f

    # (Indent's own Display is covered by the IndentBy grid, which interprets it for n = 0, 1, 2)
    res.floor(rule, "lemmas", 2)


# ---- presets ---------------------------------------------------------------------------------------------------------------------
def noline_rule(ctx, res):
    from . import C08
    for root in ("root_print_options_inline", "root_print_options_compact"):
        try:
            fields, v = C08.preset_value(ctx.P, root)
        except Undecided as e:
            res.violation("C13.noline", "C13.noline/undecided/" + root, str(e))
            continue
        for n in ("array_limit", "object_limit"):
            d = C08.describe_field(ctx.P, fields[n])
            res.ob(d == ("None",), "C13.noline", "C13.noline/%s/%s" % (root[19:], n), "Options::%s().%s = %r: a limit can expand a container, so a line break can be printed" % (root[19:], n, d),
                   sample={"preset": root[19:], n: "None"})
    # with limits None the pre-computation never returns Expanded unless a child is expanded (C13.limit, limit=None rows)


def nows_rule(ctx, res, preset, rule):
    """With the compact record (all spacing 0, limits None) the emitters write no whitespace token:
    every `sp` token names a field that is 0 in the record and line breaks / indentation occur only under
    Size::Expanded, which limits None never produce (C13.limit rows with limit=None)."""
    from . import C08
    fields, v = C08.preset_value(ctx.P, "root_print_options_" + preset)
    zero = {n for n, val in fields.items() if val == Conc(0)}
    for sc, rows, err in emit_scenarios(ctx):
        if err or sc.size_kind != "Width":
            continue
        for r in rows:
            if r["outcome"] != "return":
                continue
            for t in r["tokens"]:
                if t[0] == "sp":
                    res.ob(t[1] in zero, rule, "%s/%s/%s" % (rule, sc.tag(), t[1]), "inline emission prints %s spaces, which is not 0 in Options::%s()" % (t[1], preset))
                elif t[0] == "w":
                    res.ob(not any(ch in t[1] for ch in " \t\n\r"), rule, "%s/%s/literal" % (rule, sc.tag()), "inline emission writes whitespace literally: %r" % (t[1],))
                elif t[0] == "ind":
                    res.violation(rule, "%s/%s/indent" % (rule, sc.tag()), "inline emission writes indentation")
    for sc, rows, err in pre_scenarios(ctx):
        if err or sc.limit != "None" or "E" in sc.child_sizes:
            continue
        for r in rows:
            if r["outcome"] == "return":
                res.ob(r["size_kind"] == "Width", rule, "%s/pre/%s" % (rule, sc.tag()), "with limits None and inline children the container is nevertheless expanded")
