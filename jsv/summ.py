"""Summary table of E2 (the trusted base): abstract semantics of std / smallvec / smallstr /
hashbrown entry points that the analysed code calls.  Each summary is one small function.
json-syntax's own functions are interpreted, not summarised (except the private hash-index
anchors listed in ANCHOR_SUMMARIES, which abstract hashbrown bookkeeping)."""
import re

from . import iset
from .absint import (FALSE, FUNCS, TRUE, UNINIT, UNIT, Agg, Conc, Expr, FnItem, IndexOnAbstract, Obj, Ref, State, Str, Sym, Top,
                     Undecided, Uninit, V)


# ---------------------------------------------------------------------------------------------
# ordinal values: positions (read indices) and per-object push counts.  They support exactly the
# operations the analysed code performs on them and are renamed order-preservingly when states
# are canonicalised.
# ---------------------------------------------------------------------------------------------
class Ordv(V):
    __slots__ = ("space", "n")

    def __init__(self, space, n):
        self.space = space
        self.n = n

    def __eq__(self, o):
        return isinstance(o, Ordv) and o.space == self.space and o.n == self.n

    def __hash__(self):
        return hash(("ord", self.space, self.n))

    def __repr__(self):
        return "%s#%d" % (self.space, self.n)


class Ordlen(V):
    """UTF-8 length of the k-th read character (the `len` field of its DecodedChar)."""
    __slots__ = ("k",)

    def __init__(self, k):
        self.k = k

    def __eq__(self, o):
        return isinstance(o, Ordlen) and o.k == self.k

    def __hash__(self):
        return hash(("ordlen", self.k))

    def __repr__(self):
        return "len#%d" % self.k


# ---------------------------------------------------------------------------------------------
# heap models
# ---------------------------------------------------------------------------------------------
class AVec:
    """Exact small vector."""
    kind = "avec"

    def __init__(self, items=(), role="vec"):
        self.items = tuple(items)
        self.role = role

    def length(self, it, st):
        return Conc(len(self.items))

    def __repr__(self):
        return "AVec%r" % (self.items,)


class AIter:
    """Iterator over the elements of an exact vector (slice::Iter / IterMut): position + bounds."""
    kind = "aiter"

    def __init__(self, vec, pos, end, role="iter"):
        self.vec = vec
        self.pos = pos
        self.end = end
        self.role = role

    def __repr__(self):
        return "AIter(obj%d,%d..%d)" % (self.vec, self.pos, self.end)


def closure_instance(P, tid):
    """Monomorphic instance id of the body of a closure type (None if it cannot be identified uniquely)."""
    t = P.types[tid]
    if t["k"] != "closure":
        return None
    cands = [i_ for i_ in P.inst if i_.get("def_kind") == "Closure" and i_.get("has_mir") and i_["path"] == t.get("name")]
    if len(cands) > 1:
        mono = t["s"][len("{closure@"):-1] if t["s"].startswith("{closure@") else None
        exact = [i_ for i_ in cands if i_["name"] == mono]
        if exact:
            cands = exact
    return cands[0]["id"] if len(cands) == 1 else None


class AZip:
    """`a.zip(b)` of two exactly modelled slice iterators."""
    kind = "azip"

    def __init__(self, a, b):
        self.a = a
        self.b = b

    def __repr__(self):
        return "AZip(obj%d,obj%d)" % (self.a, self.b)


class LogVec:
    """Append-only sequence whose contents are not tracked: every push is an event.  `n` is the
    number of pushes so far (an ordinal in space ('len', obj id)); `cells` keeps the elements
    that the program may still mutate (ordinal -> cell object id)."""
    kind = "log"

    def __init__(self, role, n=0, cells=()):
        self.role = role
        self.n = n
        self.cells = tuple(cells)

    def __repr__(self):
        return "Log<%s>#%d%r" % (self.role, self.n, self.cells)


def _obj_of(it, st, ref, what):
    """Object id of the collection behind `&mut Vec<T>` / `&Vec<T>` / `&[T]` argument."""
    if isinstance(ref, Obj):
        return ref.id
    if isinstance(ref, Ref):
        if ref.base[0] == "H" and not ref.proj and not isinstance(st.heap[ref.base[1]], V):
            return ref.base[1]
        v = it.read_path(st, ref.base, ref.proj)
        if isinstance(v, Obj):
            return v.id
        if isinstance(v, Ref):
            return _obj_of(it, st, v, what)
        raise Undecided("%s: receiver is not a modelled collection: %r" % (what, v))
    raise Undecided("%s: receiver %r" % (what, ref))


def mk_some(ty_opt, v):
    return Agg(ty_opt, 1, (v,))


def mk_none(ty_opt):
    return Agg(ty_opt, 0, ())


def ret_ty(it, call):
    return it.place_ty(call["frame"], call["term"]["dest"])


class Lib:
    """Generic collection summaries, parameterised by a policy: role_of(elem type string) ->
    ('exact'|'log', role name)."""

    def __init__(self, role_of):
        self.role_of = role_of

    def elem_ty(self, it, inst):
        return it.p.types[inst["args"][0]]["s"] if inst["args"] else "?"

    def install(self, it):
        S = it.summaries
        path = lambda rx: (lambda inst, _rx=re.compile(rx): bool(_rx.search(inst["path"])))
        name = lambda rx: (lambda inst, _rx=re.compile(rx): bool(_rx.search(inst["name"])))
        S.append((path(r"^std::vec::Vec::<T>::new$|^<std::vec::Vec<T> as std::default::Default>::default$|^std::vec::Vec::<T>::with_capacity$"), self.vec_new))
        S.append((path(r"^smallvec::SmallVec::<A>::new$|^smallstr::string::SmallString::<A>::new$|^<smallstr::string::SmallString<A> as std::default::Default>::default$"), self.small_new))
        S.append((path(r"^std::vec::Vec::<T, A>::push$|^smallvec::SmallVec::<A>::push$|^smallstr::string::SmallString::<A>::push$"), self.push))
        S.append((path(r"^std::vec::Vec::<T, A>::pop$"), self.pop))
        S.append((path(r"^std::vec::Vec::<T, A>::len$|^core::slice::<impl \[T\]>::len$|^smallvec::SmallVec::<A>::len$"), self.len))
        S.append((path(r"^std::vec::Vec::<T, A>::is_empty$|^core::slice::<impl \[T\]>::is_empty$"), self.is_empty))
        S.append((path(r"^<std::vec::Vec<T, A> as std::ops::Deref>::deref$|^<std::vec::Vec<T, A> as std::ops::DerefMut>::deref_mut$|^std::vec::Vec::<T, A>::as_slice$|^std::vec::Vec::<T, A>::as_mut_slice$"), self.deref))
        S.append((path(r"^core::slice::<impl \[T\]>::last$"), self.last))
        S.append((path(r"^core::slice::<impl \[T\]>::get_mut$|^core::slice::<impl \[T\]>::get$"), self.get))
        S.append((path(r"^<&'a (mut )?std::vec::Vec<T, A> as std::iter::IntoIterator>::into_iter$|^<&'a (mut )?\[T\] as std::iter::IntoIterator>::into_iter$|^core::slice::iter::<impl std::iter::IntoIterator for &'a (mut )?\[T\]>::into_iter$|^core::slice::<impl \[T\]>::iter(_mut)?$|^std::vec::Vec::<T, A>::iter(_mut)?$"), self.slice_iter))
        S.append((path(r"^<std::vec::Vec<T, A> as std::ops::Index(Mut)?<I>>::index(_mut)?$"), self.vec_index))
        S.append((path(r"^<std::vec::Vec<T, A> as std::iter::IntoIterator>::into_iter$"), self.vec_into_iter))
        S.append((path(r"^<std::vec::IntoIter<T, A> as std::iter::Iterator>::next$"), self.into_iter_next))
        S.append((path(r"^<std::vec::IntoIter<T, A> as std::iter::ExactSizeIterator>::len$|^<std::slice::Iter<'a, T> as std::iter::ExactSizeIterator>::len$|^std::iter::ExactSizeIterator::len$"), self.iter_len))
        S.append((path(r"^<std::slice::Iter(Mut)?<'a, T> as std::iter::Iterator>::next$"), self.slice_iter_next))
        S.append((path(r"^<std::slice::Iter(Mut)?<'a, T> as std::iter::DoubleEndedIterator>::next_back$"), self.slice_iter_next_back))
        S.append((path(r"^core::slice::<impl \[T\]>::first$"), self.first))
        S.append((path(r"^<std::slice::Iter<'a, T> as std::iter::Iterator>::(all|any)$"), self.slice_iter_all_any))
        S.append((path(r"^<std::slice::Iter(Mut)?<'a, T> as std::iter::Iterator>::for_each$"), self.slice_iter_for_each))
        S.append((path(r"^std::iter::Iterator::for_each$|^<std::iter::Enumerate<I> as std::iter::Iterator>::for_each$"), self.enumerate_for_each))
        S.append((path(r"^std::iter::Iterator::for_each$|^<std::iter::(Filter|Chain)<.*> as std::iter::Iterator>::for_each$"), self.pipeline_for_each))
        S.append((path(r"^std::iter::Iterator::zip$"), self.iter_zip))
        S.append((path(r"^<std::iter::Zip<A, B> as std::iter::Iterator>::next$"), self.zip_next))
        S.append((path(r"^<std::iter::Zip<A, B> as std::iter::Iterator>::(all|any)$|^std::iter::Iterator::(all|any)$"), self.zip_all_any))
        S.append((path(r"^core::slice::<impl \[T\]>::windows$"), self.slice_windows))
        S.append((path(r"^<std::slice::Windows<'a, T> as std::iter::Iterator>::next$"), self.windows_next))
        S.append((path(r"^<std::slice::Windows<'a, T> as std::iter::Iterator>::(all|any)$|^std::iter::Iterator::(all|any)$"), self.windows_all_any))
        S.append((path(r"^core::str::<impl str>::chars$"), self.str_chars))
        S.append((path(r"^<std::str::Chars<'a> as std::iter::Iterator>::next$"), self.chars_next))
        S.append((path(r"^std::vec::Vec::<T, A>::remove$"), self.vec_remove))
        S.append((path(r"^std::vec::Vec::<T, A>::swap_remove$"), self.vec_swap_remove))
        S.append((path(r"^std::vec::Vec::<T, A>::insert$"), self.vec_insert))
        S.append((path(r"^core::slice::<impl \[T\]>::binary_search$"), self.binary_search))
        S.append((path(r"^std::mem::swap$"), self.mem_swap))
        S.append((path(r"^std::mem::replace$"), self.mem_replace))
        S.append((path(r"^std::mem::take$"), self.mem_take))
        S.append((path(r"^std::char::methods::<impl char>::to_digit$"), self.to_digit))
        S.append((path(r"^std::char::methods::<impl char>::from_u32$|^std::char::from_u32$"), self.from_u32))
        S.append((path(r"^std::ops::RangeInclusive::<Idx>::contains$"), self.range_contains))
        S.append((path(r"^std::char::methods::<impl char>::len_utf8$"), self.len_utf8))
        S.append((path(r"^std::char::methods::<impl char>::is_control$"), self.char_class(iset.mk((0, 0x1F), (0x7F, 0x9F)))))
        S.append((path(r"^std::char::methods::<impl char>::is_ascii_digit$"), self.char_class(iset.mk((0x30, 0x39)))))
        S.append((path(r"^std::char::methods::<impl char>::is_ascii$"), self.char_class(iset.mk((0, 0x7F)))))
        S.append((path(r"^std::char::methods::<impl char>::is_ascii_control$"), self.char_class(iset.mk((0, 0x1F), (0x7F, 0x7F)))))
        S.append((path(r"^std::char::methods::<impl char>::is_ascii_hexdigit$"), self.char_class(iset.mk((0x30, 0x39), (0x41, 0x46), (0x61, 0x66)))))

    # -- constructors -------------------------------------------------------------------------
    def vec_new(self, it, st, inst, args, call):
        et = self.elem_ty(it, inst)
        mode, role = self.role_of(et)
        if mode == "exact":
            return st.new_obj(AVec((), role))
        if mode == "log":
            o = st.new_obj(LogVec(role))
            st.emit("new", role, o.id)
            return o
        return NotImplemented

    def small_new(self, it, st, inst, args, call):
        role = "str" if "SmallString" in inst["path"] else "bytes"
        o = st.new_obj(LogVec(role))
        st.emit("new", role, o.id)
        return o

    # -- mutation ----------------------------------------------------------------------------
    def push(self, it, st, inst, args, call):
        oid = _obj_of(it, st, args[0], "push")
        m = st.heap[oid]
        if isinstance(m, AVec):
            st.heap[oid] = AVec(m.items + (args[1],), m.role)
            return UNIT
        if isinstance(m, LogVec):
            cells = m.cells
            if m.role in CELL_ROLES:
                cell = st.new_obj(args[1])
                cells = cells + ((m.n, cell.id),)
            st.emit("push", m.role, oid, m.n, args[1])
            st.heap[oid] = LogVec(m.role, m.n + 1, cells)
            return UNIT
        raise Undecided("push on %r" % (m,))

    def pop(self, it, st, inst, args, call):
        oid = _obj_of(it, st, args[0], "pop")
        m = st.heap[oid]
        rty = ret_ty(it, call)
        if isinstance(m, AVec):
            if m.items:
                st.heap[oid] = AVec(m.items[:-1], m.role)
                return mk_some(rty, m.items[-1])
            return mk_none(rty)
        raise Undecided("pop on %r" % (m,))

    def len(self, it, st, inst, args, call):
        a = args[0]
        if isinstance(a, Str):
            return Conc(len(a.s.encode() if isinstance(a.s, str) else a.s))
        oid = _obj_of(it, st, a, "len")
        m = st.heap[oid]
        if isinstance(m, AVec):
            return Conc(len(m.items))
        if isinstance(m, LogVec):
            return Ordv(("len", oid), m.n)
        raise Undecided("len on %r" % (m,))

    def is_empty(self, it, st, inst, args, call):
        oid = _obj_of(it, st, args[0], "is_empty")
        m = st.heap[oid]
        if isinstance(m, AVec):
            return Conc(0 if m.items else 1)
        raise Undecided("is_empty on %r" % (m,))

    def deref(self, it, st, inst, args, call):
        oid = _obj_of(it, st, args[0], "deref")
        return Ref(("H", oid), ())

    def last(self, it, st, inst, args, call):
        oid = _obj_of(it, st, args[0], "last")
        m = st.heap[oid]
        rty = ret_ty(it, call)
        if isinstance(m, AVec):
            if not m.items:
                return mk_none(rty)
            cell = st.new_obj(m.items[-1])  # read-only view of the element
            return mk_some(rty, Ref(("H", cell.id), ()))
        raise Undecided("last on %r" % (m,))

    def get(self, it, st, inst, args, call):
        oid = _obj_of(it, st, args[0], "get")
        m = st.heap[oid]
        idx = args[1]
        rty = ret_ty(it, call)
        if isinstance(m, LogVec) and isinstance(idx, Ordv) and idx.space == ("len", oid):
            if idx.n >= m.n:
                return mk_none(rty)
            for n, cid in m.cells:
                if n == idx.n:
                    return mk_some(rty, Ref(("H", cid), ()))
            # an element that was already completed (and retired) is being accessed again
            st.emit("reopen", m.role, oid, idx.n)
            cell = st.new_obj(Top(None, "retired-element"))
            return mk_some(rty, Ref(("H", cell.id), ()))
        if isinstance(m, AVec) and isinstance(idx, Conc):
            if idx.v >= len(m.items):
                return mk_none(rty)
            cell = st.new_obj(m.items[idx.v])
            return mk_some(rty, Ref(("H", cell.id), ()))
        raise Undecided("get(%r) on %r" % (idx, m))

    # -- exact iterators ---------------------------------------------------------------------------
    def slice_iter(self, it, st, inst, args, call):
        try:
            oid = _obj_of(it, st, args[0], "iter")
        except Undecided:
            return NotImplemented
        m = st.heap[oid]
        if isinstance(m, AVec):
            return st.new_obj(AIter(oid, 0, len(m.items)))
        return NotImplemented

    def _aiter(self, it, st, ref):
        if isinstance(ref, Ref):
            v = it.read_path(st, ref.base, ref.proj)
            if isinstance(v, Obj) and isinstance(st.heap.get(v.id), AIter):
                return v.id, st.heap[v.id]
        return None, None

    def slice_iter_next(self, it, st, inst, args, call):
        iid, a = self._aiter(it, st, args[0])
        if a is None:
            return NotImplemented
        rty = ret_ty(it, call)
        if a.pos >= a.end:
            return mk_none(rty)
        st.heap[iid] = AIter(a.vec, a.pos + 1, a.end)
        st.emit("elem", a.vec, a.pos)
        return mk_some(rty, Ref(("H", a.vec), (("el", a.pos),)))

    def _as_aiter(self, it, st, v):
        """Object id of an exactly modelled slice iterator given by value, by reference, or as something that converts into
        one (`&Vec<T>` / `&[T]` passed where an IntoIterator is expected)."""
        for _ in range(3):
            if isinstance(v, Obj):
                m = st.heap.get(v.id)
                if isinstance(m, AIter):
                    return v.id
                if isinstance(m, AVec):
                    return st.new_obj(AIter(v.id, 0, len(m.items))).id
                return None
            if isinstance(v, Ref):
                if v.base[0] == "H" and not v.proj and isinstance(st.heap.get(v.base[1]), AVec):
                    m = st.heap[v.base[1]]
                    return st.new_obj(AIter(v.base[1], 0, len(m.items))).id
                try:
                    v = it.read_path(st, v.base, v.proj)
                except Exception:  # noqa
                    return None
            else:
                return None
        return None

    def iter_zip(self, it, st, inst, args, call):
        a = self._as_aiter(it, st, args[0])
        b = self._as_aiter(it, st, args[1])
        if a is None or b is None:
            return NotImplemented
        return st.new_obj(AZip(a, b))

    def _azip(self, it, st, v):
        for _ in range(3):
            if isinstance(v, Obj) and isinstance(st.heap.get(v.id), AZip):
                return st.heap[v.id]
            if isinstance(v, Ref):
                try:
                    v = it.read_path(st, v.base, v.proj)
                except Exception:  # noqa
                    return None
            else:
                return None
        return None

    def _zip_step(self, st, z):
        a, b = st.heap[z.a], st.heap[z.b]
        if a.pos >= a.end or b.pos >= b.end:
            return None
        st.heap[z.a] = AIter(a.vec, a.pos + 1, a.end, a.role)
        st.heap[z.b] = AIter(b.vec, b.pos + 1, b.end, b.role)
        return Agg(None, 0, (Ref(("H", a.vec), (("el", a.pos),)), Ref(("H", b.vec), (("el", b.pos),))))

    def zip_next(self, it, st, inst, args, call):
        z = self._azip(it, st, args[0])
        if z is None:
            return NotImplemented
        rty = ret_ty(it, call)
        pair = self._zip_step(st, z)
        return mk_none(rty) if pair is None else mk_some(rty, pair)

    def zip_all_any(self, it, st, inst, args, call):
        from .absint import CallThen
        z = self._azip(it, st, args[0])
        if z is None:
            return NotImplemented
        is_all = inst["path"].endswith("::all")
        body = None
        for a_ in inst.get("args", []):
            t = it.p.types[a_]
            if t["k"] == "closure":
                ci = closure_instance(it.p, a_)
                if ci is not None:
                    body = ci
        if body is None:
            raise Undecided("cannot identify the closure passed to %s" % inst["name"][:80])
        fcell = st.new_obj(args[1])

        def step(it_, st_):
            pair = self._zip_step(st_, z)
            if pair is None:
                return TRUE if is_all else FALSE

            def then(it2, st2, rv):
                if not isinstance(rv, Conc):
                    raise Undecided("closure of %s returned %r" % ("all" if is_all else "any", rv))
                if is_all and rv.v == 0:
                    return FALSE
                if not is_all and rv.v == 1:
                    return TRUE
                return step(it2, st2)

            return CallThen(body, [Ref(("H", fcell.id), ()), pair], then)

        return step(it, st)

    # `slice.windows(n)`: an AIter over the window start positions (role ("windows", n)); each window is handed out as a
    # reference to a fresh exact copy of its elements (windows are shared borrows: nothing can be written through them)
    def slice_windows(self, it, st, inst, args, call):
        try:
            oid = _obj_of(it, st, args[0], "windows")
        except Undecided:
            return NotImplemented
        m = st.heap[oid]
        if not (isinstance(m, AVec) and isinstance(args[1], Conc) and args[1].v > 0):
            return NotImplemented
        return st.new_obj(AIter(oid, 0, max(0, len(m.items) - args[1].v + 1), role=("windows", args[1].v)))

    def _awin(self, it, st, ref):
        iid, a = self._aiter(it, st, ref)
        if a is not None and isinstance(a.role, tuple) and a.role[0] == "windows":
            return iid, a
        return None, None

    def _window(self, st, iid):
        a = st.heap[iid]
        if a.pos >= a.end:
            return None
        st.heap[iid] = AIter(a.vec, a.pos + 1, a.end, a.role)
        items = st.heap[a.vec].items[a.pos:a.pos + a.role[1]]
        w = st.new_obj(AVec(tuple(items), "window"))
        return Ref(("H", w.id), ())

    def windows_next(self, it, st, inst, args, call):
        iid, a = self._awin(it, st, args[0])
        if a is None:
            return NotImplemented
        rty = ret_ty(it, call)
        w = self._window(st, iid)
        return mk_none(rty) if w is None else mk_some(rty, w)

    def windows_all_any(self, it, st, inst, args, call):
        from .absint import CallThen
        iid, a = self._awin(it, st, args[0])
        if a is None:
            return NotImplemented
        is_all = inst["path"].endswith("::all")
        body = None
        for a_ in inst.get("args", []):
            if it.p.types[a_]["k"] == "closure":
                body = closure_instance(it.p, a_)
        if body is None:
            raise Undecided("cannot identify the closure passed to %s" % inst["name"][:80])
        fcell = st.new_obj(args[1])

        def step(it_, st_):
            w = self._window(st_, iid)
            if w is None:
                return TRUE if is_all else FALSE

            def then(it2, st2, rv):
                if not isinstance(rv, Conc):
                    raise Undecided("closure of %s returned %r" % ("all" if is_all else "any", rv))
                if is_all and rv.v == 0:
                    return FALSE
                if not is_all and rv.v == 1:
                    return TRUE
                return step(it2, st2)

            return CallThen(body, [Ref(("H", fcell.id), ()), w], then)

        return step(it, st)

    def str_chars(self, it, st, inst, args, call):
        """`s.chars()` of a string constant: an exact iterator over its characters."""
        v = args[0]
        for _ in range(3):
            if isinstance(v, Ref):
                try:
                    v = it.read_path(st, v.base, v.proj)
                except Exception:  # noqa
                    return NotImplemented
        if not (isinstance(v, Str) and isinstance(v.s, str)):
            return NotImplemented
        vec = st.new_obj(AVec(tuple(Conc(ord(c)) for c in v.s), "chars"))
        return st.new_obj(AIter(vec.id, 0, len(v.s), "chars"))

    def chars_next(self, it, st, inst, args, call):
        iid, a = self._aiter(it, st, args[0])
        if a is None or a.role != "chars":
            return NotImplemented
        rty = ret_ty(it, call)
        if a.pos >= a.end:
            return mk_none(rty)
        st.heap[iid] = AIter(a.vec, a.pos + 1, a.end, "chars")
        return mk_some(rty, st.heap[a.vec].items[a.pos])

    def slice_iter_for_each(self, it, st, inst, args, call):
        """`iter.for_each(f)` over an exactly modelled slice iterator (taken by value): the closure body is interpreted once
        per remaining element, front to back."""
        from .absint import CallThen
        v = args[0]
        if not (isinstance(v, Obj) and isinstance(st.heap.get(v.id), AIter)):
            return NotImplemented
        iid = v.id
        bodies = [c for c in (s_["callee"] for s_ in it.p.sites(inst["id"])) if c is not None and it.p.inst[c].get("def_kind") == "Closure"]
        if len(set(bodies)) != 1:
            # the closure is called through a helper of the std implementation: take it from the generic arguments
            bodies = []
            for a_ in inst.get("args", []):
                t = it.p.types[a_]
                if t["k"] == "closure":
                    ci = closure_instance(it.p, a_)
                    bodies = [ci] if ci is not None else []
            if len(set(bodies)) != 1:
                raise Undecided("cannot identify the closure passed to %s" % inst["name"][:80])
        body = bodies[0]
        fcell = st.new_obj(args[1])

        def step(it_, st_):
            a = st_.heap[iid]
            if a.pos >= a.end:
                return UNIT
            st_.heap[iid] = AIter(a.vec, a.pos + 1, a.end)
            st_.emit("elem", a.vec, a.pos)
            elem = Ref(("H", a.vec), (("el", a.pos),))
            return CallThen(body, [Ref(("H", fcell.id), ()), elem], lambda it2, st2, rv: step(it2, st2))

        return step(it, st)

    def pipeline_for_each(self, it, st, inst, args, call):
        """`pipeline.for_each(f)` where the pipeline is built from `once(x)`, `a.chain(b)`, `.filter(p)` over exactly modelled slice
        iterators: the items are enumerated front to back (Chain: first a, then b; Filter: the predicate is interpreted on a
        reference to each item, in order), then f is interpreted on each item that is left."""
        from .absint import CallThen
        P = it.p
        v = args[0]

        def tyname(x):
            return P.types[x.ty].get("name") if isinstance(x, Agg) and x.ty is not None else None

        if tyname(v) not in ("std::iter::Filter", "std::iter::Chain", "std::iter::Once"):
            return NotImplemented

        def fields(x):
            return dict(zip([f["name"] for f in P.types[x.ty]["variants"][0]["fields"]], x.fields))

        def closure_of(val):
            if isinstance(val, Agg) and val.ty is not None and P.types[val.ty]["k"] == "closure":
                ci = closure_instance(P, val.ty)
                if ci is not None:
                    return ci
            raise Undecided("cannot identify a closure of the iterator pipeline: %r" % (val,))

        def items(st_, x, k):
            """calls k(st, [items]) (possibly through CallThen)"""
            n = tyname(x)
            if isinstance(x, Obj) and isinstance(st_.heap.get(x.id), AIter):
                a = st_.heap[x.id]
                st_.heap[x.id] = AIter(a.vec, a.end, a.end, a.role)
                return k(st_, [Ref(("H", a.vec), (("el", i),)) for i in range(a.pos, a.end)])
            if n == "std::option::Option":
                return k(st_, []) if x.variant == 0 else items(st_, x.fields[0], k)
            if n == "std::iter::Once":
                inner = x
                for _ in range(3):  # Once { inner: option::IntoIter { inner: Item { opt } } }
                    inner = inner.fields[0] if isinstance(inner, Agg) and tyname(inner) != "std::option::Option" else inner
                if tyname(inner) != "std::option::Option":
                    raise Undecided("unexpected layout of Once: %r" % (x,))
                return k(st_, [] if inner.variant == 0 else [inner.fields[0]])
            if n == "std::iter::Chain":
                f = fields(x)
                return items(st_, f["a"], lambda st2, xs: items(st2, f["b"], lambda st3, ys: k(st3, xs + ys)))
            if n == "std::iter::Filter":
                f = fields(x)
                pred = closure_of(f["predicate"])
                pcell = st_.new_obj(f["predicate"])

                def keep(st2, xs, acc):
                    if not xs:
                        return k(st2, acc)
                    cell = st2.new_obj(xs[0])

                    def then(it3, st3, rv):
                        if not isinstance(rv, Conc):
                            raise Undecided("filter predicate returned %r" % (rv,))
                        return keep(st3, xs[1:], acc + ([xs[0]] if rv.v else []))
                    return CallThen(pred, [Ref(("H", pcell.id), ()), Ref(("H", cell.id), ())], then)
                return items(st_, f["iter"], lambda st2, xs: keep(st2, xs, []))
            raise Undecided("iterator pipeline with an unmodelled stage: %r" % (x,))

        body = closure_of(args[1])
        fcell = st.new_obj(args[1])

        def run(st_, xs):
            if not xs:
                return UNIT
            return CallThen(body, [Ref(("H", fcell.id), ()), xs[0]], lambda it2, st2, rv: run(st2, xs[1:]))

        return items(st, v, run)

    def enumerate_for_each(self, it, st, inst, args, call):
        """`slice_iter.enumerate().for_each(f)`: the closure is interpreted once per remaining element with (count, element),
        front to back (Enumerate's contract), the count starting at the adaptor's current count."""
        from .absint import CallThen
        v = args[0]
        if not (isinstance(v, Agg) and v.ty is not None and it.p.types[v.ty].get("name") == "std::iter::Enumerate"):
            return NotImplemented
        names = [f["name"] for f in it.p.types[v.ty]["variants"][0]["fields"]]
        inner, cnt = v.fields[names.index("iter")], v.fields[names.index("count")]
        if not (isinstance(inner, Obj) and isinstance(st.heap.get(inner.id), AIter) and isinstance(cnt, Conc)):
            return NotImplemented
        iid = inner.id
        body = None
        for a_ in inst.get("args", []):
            if it.p.types[a_]["k"] == "closure":
                body = closure_instance(it.p, a_)
        if body is None:
            raise Undecided("cannot identify the closure passed to %s" % inst["name"][:80])
        tup = it.p.inst[body]["locals"][2]
        fcell = st.new_obj(args[1])

        def step(it_, st_, k):
            a = st_.heap[iid]
            if a.pos >= a.end:
                return UNIT
            st_.heap[iid] = AIter(a.vec, a.pos + 1, a.end, a.role)
            st_.emit("elem", a.vec, a.pos)
            elem = Ref(("H", a.vec), (("el", a.pos),))
            return CallThen(body, [Ref(("H", fcell.id), ()), Agg(tup, 0, (Conc(k), elem))], lambda it2, st2, rv: step(it2, st2, k + 1))

        return step(it, st, cnt.v)

    def slice_iter_all_any(self, it, st, inst, args, call):
        """`iter.all(f)` / `iter.any(f)` over an exactly modelled slice iterator: the closure body is interpreted once per
        remaining element, front to back, stopping at the first false / true (the contract of Iterator::all / any)."""
        from .absint import CallThen
        iid, a0 = self._aiter(it, st, args[0])
        if a0 is None:
            return NotImplemented
        is_all = inst["path"].endswith("::all")
        bodies = [c for c in (s_["callee"] for s_ in it.p.sites(inst["id"])) if c is not None and it.p.inst[c].get("def_kind") == "Closure"]
        if len(set(bodies)) != 1:
            raise Undecided("cannot identify the closure passed to %s" % inst["name"][:80])
        body = bodies[0]
        fcell = st.new_obj(args[1])

        def step(it_, st_):
            a = st_.heap[iid]
            if a.pos >= a.end:
                return TRUE if is_all else FALSE
            st_.heap[iid] = AIter(a.vec, a.pos + 1, a.end)
            st_.emit("elem", a.vec, a.pos)
            elem = Ref(("H", a.vec), (("el", a.pos),))

            def then(it2, st2, rv):
                if not isinstance(rv, Conc):
                    raise Undecided("closure of %s returned %r" % ("all" if is_all else "any", rv))
                if is_all and rv.v == 0:
                    return FALSE
                if not is_all and rv.v == 1:
                    return TRUE
                return step(it2, st2)

            return CallThen(body, [Ref(("H", fcell.id), ()), elem], then)

        return step(it, st)

    def slice_iter_next_back(self, it, st, inst, args, call):
        iid, a = self._aiter(it, st, args[0])
        if a is None:
            return NotImplemented
        rty = ret_ty(it, call)
        if a.pos >= a.end:
            return mk_none(rty)
        st.heap[iid] = AIter(a.vec, a.pos, a.end - 1)
        st.emit("elem", a.vec, a.end - 1)
        return mk_some(rty, Ref(("H", a.vec), (("el", a.end - 1),)))

    def first(self, it, st, inst, args, call):
        try:
            oid = _obj_of(it, st, args[0], "first")
        except Undecided:
            return NotImplemented
        m = st.heap[oid]
        rty = ret_ty(it, call)
        if isinstance(m, AVec):
            return mk_some(rty, Ref(("H", oid), (("el", 0),))) if m.items else mk_none(rty)
        return NotImplemented

    def vec_remove(self, it, st, inst, args, call):
        try:
            oid = _obj_of(it, st, args[0], "remove")
        except Undecided:
            return NotImplemented
        m = st.heap[oid]
        if isinstance(m, AVec) and isinstance(args[1], Conc):
            i = args[1].v
            if i >= len(m.items):
                st.outcome = ("panic", {"kind": "Vec::remove out of bounds", "inst": call["frame"].inst, "bb": call["frame"].bb})
                return [(st, UNIT)]
            st.heap[oid] = AVec(m.items[:i] + m.items[i + 1:], m.role)
            st.emit("vec_remove", oid, i)
            return m.items[i]
        return NotImplemented

    def vec_into_iter(self, it, st, inst, args, call):
        a = args[0]
        if isinstance(a, Obj) and isinstance(st.heap.get(a.id), AVec):
            m = st.heap[a.id]
            return st.new_obj(AIter(a.id, 0, len(m.items), "owning"))
        return NotImplemented

    def into_iter_next(self, it, st, inst, args, call):
        iid, a = self._aiter(it, st, args[0])
        if a is None:
            return NotImplemented
        rty = ret_ty(it, call)
        if a.pos >= a.end:
            return mk_none(rty)
        st.heap[iid] = AIter(a.vec, a.pos + 1, a.end, a.role)
        return mk_some(rty, st.heap[a.vec].items[a.pos])

    def iter_len(self, it, st, inst, args, call):
        iid, a = self._aiter(it, st, args[0])
        if a is None:
            return NotImplemented
        return Conc(a.end - a.pos)

    def vec_index(self, it, st, inst, args, call):
        try:
            oid = _obj_of(it, st, args[0], "index")
        except Undecided:
            return NotImplemented
        m = st.heap[oid]
        if isinstance(m, AVec) and isinstance(args[1], Conc):
            if args[1].v >= len(m.items):
                st.outcome = ("panic", {"kind": "index out of bounds", "inst": call["frame"].inst, "bb": call["frame"].bb})
                return [(st, UNIT)]
            return Ref(("H", oid), (("el", args[1].v),))
        return NotImplemented

    def vec_swap_remove(self, it, st, inst, args, call):
        try:
            oid = _obj_of(it, st, args[0], "swap_remove")
        except Undecided:
            return NotImplemented
        m = st.heap[oid]
        if isinstance(m, AVec) and isinstance(args[1], Conc) and args[1].v < len(m.items):
            i = args[1].v
            items = list(m.items)
            out = items[i]
            items[i] = items[-1]
            items.pop()
            st.heap[oid] = AVec(tuple(items), m.role)
            return out
        return NotImplemented

    def vec_insert(self, it, st, inst, args, call):
        try:
            oid = _obj_of(it, st, args[0], "insert")
        except Undecided:
            return NotImplemented
        m = st.heap[oid]
        if isinstance(m, AVec) and isinstance(args[1], Conc):
            i = args[1].v
            if i > len(m.items):
                st.outcome = ("panic", {"kind": "Vec::insert out of bounds", "inst": call["frame"].inst, "bb": call["frame"].bb})
                return [(st, UNIT)]
            st.heap[oid] = AVec(m.items[:i] + (args[2],) + m.items[i:], m.role)
            st.emit("vec_insert", oid, i)
            return UNIT
        return NotImplemented

    def binary_search(self, it, st, inst, args, call):
        try:
            oid = _obj_of(it, st, args[0], "binary_search")
        except Undecided:
            return NotImplemented
        m = st.heap[oid]
        x = args[1]
        x = it.read_path(st, x.base, x.proj) if isinstance(x, Ref) else x
        rty = ret_ty(it, call)
        if isinstance(m, AVec) and isinstance(x, Conc) and all(isinstance(v, Conc) for v in m.items):
            vals = [v.v for v in m.items]
            st.emit("binary_search", oid, x.v)
            if x.v in vals:
                return Agg(rty, 0, (Conc(vals.index(x.v)),))
            pos = sum(1 for v in vals if v < x.v)
            return Agg(rty, 1, (Conc(pos),))
        return NotImplemented

    # -- mem ------------------------------------------------------------------------------------
    def mem_swap(self, it, st, inst, args, call):
        a, b = args
        va = it.read_path(st, a.base, a.proj)
        vb = it.read_path(st, b.base, b.proj)
        it.write_path(st, a.base, a.proj, vb)
        it.write_path(st, b.base, b.proj, va)
        return UNIT

    def mem_replace(self, it, st, inst, args, call):
        d, src = args
        old = it.read_path(st, d.base, d.proj)
        it.write_path(st, d.base, d.proj, src)
        return old

    def mem_take(self, it, st, inst, args, call):
        return NotImplemented

    # -- chars ------------------------------------------------------------------------------------
    def to_digit(self, it, st, inst, args, call):
        c, radix = args
        rty = ret_ty(it, call)
        if not isinstance(radix, Conc):
            raise Undecided("to_digit with symbolic radix")
        r = radix.v
        digs = digit_set(r)
        if isinstance(c, Conc):
            if iset.contains(digs, c.v):
                return mk_some(rty, Conc(FUNCS["to_digit"](c.v, r)))
            return mk_none(rty)
        if isinstance(c, Sym):
            d = st.cons[c.id]
            yes = iset.inter(d, digs)
            no = iset.sub(d, digs)
            out = []
            if not iset.is_empty(yes):
                s2 = st if iset.is_empty(no) else st.copy()
                s2.cons[c.id] = yes
                out.append((s2, mk_some(rty, Expr("to_digit", (c, Conc(r)), (32, False)))))
            if not iset.is_empty(no):
                s3 = st if iset.is_empty(yes) else st.copy()
                s3.cons[c.id] = no
                out.append((s3, mk_none(rty)))
            return out
        raise Undecided("to_digit of %r" % (c,))

    def from_u32(self, it, st, inst, args, call):
        x = args[0]
        rty = ret_ty(it, call)
        if isinstance(x, Conc):
            ok = iset.contains(iset.CHAR, x.v)
            return mk_some(rty, x) if ok else mk_none(rty)
        d = it.dom(st, x)
        if d is None:
            raise Undecided("char::from_u32 of unbounded %r" % (x,))
        yes = iset.inter(d, iset.CHAR)
        no = iset.sub(d, iset.CHAR)
        if iset.is_empty(no):
            return mk_some(rty, x)
        if iset.is_empty(yes):
            return mk_none(rty)
        out = []
        s2 = st.copy()
        if it.assume_expr(s2, Expr("is_char", (x,), (1, False)), 1) if not isinstance(x, Sym) else _narrow(s2, x, yes):
            out.append((s2, mk_some(rty, x)))
        s3 = st.copy()
        if it.assume_expr(s3, Expr("is_char", (x,), (1, False)), 0) if not isinstance(x, Sym) else _narrow(s3, x, no):
            out.append((s3, mk_none(rty)))
        return out

    def range_contains(self, it, st, inst, args, call):
        r, item = args
        rv = it.read_path(st, r.base, r.proj) if isinstance(r, Ref) else r
        x = it.read_path(st, item.base, item.proj) if isinstance(item, Ref) else item
        if not (isinstance(rv, Agg) and len(rv.fields) >= 2):
            raise Undecided("RangeInclusive::contains on %r" % (rv,))
        lo, hi = rv.fields[0], rv.fields[1]
        if not (isinstance(lo, Conc) and isinstance(hi, Conc)):
            raise Undecided("RangeInclusive with symbolic bounds")
        if isinstance(x, Conc):
            return Conc(1 if lo.v <= x.v <= hi.v else 0)
        d = it.dom(st, x)
        rng = ((lo.v, hi.v),) if lo.v <= hi.v else ()
        if d is not None:
            if iset.is_empty(iset.sub(d, rng)):
                return TRUE
            if iset.is_empty(iset.inter(d, rng)):
                return FALSE
        return Expr("in_range", (x, lo, hi), (1, False))

    def char_class(self, cls):
        def f(it, st, inst, args, call):
            c = args[0]
            if isinstance(c, Ref):
                c = it.read_path(st, c.base, c.proj)
            if isinstance(c, Conc):
                return Conc(int(iset.contains(cls, c.v)))
            if isinstance(c, Sym):
                d = st.cons[c.id]
                yes, no = iset.inter(d, cls), iset.sub(d, cls)
                out = []
                if not iset.is_empty(yes):
                    s2 = st if iset.is_empty(no) else st.copy()
                    s2.cons[c.id] = yes
                    out.append((s2, TRUE))
                if not iset.is_empty(no):
                    s3 = st if iset.is_empty(yes) else st.copy()
                    s3.cons[c.id] = no
                    out.append((s3, FALSE))
                return out
            raise Undecided("char class test of %r" % (c,))
        return f

    def len_utf8(self, it, st, inst, args, call):
        c = args[0]
        if isinstance(c, Conc):
            return Conc(FUNCS["len_utf8"](c.v))
        return Expr("len_utf8", (c,), (64, False))


def _narrow(st, sym, dom):
    if iset.is_empty(dom):
        return False
    st.cons[sym.id] = dom
    return True


CELL_ROLES = {"codemap"}


def digit_set(radix):
    out = []
    nd = min(radix, 10)
    out.append((0x30, 0x30 + nd - 1))
    if radix > 10:
        out.append((0x41, 0x41 + radix - 11))
        out.append((0x61, 0x61 + radix - 11))
    return iset.normalize(out)


def _to_digit(c, radix):
    if 0x30 <= c <= 0x39:
        v = c - 0x30
    elif 0x41 <= c <= 0x5A:
        v = c - 0x41 + 10
    elif 0x61 <= c <= 0x7A:
        v = c - 0x61 + 10
    else:
        return -1
    return v if v < radix else -1


def _len_utf8(c):
    return 1 if c < 0x80 else 2 if c < 0x800 else 3 if c < 0x10000 else 4


FUNCS["to_digit"] = _to_digit
FUNCS["len_utf8"] = _len_utf8
FUNCS["in_range"] = lambda x, lo, hi: int(lo <= x <= hi)
FUNCS["is_char"] = lambda x: int(0 <= x <= 0xD7FF or 0xE000 <= x <= 0x10FFFF)


class FmtLib:
    """Summaries of core::fmt entry points: every write becomes an event
    ("w", Str) | ("wc", char value) | ("ws", str value) | ("wnum", value)."""

    def install(self, it):
        S = it.summaries
        path = lambda rx: (lambda inst, _rx=re.compile(rx): bool(_rx.search(inst["path"])))
        name = lambda rx: (lambda inst, _rx=re.compile(rx): bool(_rx.search(inst["name"])))
        S.append((path(r"^std::fmt::Formatter::<'a>::write_str$"), self.write_str))
        S.append((name(r"^<char as std::fmt::Display>::fmt$"), self.char_fmt))
        S.append((name(r"^<str as std::fmt::Display>::fmt$"), self.str_fmt))
        S.append((path(r"^std::fmt::Arguments::<'a>::from_str$"), self.args_from_str))
        S.append((path(r"^std::fmt::Formatter::<'a>::write_fmt$"), self.write_fmt))
        S.append((path(r"^std::iter::Iterator::zip$"), self.iter_zip))
        S.append((path(r"^<std::iter::Zip<A, B> as std::iter::Iterator>::next$"), self.zip_next))
        S.append((path(r"^<std::iter::Zip<A, B> as std::iter::Iterator>::(all|any)$|^std::iter::Iterator::(all|any)$"), self.zip_all_any))
        S.append((path(r"^core::str::<impl str>::chars$"), self.str_chars))

    def ok(self, it, call):
        return Agg(ret_ty(it, call), 0, (UNIT,))

    def write_str(self, it, st, inst, args, call):
        st.emit("w", args[1])
        return self.ok(it, call)

    def char_fmt(self, it, st, inst, args, call):
        c = args[0]
        if isinstance(c, Ref):
            c = it.read_path(st, c.base, c.proj)
        st.emit("wc", c)
        return self.ok(it, call)

    def str_fmt(self, it, st, inst, args, call):
        st.emit("ws", args[0])
        return self.ok(it, call)

    def args_from_str(self, it, st, inst, args, call):
        return Agg(ret_ty(it, call), 0, (args[0],))

    def write_fmt(self, it, st, inst, args, call):
        a = args[1]
        if isinstance(a, Agg) and len(a.fields) == 1 and isinstance(a.fields[0], Str):
            st.emit("w", a.fields[0])
            return self.ok(it, call)
        st.emit("wfmt", a)
        return self.ok(it, call)

    def _as_aiter(self, it, st, v):
        """Object id of an exactly modelled slice iterator given by value, by reference, or as something that converts into
        one (`&Vec<T>` / `&[T]` passed where an IntoIterator is expected)."""
        for _ in range(3):
            if isinstance(v, Obj):
                m = st.heap.get(v.id)
                if isinstance(m, AIter):
                    return v.id
                if isinstance(m, AVec):
                    return st.new_obj(AIter(v.id, 0, len(m.items))).id
                return None
            if isinstance(v, Ref):
                if v.base[0] == "H" and not v.proj and isinstance(st.heap.get(v.base[1]), AVec):
                    m = st.heap[v.base[1]]
                    return st.new_obj(AIter(v.base[1], 0, len(m.items))).id
                try:
                    v = it.read_path(st, v.base, v.proj)
                except Exception:  # noqa
                    return None
            else:
                return None
        return None

    def iter_zip(self, it, st, inst, args, call):
        a = self._as_aiter(it, st, args[0])
        b = self._as_aiter(it, st, args[1])
        if a is None or b is None:
            return NotImplemented
        return st.new_obj(AZip(a, b))

    def _azip(self, it, st, v):
        for _ in range(3):
            if isinstance(v, Obj) and isinstance(st.heap.get(v.id), AZip):
                return st.heap[v.id]
            if isinstance(v, Ref):
                try:
                    v = it.read_path(st, v.base, v.proj)
                except Exception:  # noqa
                    return None
            else:
                return None
        return None

    def _zip_step(self, st, z):
        a, b = st.heap[z.a], st.heap[z.b]
        if a.pos >= a.end or b.pos >= b.end:
            return None
        st.heap[z.a] = AIter(a.vec, a.pos + 1, a.end, a.role)
        st.heap[z.b] = AIter(b.vec, b.pos + 1, b.end, b.role)
        return Agg(None, 0, (Ref(("H", a.vec), (("el", a.pos),)), Ref(("H", b.vec), (("el", b.pos),))))

    def zip_next(self, it, st, inst, args, call):
        z = self._azip(it, st, args[0])
        if z is None:
            return NotImplemented
        rty = ret_ty(it, call)
        pair = self._zip_step(st, z)
        return mk_none(rty) if pair is None else mk_some(rty, pair)

    def zip_all_any(self, it, st, inst, args, call):
        from .absint import CallThen
        z = self._azip(it, st, args[0])
        if z is None:
            return NotImplemented
        is_all = inst["path"].endswith("::all")
        body = None
        for a_ in inst.get("args", []):
            t = it.p.types[a_]
            if t["k"] == "closure":
                ci = closure_instance(it.p, a_)
                if ci is not None:
                    body = ci
        if body is None:
            raise Undecided("cannot identify the closure passed to %s" % inst["name"][:80])
        fcell = st.new_obj(args[1])

        def step(it_, st_):
            pair = self._zip_step(st_, z)
            if pair is None:
                return TRUE if is_all else FALSE

            def then(it2, st2, rv):
                if not isinstance(rv, Conc):
                    raise Undecided("closure of %s returned %r" % ("all" if is_all else "any", rv))
                if is_all and rv.v == 0:
                    return FALSE
                if not is_all and rv.v == 1:
                    return TRUE
                return step(it2, st2)

            return CallThen(body, [Ref(("H", fcell.id), ()), pair], then)

        return step(it, st)

    def str_chars(self, it, st, inst, args, call):
        return Top(ret_ty(it, call), "chars")


def install_bits(it):
    """count_ones & friends as expression functions."""
    path = lambda rx: (lambda inst, _rx=re.compile(rx): bool(_rx.search(inst["path"])))

    def count_ones(it_, st, inst, args, call):
        a = args[0]
        if isinstance(a, Conc):
            return Conc(bin(a.v & ((1 << 128) - 1)).count("1"))
        return Expr("popcount", (a,), (32, False))

    it.summaries.append((path(r"^core::num::<impl u(8|16|32|64|size)>::count_ones$"), count_ones))


FUNCS["popcount"] = lambda v: bin(v).count("1")
