"""Delegation-shape checks: interpret one function with chosen callees turned into recorded cut
points, and inspect the paths (events, results, unknown calls)."""
import re

from . import iset
from .absint import UNIT, Agg, Conc, Expr, Interp, Obj, Ref, State, Str, Sym, Top, Undecided, V
from .printer import _role
from .summ import FmtLib, Lib, LogVec, install_bits, ret_ty


def find_inst(P, rx, field="name"):
    r = [i for i in P.inst if re.search(rx, i[field])]
    if len(r) != 1:
        raise Undecided("expected one instance with %s ~ %s, found %d: %s" % (field, rx, len(r), [i["name"][:80] for i in r][:4]))
    return r[0]


def deref(it, st, v, depth=4):
    for _ in range(depth):
        if isinstance(v, Ref):
            try:
                v = it.read_path(st, v.base, v.proj)
            except Exception:  # noqa
                return v
        else:
            break
    return v


class Shape:
    def __init__(self, P):
        self.P = P
        self.it = Interp(P)
        Lib(_role).install(self.it)
        FmtLib().install(self.it)
        install_bits(self.it)
        self.st = State()
        # callees that live in third-party crates are not interpreted: they are recorded ("ext", name) and
        # return an unknown value, so that a deviation from the reviewed shape shows up as an unexpected call
        transparent = {"json_syntax", "jsvroots", "core", "alloc", "std", "locspan", "decoded_char", "serde", "serde_core"}

        def ext_pred(inst):
            return inst["crate"] not in transparent

        def ext_fn(it, st, inst, args, call):
            st.emit("ext", tuple(args), tuple(deref(it, st, a, 1) if isinstance(a, Ref) else a for a in args), inst["name"])
            rt = ret_ty(it, call)
            t = self.P.types[rt] if rt is not None else None
            if t is not None and t["k"] == "tuple" and not t["fields"]:
                return UNIT
            return Top(rt, "ext:" + inst["path"])

        self.it.summaries.append((ext_pred, ext_fn))

    def cut(self, rx, tag, ret=None, field="name", when=None):
        """Calls to instances matching rx are recorded as (tag, args, snapshots of referenced args)."""
        crx = re.compile(rx)

        def pred(inst):
            return bool(crx.search(inst[field])) and (when is None or when(inst))

        def fn(it, st, inst, args, call):
            snap = tuple(deref(it, st, a, 1) if isinstance(a, Ref) else a for a in args)
            st.emit(tag, tuple(args), snap, inst["name"])
            if ret is None:
                rt = ret_ty(it, call)
                t = self.P.types[rt] if rt is not None else None
                if t is not None and t["k"] == "tuple" and not t["fields"]:
                    return UNIT
                return Top(rt, "ret:" + tag)
            return ret(it, st, call, args)

        self.it.summaries.insert(0, (pred, fn))
        return self

    def cell(self, v):
        o = self.st.new_obj(v)
        return Ref(("H", o.id), ())

    def sym(self, dom=None, **info):
        return self.st.fresh_sym(dom if dom is not None else iset.full(64, False), **info)

    def run(self, inst, args):
        self.it.push_frame(self.st, inst["id"], args, None, None)
        outs = self.it.run(self.st)
        return outs

    def unknown(self):
        return sorted(set(self.it.unknown_calls))


def events(o, skip=("new", "push")):
    return [e for e in o.events if e[0] not in skip]


def ok_result(it, call):
    return Agg(ret_ty(it, call), 0, (UNIT,))
