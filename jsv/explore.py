"""Generic exploration of a function's abstract LTS over cut points (loop tables, emission regexes).

An `Explorer` runs a root to its cut points; a cut handler resumes a suspended state with each
alternative return value (e.g. an iterator's next(): None / Some(fresh symbol)).  States at cut
points are garbage collected and merged by canonical key.  Integer accumulators that differ
between two visits of the same control point are widened to symbols, so that a loop body is
summarised as `acc' = acc + increment`."""
from collections import deque

from . import iset
from .absint import Agg, Conc, Expr, Interp, Obj, Ref, State, Str, Sym, Top, Undecided, Uninit, V
from .model import Canon, Liveness, _syms_of
from .summ import AVec, LogVec, Ordv


class Edge:
    __slots__ = ("src", "cut", "label", "events", "dst", "final", "state", "info")

    def __init__(self, src, cut, label, events, dst, final, state, info=None):
        self.src, self.cut, self.label, self.events, self.dst, self.final, self.state, self.info = src, cut, label, events, dst, final, state, info


class Explorer:
    def __init__(self, program, interp, max_states=5000):
        self.p = program
        self.it = interp
        self.lv = Liveness(program)
        self.canon = Canon(interp, self.lv)
        self.handlers = {}  # cut name -> fn(explorer, state) -> list of (label, resumed-state)
        self.nodes = {}
        self.edges = []
        self.init_keys = []
        self.max_states = max_states
        self.control_seen = {}  # control signature -> list of node keys (for widening)
        self.widen = False
        self.edge_info = None  # fn(label, successor state before garbage collection) -> anything

    def control_sig(self, st):
        return tuple((f.inst, f.bb) for f in st.frames) + (st.outcome[1] if st.outcome else None,)

    def add_node(self, st):
        self.canon.clean(st)
        key, _ = self.canon.key(st)
        new = key not in self.nodes
        if new:
            self.nodes[key] = st
        return key, new

    def explore(self, st0):
        """st0: a running state. Returns self."""
        work = deque()
        for o in self.it.run(st0):
            ev = list(o.events)
            o.events = []
            if o.outcome[0] == "cut":
                key, new = self.add_node(o)
                self.init_keys.append((key, ev))
                if new:
                    work.append(key)
            else:
                self.edges.append(Edge(None, None, "init", ev, None, o.outcome, o))
        while work:
            if len(self.nodes) > self.max_states:
                raise Undecided("exploration does not converge (%d states)" % len(self.nodes))
            key = work.popleft()
            st = self.nodes[key]
            cut = st.outcome[1]
            h = self.handlers.get(cut)
            if h is None:
                raise Undecided("no handler for cut point %s" % cut)
            for label, s2 in h(self, st):
                for o in self.it.run(s2):
                    ev = list(o.events)
                    o.events = []
                    if o.outcome[0] == "infeasible":
                        continue
                    info = self.edge_info(label, o) if self.edge_info else None
                    if o.outcome[0] == "cut":
                        if self.widen:
                            o = self.try_widen(o)
                        k2, new = self.add_node(o)
                        self.edges.append(Edge(key, cut, label, ev, k2, None, o, info))
                        if new:
                            work.append(k2)
                    else:
                        self.edges.append(Edge(key, cut, label, ev, None, o.outcome, o, info))
        return self

    # ---- widening of integer accumulators ----------------------------------------------------------------
    def try_widen(self, o):
        """If a state with the same control signature exists whose locals differ from `o` only in
        integer values, generalise those integers to fresh symbols (once per control point)."""
        sig = self.control_sig(o)
        self.canon.clean(o)
        prevs = self.control_seen.setdefault(sig, [])
        for p in prevs:
            diff = self.int_diff(p, o)
            if diff is None:
                continue
            if not diff:
                return o
            # generalise: the differing places get fresh symbols whose domain covers both values
            g = o.copy()
            g.outcome = o.outcome
            for (fi, l, path), (a, b) in diff.items():
                lo = min(x for x in (a, b) if x is not None)
                sym = g.fresh_sym(((lo, (1 << 64) - 1),), kind="widened")
                f = g.frames[fi]
                f.locals[l] = _set_path(f.locals[l], path, sym)
            prevs.append(g)
            return g
        prevs.append(o)
        return o

    def int_diff(self, a, b):
        if len(a.frames) != len(b.frames):
            return None
        diff = {}
        for fi, (fa, fb) in enumerate(zip(a.frames, b.frames)):
            if fa.inst != fb.inst or fa.bb != fb.bb or set(fa.locals) != set(fb.locals):
                return None
            for l in fa.locals:
                if not _diff_val(fa.locals[l], fb.locals[l], (fi, l, ()), diff, a, b):
                    return None
        return diff


def _diff_val(x, y, where, diff, sa, sb):
    if x == y:
        return True
    if isinstance(x, Conc) and isinstance(y, Conc):
        diff[where] = (x.v, y.v)
        return True
    if isinstance(x, Sym) and sa.syminfo.get(x.id, {}).get("kind") == "widened" and isinstance(y, (Conc, Expr, Sym)):
        # already widened on an earlier visit: nothing more to generalise here
        return True
    if isinstance(x, Agg) and isinstance(y, Agg) and x.ty == y.ty and x.variant == y.variant and len(x.fields) == len(y.fields):
        for i, (p, q) in enumerate(zip(x.fields, y.fields)):
            if not _diff_val(p, q, (where[0], where[1], where[2] + (i,)), diff, sa, sb):
                return False
        return True
    if isinstance(x, (Conc, Sym, Expr)) and isinstance(y, (Conc, Sym, Expr)):
        lo = x.v if isinstance(x, Conc) else None
        diff[where] = (lo, y.v if isinstance(y, Conc) else None)
        if lo is None and not isinstance(y, Conc):
            diff[where] = (0, 0)
        return True
    return False


def _set_path(v, path, new):
    if not path:
        return new
    fs = list(v.fields)
    fs[path[0]] = _set_path(fs[path[0]], path[1:], new)
    return Agg(v.ty, v.variant, fs)


def path_domain(it, st, sym, limit=70000):
    """Exact set (interval set) of values of `sym` satisfying the path predicates that mention only
    `sym` (enumerating the extracted predicates over the symbol's domain)."""
    d = st.cons.get(sym.id)
    if d is None:
        return None
    preds = [(e, t) for e, t in st.preds if _syms_of(e) == {sym.id}]
    if not preds:
        return d
    if iset.size(d) > limit:
        raise Undecided("path predicates over a domain of %d values" % iset.size(d))
    keep = []
    for v in iset.elems(d):
        env = {sym.id: v}
        if all(it.eval_expr(e, env) == t for e, t in preds):
            keep.append((v, v))
    return iset.normalize(keep)
