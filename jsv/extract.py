"""E0 — fact extraction: run jsv-driver over /verif/roots (path-depends on /repo) and cache the dump.

The cache key covers every file that can influence the dump: /repo/src/**, /repo/Cargo.toml,
/repo/Cargo.lock, the driver binary and the roots crate.  Any edit to /repo forces a fresh
`cargo +nightly check` in a fresh target directory (outside /repo and /verif, removed afterwards).
"""
import hashlib
import json
import os
import shutil
import subprocess
import sys
import tempfile
import time

VERIF = os.path.dirname(os.path.dirname(os.path.abspath(__file__)))
REPO = os.environ.get("JSV_REPO", "/repo")
DRIVER = os.path.join(VERIF, "driver", "target", "release", "jsv-driver")
ROOTS = os.path.join(VERIF, "roots")
CACHE = os.path.join(VERIF, ".cache")


class ExtractionError(Exception):
    pass


def _hash_tree(h, root, rel_ok):
    for dirpath, dirnames, filenames in os.walk(root):
        dirnames[:] = sorted(d for d in dirnames if d not in ("target", ".git"))
        for fn in sorted(filenames):
            p = os.path.join(dirpath, fn)
            rel = os.path.relpath(p, root)
            if not rel_ok(rel):
                continue
            h.update(rel.encode())
            h.update(b"\0")
            with open(p, "rb") as f:
                h.update(f.read())
            h.update(b"\0")


def cache_key(features="all"):
    h = hashlib.sha256()
    h.update(features.encode())
    h.update(REPO.encode())
    _hash_tree(h, os.path.join(REPO, "src"), lambda r: True)
    for fn in ("Cargo.toml", "Cargo.lock", "build.rs"):
        p = os.path.join(REPO, fn)
        if os.path.exists(p):
            with open(p, "rb") as f:
                h.update(fn.encode() + b"\0" + f.read() + b"\0")
    with open(DRIVER, "rb") as f:
        h.update(f.read())
    _hash_tree(h, ROOTS, lambda r: r == "Cargo.toml" or r.startswith("src"))
    return h.hexdigest()[:24]


def sysroot_lib():
    out = subprocess.run(["rustc", "+nightly", "--print", "sysroot"], capture_output=True, text=True, check=True)
    return os.path.join(out.stdout.strip(), "lib")


def ensure_driver():
    if not os.path.exists(DRIVER):
        env = dict(os.environ, CARGO_NET_OFFLINE="true")
        subprocess.run(["cargo", "+nightly", "build", "--release", "--offline"], cwd=os.path.join(VERIF, "driver"), env=env, check=True,
                       stdout=subprocess.DEVNULL, stderr=subprocess.DEVNULL)


def extract_crate(src_dir, crate_name, tag):
    """Compile an arbitrary harness crate (path-depending on the repository) with the driver and
    return the path of its program dump (cached by the hash of the repository and of the harness)."""
    ensure_driver()
    h = hashlib.sha256()
    h.update(cache_key().encode())
    _hash_tree(h, src_dir, lambda r: r == "Cargo.toml" or r.startswith("src"))
    key = tag + "-" + h.hexdigest()[:20]
    d = os.path.join(CACHE, key)
    out_file = os.path.join(d, crate_name + ".program.json")
    if os.path.exists(out_file):
        return out_file, True
    os.makedirs(CACHE, exist_ok=True)
    work = tempfile.mkdtemp(prefix="jsv-c-")
    try:
        out = os.path.join(work, "out")
        os.makedirs(out)
        rc = os.path.join(work, "crate")
        shutil.copytree(src_dir, rc, ignore=shutil.ignore_patterns("target", "Cargo.lock"))
        toml = open(os.path.join(rc, "Cargo.toml")).read().replace('path = "/repo"', 'path = "%s"' % REPO)
        open(os.path.join(rc, "Cargo.toml"), "w").write(toml)
        lock = os.path.join(REPO, "Cargo.lock")
        if os.path.exists(lock):
            shutil.copy(lock, os.path.join(rc, "Cargo.lock"))
        env = dict(os.environ)
        env.update({
            "LD_LIBRARY_PATH": sysroot_lib() + ":" + env.get("LD_LIBRARY_PATH", ""),
            "JSV_OUT": out,
            "JSV_ROOTS_CRATE": crate_name,
            "RUSTFLAGS": "-Zmir-opt-level=0 -Zalways-encode-mir -Awarnings",
            "RUSTC_WRAPPER": DRIVER,
            "CARGO_TARGET_DIR": os.path.join(work, "target"),
            "CARGO_NET_OFFLINE": "true",
        })
        env.pop("RUSTC_WORKSPACE_WRAPPER", None)
        p = subprocess.run(["cargo", "+nightly", "check", "--offline", "-j", "16"], cwd=rc, env=env, capture_output=True, text=True)
        if p.returncode != 0:
            sys.stderr.write(p.stderr[-4000:])
            raise ExtractionError("harness crate %s does not compile against %s" % (crate_name, REPO))
        src = os.path.join(out, crate_name + ".program.json")
        if not os.path.exists(src):
            raise ExtractionError("driver produced no program for %s" % crate_name)
        os.makedirs(d, exist_ok=True)
        shutil.move(src, out_file)
        _prune()
        return out_file, False
    finally:
        shutil.rmtree(work, ignore_errors=True)


def extract(verbose=False):
    """Returns (facts_dir, info) where facts_dir holds json_syntax.items.json and jsvroots.program.json."""
    ensure_driver()
    key = cache_key()
    d = os.path.join(CACHE, key)
    marker = os.path.join(d, "ok.json")
    if os.path.exists(marker):
        try:
            info = json.load(open(marker))
            os.utime(d, None)  # least-recently-used order for _prune
            info["cached"] = True
            return d, info
        except (OSError, ValueError):
            pass  # pruned by a concurrent run between the test and the read: extract again
    os.makedirs(CACHE, exist_ok=True)
    t0 = time.time()
    work = tempfile.mkdtemp(prefix="jsv-x-")
    try:
        out = os.path.join(work, "out")
        os.makedirs(out)
        # private copy of the roots crate so the lock file is always derived from /repo's
        rc = os.path.join(work, "roots")
        shutil.copytree(ROOTS, rc, ignore=shutil.ignore_patterns("target", "Cargo.lock"))
        toml = open(os.path.join(rc, "Cargo.toml")).read().replace('path = "/repo"', 'path = "%s"' % REPO)
        open(os.path.join(rc, "Cargo.toml"), "w").write(toml)
        lock = os.path.join(REPO, "Cargo.lock")
        if os.path.exists(lock):
            shutil.copy(lock, os.path.join(rc, "Cargo.lock"))
        env = dict(os.environ)
        env.update({
            "LD_LIBRARY_PATH": sysroot_lib() + ":" + env.get("LD_LIBRARY_PATH", ""),
            "JSV_OUT": out,
            "RUSTFLAGS": "-Zmir-opt-level=0 -Zalways-encode-mir -Awarnings",
            "RUSTC_WRAPPER": DRIVER,
            "CARGO_TARGET_DIR": os.path.join(work, "target"),
            "CARGO_NET_OFFLINE": "true",
        })
        env.pop("RUSTC_WORKSPACE_WRAPPER", None)
        p = subprocess.run(["cargo", "+nightly", "check", "--offline", "-j", "16"], cwd=rc, env=env, capture_output=True, text=True)
        if p.returncode != 0:
            sys.stderr.write(p.stderr[-6000:])
            raise ExtractionError("extraction build failed (the tree under %s does not compile with all features?)" % REPO)
        for fn in ("json_syntax.items.json", "jsvroots.program.json"):
            if not os.path.exists(os.path.join(out, fn)):
                raise ExtractionError("extraction did not produce %s (driver not invoked?)" % fn)
        tmpd = d + ".tmp%d" % os.getpid()
        if os.path.exists(tmpd):
            shutil.rmtree(tmpd)
        os.makedirs(tmpd)
        for fn in os.listdir(out):
            shutil.move(os.path.join(out, fn), os.path.join(tmpd, fn))
        info = {"key": key, "extract_s": round(time.time() - t0, 2), "repo": REPO}
        json.dump(info, open(os.path.join(tmpd, "ok.json"), "w"))
        if os.path.exists(d):
            shutil.rmtree(tmpd)
        else:
            os.rename(tmpd, d)
        _prune()
        info["cached"] = False
        return d, info
    finally:
        shutil.rmtree(work, ignore_errors=True)


def _prune(keep=int(os.environ.get("JSV_CACHE_KEEP", "8"))):
    try:
        ents = [os.path.join(CACHE, e) for e in os.listdir(CACHE)]
        ents = [e for e in ents if os.path.isdir(e)]
        ents.sort(key=lambda e: os.path.getmtime(e), reverse=True)
        now = time.time()
        for e in ents[keep:]:
            if now - os.path.getmtime(e) < 900:
                continue  # possibly in use by a concurrent run
            shutil.rmtree(e, ignore_errors=True)
    except OSError:
        pass


if __name__ == "__main__":
    d, info = extract(verbose=True)
    print(d, info)
