"""Loading of the dumped facts and basic indices (E0/E1)."""
import json
import os
import re

from . import extract as _extract

SIBLING_CRATES = {"json_syntax", "json_number", "utf8_decode", "decoded_char", "locspan"}


class Program:
    def __init__(self, path):
        with open(path) as f:
            d = json.load(f)
        self.roots = d["roots"]
        self.inst = d["instances"]
        self.types = d["types"]
        self.by_name = {}
        for i in self.inst:
            self.by_name.setdefault(i["name"], i["id"])
        self._edges = None
        self._redges = None

    # ---- lookup -------------------------------------------------------------------
    def find(self, pattern, crate=None):
        """Instances whose name matches the regex (search)."""
        rx = re.compile(pattern)
        return [i for i in self.inst if rx.search(i["name"]) and (crate is None or i["crate"] == crate)]

    def find_one(self, pattern, crate=None):
        r = self.find(pattern, crate)
        if len(r) != 1:
            raise LookupError("expected exactly one instance matching %r, found %d: %s" % (pattern, len(r), [i["name"] for i in r][:6]))
        return r[0]

    def ty(self, tid):
        return self.types[tid]

    def tystr(self, tid):
        return self.types[tid]["s"]

    # ---- call graph -----------------------------------------------------------------
    def sites(self, iid):
        """Call-like sites of an instance: list of dicts {bb, kind, callee|None, term}."""
        inst = self.inst[iid]
        out = []
        if not inst.get("has_mir"):
            return out
        for bi, b in enumerate(inst["blocks"]):
            t = b["t"]
            k = t["k"]
            if k in ("call", "tailcall"):
                out.append({"bb": bi, "kind": "call", "callee": t.get("callee"), "term": t, "cleanup": b.get("cleanup", False)})
            elif k == "drop" and not t.get("noop"):
                out.append({"bb": bi, "kind": "drop", "callee": t.get("callee"), "term": t, "cleanup": b.get("cleanup", False)})
        return out

    def fn_refs(self, iid):
        """Function items referenced as values (passed as callbacks) in an instance."""
        inst = self.inst[iid]
        out = []
        if not inst.get("has_mir"):
            return out

        def walk(o):
            if isinstance(o, dict):
                if o.get("k") == "fn" and "inst" in o:
                    out.append(o["inst"])
                # a closure constructed here may be called through a `&dyn Fn` / function pointer (an indirect call with
                # no resolved callee, e.g. hashbrown's re-hash callback): its body counts as referenced by the constructor
                if o.get("agg") == "closure" and isinstance(o.get("body"), int):
                    out.append(o["body"])
                for v in o.values():
                    walk(v)
            elif isinstance(o, list):
                for v in o:
                    walk(v)

        for b in inst["blocks"]:
            for s in b["s"]:
                walk(s)
            t = b["t"]
            # skip the direct callee (already an edge); walk operands
            for key in ("args", "discr", "func"):
                if key in t:
                    walk(t[key])
        return out

    def edges(self, include_cleanup=True):
        if self._edges is None:
            e = {}
            for i in self.inst:
                s = set()
                for site in self.sites(i["id"]):
                    if site["callee"] is not None:
                        s.add(site["callee"])
                for r in self.fn_refs(i["id"]):
                    s.add(r)
                e[i["id"]] = s
            self._edges = e
        return self._edges

    def reachable(self, roots, stop=None):
        """Set of instance ids reachable from the given ids (stop: predicate on instance to not expand)."""
        e = self.edges()
        seen = set()
        work = list(roots)
        while work:
            n = work.pop()
            if n in seen:
                continue
            seen.add(n)
            if stop is not None and stop(self.inst[n]):
                continue
            work.extend(e[n] - seen)
        return seen

    def path(self, src, dst_pred, stop=None):
        """Shortest call path from src to an instance satisfying dst_pred (list of ids) or None."""
        e = self.edges()
        from collections import deque
        prev = {src: None}
        q = deque([src])
        while q:
            n = q.popleft()
            if dst_pred(self.inst[n]) and n != src:
                out = []
                while n is not None:
                    out.append(n)
                    n = prev[n]
                return out[::-1]
            if stop is not None and n != src and stop(self.inst[n]):
                continue
            for m in sorted(e[n]):
                if m not in prev:
                    prev[m] = n
                    q.append(m)
        return None

    def sccs(self, nodes):
        """Tarjan SCCs (iterative) of the sub-graph induced by `nodes`; returns list of lists with
        len>1 or a self-loop."""
        e = self.edges()
        index = {}
        low = {}
        onstack = set()
        stack = []
        res = []
        counter = [0]
        for root in sorted(nodes):
            if root in index:
                continue
            work = [(root, iter(sorted(x for x in e[root] if x in nodes)))]
            index[root] = low[root] = counter[0]
            counter[0] += 1
            stack.append(root)
            onstack.add(root)
            while work:
                v, it = work[-1]
                advanced = False
                for w in it:
                    if w not in index:
                        index[w] = low[w] = counter[0]
                        counter[0] += 1
                        stack.append(w)
                        onstack.add(w)
                        work.append((w, iter(sorted(x for x in e[w] if x in nodes))))
                        advanced = True
                        break
                    elif w in onstack:
                        low[v] = min(low[v], index[w])
                if advanced:
                    continue
                work.pop()
                if work:
                    u = work[-1][0]
                    low[u] = min(low[u], low[v])
                if low[v] == index[v]:
                    comp = []
                    while True:
                        w = stack.pop()
                        onstack.discard(w)
                        comp.append(w)
                        if w == v:
                            break
                    if len(comp) > 1 or v in e[v]:
                        res.append(comp)
        return res

    def loc(self, iid, bb=None):
        inst = self.inst[iid]
        f = inst.get("file", "")
        ln = inst.get("line", 0)
        if bb is not None and inst.get("has_mir"):
            t = inst["blocks"][bb]["t"]
            if t.get("ln"):
                ln = t["ln"]
            if t.get("file"):
                f = t["file"]
        f = f.replace("/repo/", "")
        return "%s:%s" % (f, ln)


class Items:
    def __init__(self, path):
        with open(path) as f:
            d = json.load(f)
        def norm(x):
            if isinstance(x, str):
                return x.replace("crate::", "json_syntax::")
            if isinstance(x, list):
                return [norm(y) for y in x]
            if isinstance(x, dict):
                return {k: norm(v) for k, v in x.items()}
            return x

        self.adts = norm(d["adts"])
        self.impls = norm(d["impls"])
        self.fns = norm(d["fns"])
        self.macros = d["macros"]
        self.features = d.get("features", [])

    def adt(self, path):
        r = [a for a in self.adts if a["path"] == path]
        if len(r) != 1:
            raise LookupError("ADT %s: %d matches" % (path, len(r)))
        return r[0]

    def impls_of(self, trait=None, self_adt=None):
        return [i for i in self.impls if (trait is None or i["trait"] == trait) and (self_adt is None or i.get("self_adt") == self_adt)]


_cache = {}


def load():
    for attempt in (0, 1):
        d, info = _extract.extract()
        if d in _cache:
            return _cache[d]
        try:
            _cache[d] = (Program(os.path.join(d, "jsvroots.program.json")), Items(os.path.join(d, "json_syntax.items.json")), info)
            return _cache[d]
        except (OSError, ValueError):
            # the cache entry was pruned by a concurrent run while it was being read: drop what is left and extract again
            import shutil
            shutil.rmtree(d, ignore_errors=True)
            if attempt:
                raise
