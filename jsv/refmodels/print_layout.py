"""Layout reference (oracle of C13, C04.tokens, C08.nows), written from the doc comments of
`print::Options`, `Limit`, `Indent` (DESIGN.md appendix C).

Tokens: ("w", text) literal text; ("sp", field) that many spaces; ("ind", k) k indentation units
where k is "d" (the container's own depth) or "d+1"; ("key", i) the i-th key as a string literal;
("child", i, "d+1") the i-th child printed at depth d+1.
† ‡ rows where the documentation is silent follow today's behaviour (see DESIGN.md)."""


def emission(kind, n, expanded):
    A = kind == "array"
    p = "array_" if A else "object_"
    o, c = ("[", "]") if A else ("{", "}")
    out = [("w", o)]
    if n == 0:
        if expanded:
            out += [("w", "\n"), ("ind", "d")]  # † doc-silent
        else:
            out += [("sp", p + "empty")]
        out.append(("w", c))
        return out
    if expanded:
        out.append(("w", "\n"))
        for i in range(n):
            if i > 0:
                out += [("sp", p + "before_comma"), ("w", ",\n")]  # ‡ after-comma spaces are not printed before a line break
            out.append(("ind", "d+1"))
            if not A:
                out += [("key", i), ("sp", "object_before_colon"), ("w", ":"), ("sp", "object_after_colon")]
            out.append(("child", i, "d+1"))
        out += [("w", "\n"), ("ind", "d")]
    else:
        out.append(("sp", p + "begin"))
        for i in range(n):
            if i > 0:
                out += [("sp", p + "before_comma"), ("w", ","), ("sp", p + "after_comma")]
            if not A:
                out += [("key", i), ("sp", "object_before_colon"), ("w", ":"), ("sp", "object_after_colon")]
            out.append(("child", i, "d+1"))
        out.append(("sp", p + "end"))
    out.append(("w", c))
    return out


def width(kind, n):
    """Width of the inline form as a linear form: (const, {name: coeff}) with names = option fields,
    'w<i>' (width of child i) and 'kw<i>' (printed width of key i)."""
    A = kind == "array"
    p = "array_" if A else "object_"
    const = 0
    co = {}

    def add(name, k=1):
        co[name] = co.get(name, 0) + k

    for tok in emission(kind, n, False):
        if tok[0] == "w":
            const += len(tok[1])
        elif tok[0] == "sp":
            add(tok[1])
        elif tok[0] == "key":
            add("kw%d" % tok[1])
        elif tok[0] == "child":
            add("w%d" % tok[1])
    return const, co


def must_expand(limit, n, width_gt, items_gt):
    """Documented limit predicate. `items_gt` / `width_gt` are the truth values of `n > items` and
    `width > max_width` (None when the variant has no such threshold)."""
    if limit == "None":
        return False
    if limit == "Always":
        return True
    if limit == "Item":
        return items_gt
    if limit == "Width":
        return width_gt
    if limit == "ItemOrWidth":
        return items_gt or width_gt
    raise ValueError(limit)
