"""Reference transducer R(o) for RFC 8259 texts (oracle of C01, C02, C05, C07, C12).

Written from the RFC only (sections 2-7) plus the documented meaning of the two lenient
parser options.  It is a deterministic pushdown transducer with a few registers, stepping on
*letters*: ('eof',) | ('err',) | ('char', domain, sym) where `domain` is an interval set of
Unicode scalar values on which R behaves uniformly (use `split` to obtain such classes) and
`sym` is the symbolic name of the character (used to build expected values).

Expected outputs are events in the normal form shared with the implementation model:
  ('frag', ('BEGIN', frag, start))            frag = ordinal of the fragment, start = position
  ('frag', ('END', frag, end, count))         volume must equal count - frag
  ('str'|'num', ('NEW', obj)) , ('str', ('CH', obj, value)) , ('num', ('BYTE', obj, value))
  ('arr'|'ent', ('NEW', obj)) , ('arr', ('PUSH', obj, v)) , ('ent', ('PUSH', obj, key, v))
Positions are read ordinals P(k) = byte offset of the k-th character read.
"""
from .. import iset
from ..absint import Conc, Expr, Sym
from ..summ import Ordv

WS = iset.mk((0x20, 0x20), (0x09, 0x09), (0x0A, 0x0A), (0x0D, 0x0D))
DIGIT = iset.mk((0x30, 0x39))
DIGIT19 = iset.mk((0x31, 0x39))
HEX = iset.mk((0x30, 0x39), (0x41, 0x46), (0x61, 0x66))
CONTROL = iset.mk((0x00, 0x1F))
HIGH = ((0xD800, 0xDBFF),)
LOW = ((0xDC00, 0xDFFF),)


def ch(c):
    return ((ord(c), ord(c)),)


ESCAPES = {'"': 0x22, "\\": 0x5C, "/": 0x2F, "b": 0x08, "f": 0x0C, "n": 0x0A, "r": 0x0D, "t": 0x09}


def P(k):
    return Ordv("pos", k)


def F(n):
    return Ordv("frag", n)


def O(n):
    return Ordv("robj", n)


class RState:
    """Immutable reference state."""
    __slots__ = ("ctl", "stack", "cur", "k", "nfrag", "nobj", "root")

    def __init__(self, ctl, stack=(), cur=None, k=0, nfrag=0, nobj=0, root=None):
        self.ctl = ctl
        self.stack = stack
        self.cur = cur
        self.k = k
        self.nfrag = nfrag
        self.nobj = nobj
        self.root = root

    def with_(self, **kw):
        d = {s: getattr(self, s) for s in self.__slots__}
        d.update(kw)
        return RState(**d)

    def render(self):
        return ("R", self.ctl, self.stack, self.cur, P(self.k), F(self.nfrag), O(self.nobj), self.root)


class Out:
    """Result of one reference step."""

    def __init__(self, state=None, events=(), final=None):
        self.state = state
        self.events = list(events)
        self.final = final  # None | ('accept', vdesc) | ('error', spec) | ('dontcare', why)


class Ref8259:
    def __init__(self, truncated=False, invalid=False):
        self.trunc = truncated
        self.inval = invalid

    def initial(self):
        return RState(("V", "root"))

    # ---- letter classes on which the reference behaves uniformly in a given state ------------------
    def classes(self, st):
        c = st.ctl
        t = c[0]
        if t == "V":
            cs = [WS, ch('"'), ch("-"), ch("0"), DIGIT19, ch("t"), ch("f"), ch("n"), ch("["), ch("{"), ch("]")]
        elif t in ("A",):
            cs = [WS, ch(","), ch("]")]
        elif t == "O":
            cs = [WS, ch(","), ch("}")]
        elif t == "K":
            cs = [WS, ch('"'), ch("}")]
        elif t == "C":
            cs = [WS, ch(":")]
        elif t == "T":
            cs = [WS]
        elif t == "L":
            cs = [ch(c[1][c[2]])]
        elif t == "N":
            cs = [ch("0"), DIGIT19, ch("."), ch("e"), ch("E"), ch("+"), ch("-")] + self.classes(self.after_value_state(st))
        elif t == "S":
            sub = c[2]
            if sub == "body":
                cs = [ch('"'), ch("\\"), CONTROL]
            elif sub == "esc":
                cs = [ch(x) for x in ESCAPES] + [ch("u")]
            else:
                cs = [HEX]
        else:
            cs = []
        return cs

    def split(self, st, dom):
        """Partition `dom` into sub-domains on which R is uniform."""
        out = []
        rest = dom
        for c in self.classes(st):
            i = iset.inter(rest, c)
            if not iset.is_empty(i):
                out.append(i)
                rest = iset.sub(rest, i)
        if not iset.is_empty(rest):
            out.append(rest)
        return out

    # ---- helpers -------------------------------------------------------------------------------------
    def after_value_state(self, st):
        """Control state once a value has been completed, given the stack."""
        if not st.stack:
            return st.with_(ctl=("T",))
        top = st.stack[-1]
        return st.with_(ctl=("A",) if top[0] == "arr" else ("O",))

    def value_done(self, st, vdesc, endpos, ev):
        """A value ended at `endpos` (position just after its last character)."""
        if not st.stack:
            return st.with_(ctl=("T",), root=vdesc, cur=None)
        top = st.stack[-1]
        if top[0] == "arr":
            ev.append(("arr", ("PUSH", top[1], vdesc)))
            return st.with_(ctl=("A",), cur=None)
        # object: close the entry fragment, append (key, value)
        _, ents, ofrag, pending = top
        efrag, key = pending
        ev.append(("frag", ("END", efrag, endpos, F(st.nfrag))))
        ev.append(("ent", ("PUSH", ents, key, vdesc)))
        return st.with_(ctl=("O",), cur=None, stack=st.stack[:-1] + (("obj", ents, ofrag, None),))

    def unexpected(self, st, letter):
        if letter[0] == "eof":
            return Out(final=("error", ("Unexpected", P(st.k), None)))
        return Out(final=("error", ("Unexpected", P(st.k), letter[2])))

    # ---- the step function -----------------------------------------------------------------------------
    def step(self, st, letter):
        if letter[0] == "err":
            return Out(final=("error", ("Stream", P(st.k))))
        t = st.ctl[0]
        return getattr(self, "step_" + t)(st, letter)

    def is_(self, letter, cls):
        return letter[0] == "char" and not iset.is_empty(iset.inter(letter[1], cls)) and iset.is_empty(iset.sub(letter[1], cls))

    def step_V(self, st, l):
        ctx = st.ctl[1]
        if l[0] == "eof":
            return self.unexpected(st, l)
        k = st.k
        nxt = st.with_(k=k + 1)
        ev = []
        if self.is_(l, WS):
            return Out(nxt)
        if self.is_(l, ch('"')):
            ev.append(("frag", ("BEGIN", F(st.nfrag), P(k))))
            ev.append(("str", ("NEW", O(st.nobj))))
            return Out(nxt.with_(ctl=("S", "value", "body"), cur=("str", O(st.nobj), F(st.nfrag), None), nfrag=st.nfrag + 1, nobj=st.nobj + 1), ev)
        for cls, ns in ((ch("-"), "minus"), (ch("0"), "zero"), (DIGIT19, "int")):
            if self.is_(l, cls):
                ev.append(("frag", ("BEGIN", F(st.nfrag), P(k))))
                ev.append(("num", ("NEW", O(st.nobj))))
                ev.append(("num", ("BYTE", O(st.nobj), ("raw", l[2]))))
                return Out(nxt.with_(ctl=("N", ns), cur=("num", O(st.nobj), F(st.nfrag)), nfrag=st.nfrag + 1, nobj=st.nobj + 1), ev)
        for c0, word in (("t", "true"), ("f", "false"), ("n", "null")):
            if self.is_(l, ch(c0)):
                ev.append(("frag", ("BEGIN", F(st.nfrag), P(k))))
                return Out(nxt.with_(ctl=("L", word, 1), cur=("lit", word, F(st.nfrag)), nfrag=st.nfrag + 1), ev)
        if self.is_(l, ch("[")):
            ev.append(("frag", ("BEGIN", F(st.nfrag), P(k))))
            ev.append(("arr", ("NEW", O(st.nobj))))
            return Out(nxt.with_(ctl=("V", "arr_first"), stack=st.stack + (("arr", O(st.nobj), F(st.nfrag)),), nfrag=st.nfrag + 1, nobj=st.nobj + 1), ev)
        if self.is_(l, ch("{")):
            ev.append(("frag", ("BEGIN", F(st.nfrag), P(k))))
            ev.append(("ent", ("NEW", O(st.nobj))))
            return Out(nxt.with_(ctl=("K", "first"), stack=st.stack + (("obj", O(st.nobj), F(st.nfrag), None),), nfrag=st.nfrag + 1, nobj=st.nobj + 1), ev)
        if ctx == "arr_first" and self.is_(l, ch("]")):
            return self.close_container(nxt, ev, "arr")
        return self.unexpected(st, l)

    def close_container(self, st, ev, kind):
        top = st.stack[-1]
        ev.append(("frag", ("END", top[2], P(st.k), F(st.nfrag))))
        st2 = st.with_(stack=st.stack[:-1])
        vdesc = ("arr", top[1]) if kind == "arr" else ("obj", top[1])
        return Out(self.value_done(st2, vdesc, P(st.k), ev), ev)

    def step_A(self, st, l):
        if l[0] == "eof":
            return self.unexpected(st, l)
        nxt = st.with_(k=st.k + 1)
        if self.is_(l, WS):
            return Out(nxt)
        if self.is_(l, ch(",")):
            return Out(nxt.with_(ctl=("V", "arr_item")))
        if self.is_(l, ch("]")):
            return self.close_container(nxt, [], "arr")
        return self.unexpected(st, l)

    def step_O(self, st, l):
        if l[0] == "eof":
            return self.unexpected(st, l)
        nxt = st.with_(k=st.k + 1)
        if self.is_(l, WS):
            return Out(nxt)
        if self.is_(l, ch(",")):
            return Out(nxt.with_(ctl=("K", "next")))
        if self.is_(l, ch("}")):
            return self.close_container(nxt, [], "obj")
        return self.unexpected(st, l)

    def step_K(self, st, l):
        if l[0] == "eof":
            return self.unexpected(st, l)
        k = st.k
        nxt = st.with_(k=k + 1)
        if self.is_(l, WS):
            return Out(nxt)
        if st.ctl[1] == "first" and self.is_(l, ch("}")):
            return self.close_container(nxt, [], "obj")
        if self.is_(l, ch('"')):
            ev = [("frag", ("BEGIN", F(st.nfrag), P(k))),  # the entry
                  ("frag", ("BEGIN", F(st.nfrag + 1), P(k))),  # its key
                  ("str", ("NEW", O(st.nobj)))]
            return Out(nxt.with_(ctl=("S", "key", "body"), cur=("str", O(st.nobj), F(st.nfrag + 1), None, F(st.nfrag)),
                                 nfrag=st.nfrag + 2, nobj=st.nobj + 1), ev)
        return self.unexpected(st, l)

    def step_C(self, st, l):
        if l[0] == "eof":
            return self.unexpected(st, l)
        nxt = st.with_(k=st.k + 1)
        if self.is_(l, WS):
            return Out(nxt)
        if self.is_(l, ch(":")):
            return Out(nxt.with_(ctl=("V", "obj_value")))
        return self.unexpected(st, l)

    def step_T(self, st, l):
        if l[0] == "eof":
            return Out(final=("accept", st.root))
        if self.is_(l, WS):
            return Out(st.with_(k=st.k + 1))
        return self.unexpected(st, l)

    def step_L(self, st, l):
        _, word, i = st.ctl
        if l[0] == "eof" or not self.is_(l, ch(word[i])):
            return self.unexpected(st, l)
        nxt = st.with_(k=st.k + 1)
        if i + 1 < len(word):
            return Out(nxt.with_(ctl=("L", word, i + 1)))
        ev = [("frag", ("END", st.cur[2], P(nxt.k), F(st.nfrag)))]
        vdesc = ("null",) if word == "null" else ("bool", 1 if word == "true" else 0)
        return Out(self.value_done(nxt, vdesc, P(nxt.k), ev), ev)

    NUM = {
        # state: [(class, next state)]
        "minus": [(ch("0"), "zero"), (DIGIT19, "int")],
        "zero": [(ch("."), "frac0"), (ch("e"), "exp0"), (ch("E"), "exp0")],
        "int": [(DIGIT, "int"), (ch("."), "frac0"), (ch("e"), "exp0"), (ch("E"), "exp0")],
        "frac0": [(DIGIT, "frac")],
        "frac": [(DIGIT, "frac"), (ch("e"), "exp0"), (ch("E"), "exp0")],
        "exp0": [(ch("+"), "expsign"), (ch("-"), "expsign"), (DIGIT, "exp")],
        "expsign": [(DIGIT, "exp")],
        "exp": [(DIGIT, "exp")],
    }
    NUM_ACCEPT = {"zero", "int", "frac", "exp"}

    def step_N(self, st, l):
        ns = st.ctl[1]
        if l[0] == "char":
            for cls, nn in self.NUM[ns]:
                if self.is_(l, cls):
                    ev = [("num", ("BYTE", st.cur[1], ("raw", l[2])))]
                    return Out(st.with_(ctl=("N", nn), k=st.k + 1), ev)
        if ns not in self.NUM_ACCEPT:
            return self.unexpected(st, l)
        # the number ends before this letter; the letter is then handled by the follow state
        ev = [("frag", ("END", st.cur[2], P(st.k), F(st.nfrag)))]
        st2 = self.value_done(st, ("num", st.cur[1]), P(st.k), ev)
        o = self.step(st2, l)
        o.events = ev + o.events
        return o

    # ---- strings ---------------------------------------------------------------------------------------
    def step_S(self, st, l):
        _, kind, sub = st.ctl[:3]
        if l[0] == "eof":
            return self.unexpected(st, l)
        k = st.k
        nxt = st.with_(k=k + 1)
        cur = st.cur
        obj = cur[1]
        pending = cur[3]
        ev = []
        if sub == "body":
            if self.is_(l, ch('"')):
                if pending is not None:
                    if self.trunc:
                        ev.append(("str", ("CH", obj, ("const", 0xFFFD))))
                    else:
                        return Out(final=("error", ("MissingLowSurrogate", pending, P(k), P(k + 1))))
                ev.append(("frag", ("END", cur[2], P(k + 1), F(st.nfrag))))
                if kind == "value":
                    return Out(self.value_done(nxt, ("str", obj), P(k + 1), ev), ev)
                # key completed: remember (entry fragment, key) on the object frame
                top = nxt.stack[-1]
                return Out(nxt.with_(ctl=("C",), cur=None, stack=nxt.stack[:-1] + (("obj", top[1], top[2], (cur[4], ("str", obj))),)), ev)
            if self.is_(l, ch("\\")):
                return Out(nxt.with_(ctl=("S", kind, "esc")))
            if self.is_(l, CONTROL):
                return self.unexpected(st, l)
            # raw character
            r = self.flush_pending(nxt, cur, ev, P(k + 1))
            if isinstance(r, Out):
                return r
            ev.append(("str", ("CH", obj, ("raw", l[2]))))
            return Out(nxt.with_(cur=r), ev)
        if sub == "esc":
            for c0, cp in ESCAPES.items():
                if self.is_(l, ch(c0)):
                    r = self.flush_pending(nxt, cur, ev, P(k + 1))
                    if isinstance(r, Out):
                        return r
                    ev.append(("str", ("CH", obj, ("const", cp))))
                    return Out(nxt.with_(ctl=("S", kind, "body"), cur=r), ev)
            if self.is_(l, ch("u")):
                return Out(nxt.with_(ctl=("S", kind, "u", (), P(k))))
            return self.unexpected(st, l)
        # \uXXXX: collecting hex digits
        digits, pos_u = st.ctl[3], st.ctl[4]
        if not self.is_(l, HEX):
            return self.unexpected(st, l)
        digits = digits + (l[2],)
        if len(digits) < 4:
            return Out(nxt.with_(ctl=("S", kind, "u", digits, pos_u)))
        # four digits read: the caller classifies the unit (see `unit_classes`/`finish_unit`)
        return Out(nxt.with_(ctl=("S", kind, "unit", digits, pos_u)))

    def flush_pending(self, st, cur, ev, here):
        """A string element other than a low-surrogate escape follows a pending high surrogate."""
        pending = cur[3]
        if pending is None:
            return cur
        if self.trunc:
            ev.append(("str", ("CH", cur[1], ("const", 0xFFFD))))
            return cur[:3] + (None,) + cur[4:]
        return Out(final=("error", ("MissingLowSurrogate", pending, here, here)))

    @staticmethod
    def hex4(digits):
        """Reference value of \\uXXXX as an expression over the four digit characters."""
        d = [Expr("to_digit", (s, Conc(16)), (32, False)) for s in digits]
        e = Expr("Shl", (d[0], Conc(12)), (32, False))
        e = Expr("BitOr", (e, Expr("Shl", (d[1], Conc(8)), (32, False))), (32, False))
        e = Expr("BitOr", (e, Expr("Shl", (d[2], Conc(4)), (32, False))), (32, False))
        return Expr("BitOr", (e, d[3]), (32, False))

    @staticmethod
    def pair(high, low):
        """Reference scalar value of a surrogate pair (RFC 8259 section 7 / UTF-16)."""
        a = Expr("Mul", (Expr("Sub", (high, Conc(0xD800)), (64, True)), Conc(0x400)), (64, True))
        b = Expr("Sub", (low, Conc(0xDC00)), (64, True))
        return Expr("Add", (Expr("Add", (a, b), (64, True)), Conc(0x10000)), (64, True))

    UNIT_CLASSES = (HIGH, LOW, ((0, 0xD7FF), (0xE000, 0xFFFF)))

    def finish_unit(self, st, unit, unit_dom):
        """State is ('S', kind, 'unit', digits, pos_u); `unit` is the value of the escape (a symbol
        or expression over the digits, already checked against hex4) whose domain `unit_dom` lies
        inside one of UNIT_CLASSES."""
        _, kind, _, digits, pos_u = st.ctl
        cur = st.cur
        obj = cur[1]
        pending = cur[3]
        here = P(st.k)
        ev = []
        is_high = iset.is_empty(iset.sub(unit_dom, HIGH))
        is_low = iset.is_empty(iset.sub(unit_dom, LOW))
        body = ("S", kind, "body")
        if pending is not None:
            p_high, high = pending
            if is_low:
                ev.append(("str", ("CH", obj, ("expr", self.pair(high, unit)))))
                return Out(st.with_(ctl=body, cur=cur[:3] + (None,) + cur[4:]), ev)
            if not self.trunc:
                return Out(final=("error", ("InvalidLowSurrogate", pending, pos_u, here, unit)))
            ev.append(("str", ("CH", obj, ("const", 0xFFFD))))
            cur = cur[:3] + (None,) + cur[4:]
            if is_high:
                # unspecified: a dangling high surrogate directly followed by another high surrogate
                return Out(final=("dontcare", "high surrogate escape directly followed by another high surrogate escape"))
            ev.append(("str", ("CH", obj, ("unit", unit))))
            return Out(st.with_(ctl=body, cur=cur), ev)
        if is_high:
            return Out(st.with_(ctl=body, cur=cur[:3] + ((pos_u, unit),) + cur[4:]), ev)
        if is_low:
            if self.inval:
                ev.append(("str", ("CH", obj, ("const", 0xFFFD))))
                return Out(st.with_(ctl=body), ev)
            return Out(final=("error", ("InvalidUnicodeCodePoint", pos_u, here, unit)))
        ev.append(("str", ("CH", obj, ("unit", unit))))
        return Out(st.with_(ctl=body), ev)
