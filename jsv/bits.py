"""Bit-vector values: a small unsigned integer represented bit by bit (each bit concrete or a
boolean symbol).  Exact for the mask arithmetic of KindSet (and / or / not / tests against
single-bit masks); a test involving several unknown bits becomes a predicate expression."""
from . import iset
from .absint import FALSE, TRUE, Conc, Expr, Sym, V


class Bits(V):
    __slots__ = ("bits",)

    def __init__(self, bits):
        self.bits = tuple(bits)

    def __eq__(self, o):
        return isinstance(o, Bits) and o.bits == self.bits

    def __hash__(self):
        return hash(("bits", self.bits))

    def __repr__(self):
        return "bits[%s]" % ",".join(repr(b) for b in self.bits)

    def evaluate(self, it, env):
        v = 0
        for i, b in enumerate(self.bits):
            if it.eval_expr(b, env):
                v |= 1 << i
        return v


def from_const(c, width):
    return Bits([Conc((c >> i) & 1) for i in range(width)])


def to_value(b):
    if all(isinstance(x, Conc) for x in b.bits):
        v = 0
        for i, x in enumerate(b.bits):
            v |= x.v << i
        return Conc(v)
    return b


def b_and(x, y):
    if isinstance(x, Conc):
        return y if x.v else Conc(0)
    if isinstance(y, Conc):
        return x if y.v else Conc(0)
    if x == y:
        return x
    return Expr("BitAnd", (x, y), (1, False))


def b_or(x, y):
    if isinstance(x, Conc):
        return Conc(1) if x.v else y
    if isinstance(y, Conc):
        return Conc(1) if y.v else x
    if x == y:
        return x
    return Expr("BitOr", (x, y), (1, False))


def b_not(x):
    if isinstance(x, Conc):
        return Conc(1 - x.v)
    if isinstance(x, Expr) and x.op == "Not":
        return x.args[0]
    return Expr("Not", (x,), (1, False))


def install(it):
    def width_of(tid):
        ty = it.scalar_ty(tid)
        return ty[0] if ty else None

    def coerce(v, w):
        if isinstance(v, Bits):
            return v
        if isinstance(v, Conc) and v.v >= 0:
            return from_const(v.v, w)
        return None

    def binop(st, op, a, b, tid):
        if not (isinstance(a, Bits) or isinstance(b, Bits)):
            return None
        w = len(a.bits) if isinstance(a, Bits) else len(b.bits)
        x, y = coerce(a, w), coerce(b, w)
        if x is None or y is None:
            return None
        if op == "BitAnd":
            return to_value(Bits([b_and(p, q) for p, q in zip(x.bits, y.bits)]))
        if op == "BitOr":
            return to_value(Bits([b_or(p, q) for p, q in zip(x.bits, y.bits)]))
        if op == "BitXor":
            return to_value(Bits([b_or(b_and(p, b_not(q)), b_and(b_not(p), q)) for p, q in zip(x.bits, y.bits)]))
        if op in ("Eq", "Ne"):
            # conjunction of bit equalities
            acc = Conc(1)
            for p, q in zip(x.bits, y.bits):
                if isinstance(p, Conc) and isinstance(q, Conc):
                    e = Conc(int(p.v == q.v))
                elif isinstance(q, Conc):
                    e = p if q.v else b_not(p)
                elif isinstance(p, Conc):
                    e = q if p.v else b_not(q)
                else:
                    e = b_not(b_or(b_and(p, b_not(q)), b_and(b_not(p), q)))
                acc = b_and(acc, e)
            return acc if op == "Eq" else b_not(acc)
        return None

    def unop(st, op, a, tid):
        if isinstance(a, Bits) and op == "Not":
            return to_value(Bits([b_not(p) for p in a.bits]))
        return None

    it.binop_hooks.append(binop)
    it.unop_hooks.append(unop)
