"""Comparison of extracted expressions by exhaustive evaluation over their (finite) operand domains.

Only expressions extracted from the MIR and the reference formulas are evaluated here, never the
analysed program.  Symbols that occur only under `to_digit(sym, radix)` are replaced by a digit
variable ranging over the image, which keeps the enumeration at 16^4 for \\uXXXX."""
import itertools

from . import iset
from .absint import FUNCS, Conc, Expr, Sym, Undecided, wrap

LIMIT = 4_200_000


def _canon(e, names):
    if isinstance(e, Conc):
        return ("c", e.v)
    if isinstance(e, Sym):
        if e.id not in names:
            names[e.id] = len(names)
        return ("s", names[e.id])
    return ("e", e.op, e.ty, tuple(_canon(a, names) for a in e.args))


def _digit_abstraction(e1, e2, doms):
    """sym id -> radix for symbols used only as to_digit(sym, radix)."""
    uses = {}

    def walk(e, under):
        if isinstance(e, Sym):
            uses.setdefault(e.id, set()).add(under)
        elif isinstance(e, Expr):
            if e.op == "to_digit" and isinstance(e.args[0], Sym) and isinstance(e.args[1], Conc):
                uses.setdefault(e.args[0].id, set()).add(("digit", e.args[1].v))
            else:
                for a in e.args:
                    walk(a, None)

    walk(e1, None)
    walk(e2, None)
    return {s: list(u)[0][1] for s, u in uses.items() if len(u) == 1 and list(u)[0] is not None}


def _gen(e, var, digit_syms):
    """Python source of the expression."""
    if isinstance(e, Conc):
        return repr(e.v)
    if isinstance(e, Sym):
        return var[e.id]
    op = e.op
    if op == "to_digit" and isinstance(e.args[0], Sym) and e.args[0].id in digit_syms:
        return var[e.args[0].id]
    a = [_gen(x, var, digit_syms) for x in e.args]
    ty = e.ty

    def w(src):
        if ty is None:
            return src
        bits, signed = ty
        if bits == 1:
            return src
        if signed:
            return "_ws(%s,%d)" % (src, bits)
        return "((%s)&%d)" % (src, (1 << bits) - 1)

    if op in FUNCS:
        return "_F[%r](%s)" % (op, ",".join(a))
    if op in ("Add", "AddUnchecked"):
        return w("%s+%s" % (a[0], a[1]))
    if op in ("Sub", "SubUnchecked"):
        return w("%s-%s" % (a[0], a[1]))
    if op in ("Mul", "MulUnchecked"):
        return w("(%s)*(%s)" % (a[0], a[1]))
    if op in ("Shl", "ShlUnchecked"):
        return w("(%s)<<((%s)%%%d)" % (a[0], a[1], ty[0] if ty else 64))
    if op in ("Shr", "ShrUnchecked"):
        return "((%s)>>((%s)%%%d))" % (a[0], a[1], ty[0] if ty else 64)
    if op == "BitAnd":
        return "((%s)&(%s))" % (a[0], a[1])
    if op == "BitOr":
        return "((%s)|(%s))" % (a[0], a[1])
    if op == "BitXor":
        return "((%s)^(%s))" % (a[0], a[1])
    cmpo = {"Eq": "==", "Ne": "!=", "Lt": "<", "Le": "<=", "Gt": ">", "Ge": ">="}
    if op in cmpo:
        return "int((%s)%s(%s))" % (a[0], cmpo[op], a[1])
    if op == "Not":
        if ty == (1, False):
            return "(1-(%s))" % a[0]
        return w("~(%s)" % a[0])
    if op == "Neg":
        return w("-(%s)" % a[0])
    if op in ("cast",):
        return w(a[0])
    if op == "id":
        return a[0]
    if op == "Div":
        return "_div(%s,%s)" % (a[0], a[1])
    if op == "Rem":
        return "_rem(%s,%s)" % (a[0], a[1])
    raise Undecided("cannot compile expression operator %s" % op)


def _ws(v, bits):
    v &= (1 << bits) - 1
    if v >> (bits - 1):
        v -= 1 << bits
    return v


def _div(a, b):
    q = abs(a) // abs(b)
    return q if (a < 0) == (b < 0) else -q


def _rem(a, b):
    r = abs(a) % abs(b)
    return -r if a < 0 else r


def compile_expr(e, order, digit_syms):
    var = {s: "v%d" % i for i, s in enumerate(order)}
    src = "lambda %s: %s" % (",".join(var[s] for s in order) or "_=0", _gen(e, var, digit_syms))
    return eval(src, {"_F": FUNCS, "_ws": _ws, "_div": _div, "_rem": _rem})


def compare(it, e1, e2, doms, cache):
    """(equal?, counterexample {sym: value} | None, assignments evaluated)."""
    names = {}
    ck = (_canon(e1, names), _canon(e2, names), tuple(doms[s] for s in sorted(names, key=names.get)))
    if ck in cache:
        ok, badvals = cache[ck]
        order = sorted(names, key=names.get)
        return ok, (dict(zip(order, badvals)) if badvals is not None else None), 0
    order = sorted(names, key=names.get)
    dig = _digit_abstraction(e1, e2, doms)
    spaces = []
    back = []  # how to turn an enumerated value back into a symbol value (for counterexamples)
    total = 1
    for s in order:
        if s in dig:
            img = {}
            for c in iset.elems(doms[s]):
                v = FUNCS["to_digit"](c, dig[s])
                img.setdefault(v, c)
            vals = sorted(img)
            spaces.append(vals)
            back.append(img)
        else:
            vals = list(iset.elems(doms[s], LIMIT))
            spaces.append(vals)
            back.append(None)
        total *= len(vals)
        if total > LIMIT:
            raise Undecided("expression comparison needs %d+ assignments" % total)
    f1 = compile_expr(e1, order, dig)
    f2 = compile_expr(e2, order, dig)
    bad = None
    n = 0
    for vals in itertools.product(*spaces):
        n += 1
        if f1(*vals) != f2(*vals):
            bad = vals
            break
    if bad is not None:
        badvals = tuple(b[v] if b is not None else v for v, b in zip(bad, back))
        cache[ck] = (False, badvals)
        return False, dict(zip(order, badvals)), n
    cache[ck] = (True, None)
    return True, None, n
