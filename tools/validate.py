import json, sys, glob
import jsonschema
m = json.load(open('/verif/MANIFEST.json'))
jsonschema.validate(m, json.load(open('/root/.vp/MANIFEST.schema.json')))
print('manifest valid:', len(m['checks']), 'checks')
es = json.load(open('/root/.vp/EVIDENCE.schema.json'))
for c in m['checks']:
    p = c['evidence_file']
    try:
        e = json.load(open(p))
        jsonschema.validate(e, es)
        assert e['level'] == c['level_claimed']['category'], (p, e['level'])
        print(' evidence ok', p)
    except FileNotFoundError:
        print(' evidence MISSING', p)
