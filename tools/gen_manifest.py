#!/usr/bin/env python3
"""Generate /verif/MANIFEST.json from the table below (kept in one place so it stays consistent)."""
import json, os

V = os.path.dirname(os.path.dirname(os.path.abspath(__file__)))

CHECKS = {
 "C01": ("model_checking", "abstract interpretation of MIR to a pushdown transducer, product with RFC 8259 reference transducer",
         "Language equality L(P(strict)) = L(R(strict)) of the parser model P, extracted by abstract interpretation from the monomorphic MIR of the current tree, with the hand-written RFC 8259 transducer R: joint exploration over the whole char range (interval partition), all inputs, nesting depth explored exactly to K (2 quick / 4 thorough; deeper levels behave like depth 2 because the explicit stack is only pushed/popped); plus C01.entry: each of the 13 public entry points is interpreted up to the call of the shared core and its input adaptor is interpreted per item shape. Not a proof of the behavioural statement: the byte-level UTF-8 decoder is covered only where noted.",
         "trusts: rustc MIR, the summary table (jsv/summ.py), the reference transducer, two private anchors (IndexMap bookkeeping, NumberBuf::new_unchecked). Byte-level UTF-8 well-formedness of parse_slice (dependency utf8-decode) is decided separately (see notes); iterator assumed fused.", "3/C01"),
 "C02": ("model_checking", "same product: output events of P compared with R per channel; extracted expressions compared by exhaustive evaluation",
         "On every accepting run of the P x R product the decoded characters (escape table, \\uXXXX accumulation compared with h3*4096+h2*256+h1*16+h0 over all 16^4 digit tuples, surrogate-pair formula compared over all 1024^2 pairs, raw characters), the number bytes, the literals and the append of every completed value/entry to the innermost open container are equal to the reference's.",
         "trusts NumberBuf::new_unchecked / SmallString::push / SmallVec::push to store what they are given; key lookup order relies on the index rules of C06.", "3/C02"),
 "C03": ("other", "call-graph SCCs over the monomorphic program + panic reachability with E2 discharge / reviewed allowlist",
         "No recursion cycle through crate code or drop glue of crate types reachable from the parsing and traversal roots (whole-program monomorphic call graph, drop glue included); every panic source (MIR asserts, panic entry points, contract-panicking std APIs) located in crate or sibling-crate code and reachable from those roots is discharged by the abstract interpreter (executed in the parser model under all four option valuations without a failing path) or is on a reviewed allowlist; every inter-read step of the model terminates.",
         "heap exhaustion excluded; std/smallvec/smallstr/hashbrown internals trusted; the recursive drop glue of Value is a recorded known finding.", "3/C03"),
 "C05": ("model_checking", "same product: fragment events (reserve/complete of code-map entries) of P compared with R; write-set rules",
         "Fragment events of P (entry reserved with (position, position, 0); completed exactly once with end offset and volume = entries_now - index; none left open at Ok, none reopened) equal those of R (begin at the first significant character, end right after the last, pre-order) on all explored runs; positions are read ordinals advanced only by the consumed character's recorded length, and every entry point records len_utf8.",
         "as C01; offsets compared as ordinals of reads (byte offsets by C01.entry's adaptor rule).", "3/C05"),
 "C07": ("model_checking", "same product: error variant, offset provenance and carried character compared with R on every rejecting transition",
         "Whenever R has no transition on the character (or EOF) just read, P returns Unexpected with the offset ordinal of exactly that character and that character (None at EOF) before consuming anything further; stream errors carry the offset of the failed pull; surrogate errors carry the held/offending units and a span inside the escapes.",
         "as C01; weak form for surrogate spans (start inside the escape(s), start <= end <= current offset).", "3/C07"),
 "C12": ("model_checking", "same product under the three lenient option valuations + option flow rule + preset evaluation",
         "P(o) = R(o) (language, outputs, code map events, errors) for the three lenient valuations, where R(o) relaxes exactly the surrogate rules of the enabled flags; the flags are read only inside the string scanner; Options::default/strict/flexible evaluate to the documented records.",
         "the configuration high-surrogate escape directly followed by another high-surrogate escape is unspecified and not constrained (printed as INFO).", "3/C12"),
 "C04": ("other", "abstract interpretation of the printer: per-character escape table vs RFC 8259/8785, emission token sequences, sizes/index lock-step, per-variant dispatch",
         "Clause-wise: (esc) for every char the text string_literal writes decodes back to it under RFC 8259 section 7 and contains no raw quote/backslash/control; (tokens) everything the emitters write is a JSON token, a string literal, the number's text, a child, or whitespace from Spaces/IndentBy/newline, for n = 0..N children, expanded and inline; (order) children/entries once each, forward, key with its own value; (lockstep) one sizes slot reserved/consumed per container at entry, children forward, top level sizes the same value and starts at 0; (dispatch) per Value variant. Whole-value equality of the re-parse is the composition with C01/C02, not mechanised.",
         "loops unrolled for n <= 3 (quick) / 5 (thorough) children with a uniformity argument; Display for json_number::Number trusted; summary table.", "3/C04"),
 "C08": ("other", "abstract interpretation: escape table as a total function on char vs RFC 8785; preset evaluation; delegation chain; printer model without whitespace tokens",
         "string_literal, extracted as a total function on char (interval partition, one abstract loop state), equals the RFC 8785 table for all 1,112,064 scalar values; Options::compact() evaluates to all spacing 0 / limits None; Display, to_string and From<Value> for String reach the printer with exactly that record and indentation 0, unconditionally; with that record the emission sequences contain no whitespace token; strings always go through string_literal and numbers through the number's Display.",
         "Display for json_number::Number prints the stored text (dependency); summary table.", "3/C08"),
 "C13": ("other", "abstract interpretation of pre_compute_*/print_* with a symbolic option record: emission sequences and linear width forms vs the documented layout",
         "For arrays and objects with n = 0..N children, every Limit variant and expanded/inline decisions: the emission token sequence equals the documented layout with field identity (array_* vs object_*, *_empty, indent depth); the pre-computed width equals, as a linear form over the option fields, key widths and child widths, the character count of the inline emission; expanded iff a child is expanded or the documented limit predicate holds; printed_string_size counts exactly the characters string_literal writes; Spaces/IndentBy/Indent write exactly n spaces / k units.",
         "loops unrolled for n <= 3 (quick) / 5 (thorough); two doc-silent layout rows follow today's behaviour; width additions assumed not to overflow.", "3/C13"),
 "C20": ("other", "abstract interpretation with a bit-vector domain; extracted path predicates and result expressions evaluated over the complete finite domain",
         "All KindSet operators in every operand combination (64x64, 64x6, 6x6), len/is_empty, iterator steps (lowest/highest kind, exact removal, size_hint), the three renderings for all 64 sets, the constants and Value::kind are equal to set semantics: every operation is extracted as a set of (path predicate, result expression) pairs over symbolic mask bits and those expressions are evaluated on the complete domain.",
         "summary table (count_ones, fmt entry points); the set semantics in the rule file.", "3/C20"),
}

NOT_YET = {}

def main():
    props = [json.loads(l) for l in open(os.path.join(V, "properties.jsonl"))]
    checks = []
    na = []
    for p in props:
        pid = p["id"]
        if pid in CHECKS:
            cat, tech, text, note, ref = CHECKS[pid]
            checks.append({
                "property_id": pid,
                "quick_cmd": "./check %s --tier quick" % pid,
                "thorough_cmd": "./check %s --tier thorough" % pid,
                "evidence_file": "/verif/evidence/%s.json" % pid,
                "replay_cmd_template": "./check %s --replay {path}" % pid,
                "engine": "jsv",
                "level_claimed": {"category": cat, "text": text, "design_ref": "DESIGN.md section " + ref},
                "level_note": note,
                "technique": "static analysis: " + tech,
            })
        else:
            na.append({"property_id": pid, "reason": NOT_YET.get(pid, "check not built yet in this revision (static rules planned in DESIGN.md section 3); not claimed")})
    m = {
        "version": 1,
        "setup_cmd": "cd /verif/driver && CARGO_NET_OFFLINE=true cargo +nightly build --release --offline",
        "hooks": {
            "guard": "none",
            "enable": "no hooks: the checks compile /repo's current tree unmodified through a rustc_private driver (RUSTC_WRAPPER) and read its MIR",
            "baseline_off_cmd": "cd /repo && cargo test --workspace --no-fail-fast --offline",
            "source_commits": [],
            "add_only": True,
        },
        "engines": [
            {"name": "jsv", "path": "/verif/jsv", "serves_properties": sorted(CHECKS),
             "kind_free_text": "static analysis: rustc_private driver dumps item facts and the monomorphic MIR program reachable from harness roots; Python rule engine: call-graph/CFG rules, abstract MIR interpreter, model extraction and comparison with reference models"},
        ],
        "checks": checks,
        "not_applicable": na,
        "notes": "All checks decide from /repo's current source (type-checked MIR), never by running json-syntax. Repairs of genuine defects are `fix:` commits in /repo listed in known_findings.json.",
    }
    json.dump(m, open(os.path.join(V, "MANIFEST.json"), "w"), indent=1)
    print("checks:", len(checks), "not_applicable:", len(na))

if __name__ == "__main__":
    main()
