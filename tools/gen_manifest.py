#!/usr/bin/env python3
"""Generate /verif/MANIFEST.json from the table below (kept in one place so it stays consistent)."""
import json, os

V = os.path.dirname(os.path.dirname(os.path.abspath(__file__)))

CHECKS = {
 "C01": ("model_checking", "abstract interpretation of MIR to a pushdown transducer, product with RFC 8259 reference transducer",
         "Language equality L(P(strict)) = L(R(strict)) of the parser model P, extracted by abstract interpretation from the monomorphic MIR of the current tree, with the hand-written RFC 8259 transducer R: joint exploration over the whole char range (interval partition), all inputs, nesting depth explored exactly to K (2 quick / 4 thorough; deeper levels behave like depth 2 because the explicit stack is only pushed/popped); plus C01.entry: each of the 13 public entry points is interpreted up to the call of the shared core (fresh parser, strict options or the caller's, Context::None), its character source is the whole input (str::chars of the argument, the caller's iterator, or the bytes of the argument), its input adaptor is interpreted per item shape, every returning path passes through the core and the core's verdict is returned; plus C01.utf8: the byte decoder behind parse_slice* is either core::str::from_utf8-based (data flow checked: characters of the longest well-formed prefix, then exactly one error item iff ill-formed; std contract trusted) or utf8_decode::Decoder, which is then modelled at byte level (all paths of next() extracted, partition of the byte tuples checked, result expressions evaluated over all admissible tuples and compared with Unicode Table 3-7). Not a proof of the behavioural statement.",
         "trusts: rustc MIR, the summary table (jsv/summ.py), the reference transducer, two private anchors (IndexMap bookkeeping, NumberBuf::new_unchecked), std's from_utf8 / valid_up_to / chars / chain contracts; nesting deeper than K is covered by the stack-discipline argument (push/pop/last only), not explored; iterator assumed fused.", "3/C01"),
 "C02": ("model_checking", "same product: output events of P compared with R per channel; extracted expressions compared by exhaustive evaluation",
         "On every accepting run of the P x R product the decoded characters (escape table, \\uXXXX accumulation compared with h3*4096+h2*256+h1*16+h0 over all 16^4 digit tuples, surrogate-pair formula compared over all 1024^2 pairs, raw characters), the number bytes, the literals and the append of every completed value/entry to the innermost open container are equal to the reference's.",
         "trusts NumberBuf::new_unchecked / SmallString::push / SmallVec::push to store what they are given; key lookup order relies on the index rules of C06.", "3/C02"),
 "C03": ("other", "call-graph SCCs over the monomorphic program + panic reachability with E2 discharge / reviewed allowlist",
         "No recursion cycle through crate code or drop glue of crate types reachable from the parsing and traversal roots (whole-program monomorphic call graph, drop glue included); every panic source (MIR asserts, panic entry points, contract-panicking std APIs) located in crate or sibling-crate code and reachable from those roots is discharged by the abstract interpreter (executed in the parser model under all four option valuations without a failing path) or is on a reviewed allowlist; every inter-read step of the model terminates.",
         "heap exhaustion excluded; std/smallvec/smallstr/hashbrown internals trusted; the recursive drop glue of Value is a recorded known finding.", "3/C03"),
 "C05": ("model_checking", "same product: fragment events (reserve/complete of code-map entries) of P compared with R; write-set rules",
         "Fragment events of P (entry reserved with (position, position, 0); completed exactly once with end offset and volume = entries_now - index; none left open at Ok, none reopened) equal those of R (begin at the first significant character, end right after the last, pre-order) on all explored runs; positions are read ordinals advanced only by the consumed character's recorded length; C05.entry: every entry point starts the parser at offset 0, its adaptors record len_utf8 for every character, and the code map returned is the parser's.",
         "as C01; offsets compared as ordinals of reads (byte offsets by C01.entry's adaptor rule).", "3/C05"),
 "C07": ("model_checking", "same product: error variant, offset provenance and carried character compared with R on every rejecting transition",
         "Whenever R has no transition on the character (or EOF) just read, P returns Unexpected with the offset ordinal of exactly that character and that character (None at EOF) before consuming anything further; stream errors carry the offset of the failed pull; surrogate errors carry the held/offending units and a span inside the escapes; C07.entry: every entry point returns the core's error unchanged (Stream(p,_) -> InvalidUtf8(p) on the byte paths), has no verdict of its own (all returning paths pass through the core), starts at offset 0 and records len_utf8 per character, so offsets are byte offsets on character boundaries.",
         "as C01; weak form for surrogate spans (start inside the escape(s), start <= end <= current offset).", "3/C07"),
 "C12": ("model_checking", "same product under the three lenient option valuations + option flow rule + preset evaluation",
         "P(o) = R(o) (language, outputs, code map events, errors) for the three lenient valuations, where R(o) relaxes exactly the surrogate rules of the enabled flags — judged relative to the strict valuation: a deviation from the reference that the strict parser shows under the same key is left to C01/C02/C05/C07, only deviations specific to a lenient valuation are reported; the flags are read only inside the string scanner; Options::default/strict/flexible evaluate to the documented records; C12.entry: every `_with` entry point hands its options unchanged to the parser and reaches the core on one path per input shape with the whole input as character source, whatever the flags are.",
         "the configuration high-surrogate escape directly followed by another high-surrogate escape is unspecified and not constrained (printed as INFO).", "3/C12"),
 "C04": ("other", "abstract interpretation of the printer: per-character escape table vs RFC 8259/8785, emission token sequences, sizes/index lock-step, per-variant dispatch",
         "Clause-wise: (esc) for every char the text string_literal writes is a valid RFC 8259 string body that decodes back to it and contains no raw quote/backslash/control (which escapes are chosen is C08's business); (tokens) everything the emitters write is a JSON token, a string literal, the number's text, a child, or whitespace from Spaces/IndentBy/newline, for n = 0..N children, expanded and inline; (order) the non-whitespace tokens written equal the document's (children/entries once each, forward, key with its own value; layout is C13's business); (lockstep) one sizes slot reserved/consumed per container at entry, children forward, top level sizes the same value and starts at 0; (dispatch) per Value variant. Whole-value equality of the re-parse is the composition with C01/C02, not mechanised.",
         "loops unrolled for n <= 3 (quick) / 5 (thorough) children with a uniformity argument; Display for json_number::Number trusted; summary table.", "3/C04"),
 "C08": ("other", "abstract interpretation: escape table as a total function on char vs RFC 8785; preset evaluation; delegation chain; printer model without whitespace tokens",
         "string_literal, extracted as a total function on char (interval partition, one abstract loop state), equals the RFC 8785 table for all 1,112,064 scalar values; Options::compact() evaluates to all spacing 0 / limits None; Display, to_string and From<Value> for String reach the printer with exactly that record and indentation 0, unconditionally; with that record the emission sequences contain no whitespace token and the non-whitespace tokens of the inline scenarios equal the document's; strings always go through string_literal and numbers through the number's Display.",
         "Display for json_number::Number prints the stored text (dependency); summary table.", "3/C08"),
 "C13": ("other", "abstract interpretation of pre_compute_*/print_* with a symbolic option record: emission sequences and linear width forms vs the documented layout",
         "For arrays and objects with n = 0..N children, every Limit variant and expanded/inline decisions: the emission token sequence equals the documented layout with field identity (array_* vs object_*, *_empty, indent depth); the pre-computed width equals, as a linear form over the option fields, key widths and child widths, the character count of the inline emission; expanded iff a child is expanded or the documented limit predicate holds; printed_string_size counts exactly the characters string_literal writes; Spaces/IndentBy/Indent write exactly n spaces / k units.",
         "loops unrolled for n <= 3 (quick) / 5 (thorough); two doc-silent layout rows follow today's behaviour; width additions assumed not to overflow.", "3/C13"),
 "C20": ("other", "abstract interpretation with a bit-vector domain; extracted path predicates and result expressions evaluated over the complete finite domain",
         "All KindSet operators in every operand combination (64x64, 64x6, 6x6), len/is_empty, iterator steps (lowest/highest kind, exact removal, size_hint), the three renderings for all 64 sets, the constants and Value::kind are equal to set semantics: every operation is extracted as a set of (path predicate, result expression) pairs over symbolic mask bits and those expressions are evaluated on the complete domain.",
         "summary table (count_ones, fmt entry points); the set semantics in the rule file.", "3/C20"),
 "C06": ("other", "CFG dominance / call-site / provenance rules over the MIR + abstract interpretation of the index buckets over all order configurations around the pivot",
         "Necessary structural clauses: entries/indexes private and no public signature exposes &mut Entry / &mut Key / &mut Vec<Entry>; the functions that structurally modify the entry list are exactly the reviewed set; per writer the index maintenance calls exist, in the right dominance order, with the right position (push_entry, push_entry_front, remove_at, sort, canonicalize_with, from_vec, insert); Indexes::shift_down/shift_up/insert/remove interpreted on every order configuration of (representative, others, argument) around the pivot; removal iterators have Drop impls that exhaust them (last()/count()/for_each()/fold() or a loop around next(), not a single next()) and remove through remove_at only; Object::sort's comparator orders by key and breaks ties by value (its documentation).",
         "NOT decided: equivalence with the ordered-list model over all operation histories; hash/equality coherence of Q, Key and hashbrown. Positions are only compared with each other, so the finitely many order configurations are representative.", "3/C06"),
 "C09": ("other", "abstract interpretation of canonicalize_with per variant / entry count + comparator call-site rule + shared string table and printer rules",
         "Coverage (numbers replaced unconditionally by NumberBuf::from_number(n.canonical_with(buffer)); every array item and entry value canonicalised with the same buffer; members sorted after the children on every path), ordering (the sort's comparator calls Iterator::cmp over encode_utf16() of both keys and no string/entry comparison of its own), strings (RFC 8785 table, total on char) and no-whitespace (compact record, printer model).",
         "NOT decided: the numeric rendering (nearest double, ECMAScript shortest form) is computed by json-number/lexical/ryu-js.", "3/C09"),
 "C10": ("other", "C06.pair rows of the sorting writers + C09 coverage/comparator rules + write-set rule",
         "Necessary structural clauses: after the in-place sort the key index is cleared and rebuilt for every position (C06.pair rows sort / canonicalize_with only: every sort dominates the clear, the clear every re-insert); children canonicalised before the parent is sorted on every path; canonicalisation assigns through `self` only the Number payload; the comparator is the position-independent total order on UTF-16 key sequences with the value as tie-break.",
         "NOT decided: idempotence and spelling-independence of the numeric step (dependencies); whitespace/escape independence is C01/C02.", "3/C10"),
 "C11": ("other", "abstract interpretation of one step of each mapped iterator / fragment lookup / conversion, linear forms over offset and VOL[.]",
         "One next() of array::IterMapped, object::IterMapped and the four keyed Mapped* iterators (yields (o), (o, o+1, o+2) or value@o+2; steps by VOL[o] resp. 2+VOL[o+2], once per skipped entry; constructors start at offset+1); one level of Value/Entry/Object::get_fragment and get_array_fragment (0 -> self, 1 -> key, n -> value(n-2), remainder threaded in order, past-the-end distance); Traverse/SubFragments order; TryFromJson reports mismatches at the incoming offset, Option/Box pass it through, Vec/BTreeMap convert elements at mapped offsets.",
         "correctness on parsed documents additionally needs C05 (the parser writes exactly this layout); offset additions assumed not to overflow.", "3/C11"),
 "C14": ("other", "field-discipline + delegation-shape interpretation of the Object impls; derive facts from the item table",
         "PartialEq/PartialOrd/Ord/Hash for Object touch only `entries` of their operands and delegate, on a single unconditional path, to the same method of Vec<Entry> (partial_cmp = Some(cmp)), calling nothing else; Value and Entry carry compiler-derived PartialEq/Eq/PartialOrd/Ord/Hash/Clone; Object: Clone is derived and Eq a marker.",
         "coherence of the dependency types' Eq/Ord/Hash (NumberBuf, SmallString) trusted; derived lexicographic impls are mutually coherent given coherent components.", "3/C14"),
 "C15": ("other", "abstract interpretation of Object::unordered_eq on every small configuration (exact, hash lookup replaced by key positions) + per-variant-pair interpretation of Value::unordered_eq + call-site rules for Vec + interpretation of Indexes::is_redundant",
         "C15.match: Object::unordered_eq, interpreted from its MIR on every pair of abstract objects with up to 3 (quick) / 4 (thorough) entries over two keys and two value tokens (up to renaming; equal lengths and lengths differing by one; the hash lookup replaced by the positions of the key, the nested comparison by token equality), returns exactly equality of the multisets of (key, value) entries; C15.dispatch: all 36 variant pairs (scalars ==, arrays Vec::unordered_eq, objects Object::unordered_eq, mixed false); C15.vec: Vec::unordered_eq compares lengths and elements position-wise with unordered_eq; C15.redundant: a key is redundant iff it has more than one position and contains_duplicate_keys scans every bucket; C15.index = C06.pair + C06.shift + C06.sorted (unordered_eq finds candidates through the key index, so the writers must keep it exact).",
         "bounded: objects larger than 4 entries / more than two distinct keys or values are covered only by the uniformity of the procedure (it compares keys and values for equality only); nested values are compared through the same function (induction on depth is an argument, not mechanised); hash/equality coherence of keys trusted.", "3/C15"),
 "C18": ("other", "per-variant interpretation of both conversions with the number/string conversions as recorded cut points + panic reachability",
         "Both conversions map every variant to the same-named variant on a single unconditional path; numbers go through the number crate's From impl only, strings through From/into_string, containers through into_iter/map/collect with recursion into every element, objects rebuilt through the push family; every panic source in crate/sibling-crate code reachable from the four conversion entry points is discharged, allowlisted or a recorded known finding.",
         "NOT decided: numeric equality of converted numbers (json-number converts through text / f64). The unwrap of from_f64 in json-number is a known finding.", "3/C18"),
 "C16": ("other", "delegation-shape interpretation of every Serializer / KeySerializer / compound serializer / Deserializer method against a probe visitor",
         "Necessary structural clauses, one abstract step per method: (ser) each Serializer method builds the JSON shape serde_json's data model prescribes (unit/none -> null, bool, integers and floats through the number crate's same-typed conversion with non-finite floats -> null, char/str -> string, bytes -> array of numbers, newtype transparent, unit variant -> its name, other variants -> single-entry object keyed by the variant name); (key) the key serializer turns strings, chars, integers and unit variants into that text and rejects the rest; (compound) elements/entries appended in order; (de) for every shape the serializer produces the matching deserialize_* method drives the (recorded) probe visitor with the right visit_* call and hands out elements/entries in order; (mapkey) integer-like map keys are parsed at the method's own integer type with a string fallback; (enum) string -> unit variant, single-entry object -> variant + payload.",
         "NOT decided: the round trip for arbitrary user types (quantifies over serde derive output and user impls) and bit-exactness of floats (number crate). serde's data model and derive trusted.", "3/C16"),
 "C17": ("other", "delegation-shape interpretation of Serialize for Value/Object, the map-serializer handshake, visit_map and ValueVisitor; constants decoded from MIR",
         "Necessary structural clauses: (ser) Serialize for Value/Object maps each variant to the matching serializer call with items and entries in order and numbers delegated to the number crate; (serializer) the Serializer methods that this drives (unit, bool, i64, u64, f64, str, seq) build the matching variant from the argument itself at its own type; (token) the private arbitrary-precision token is the same string constant in json-syntax's serializer, its map visitor and json-number's Serialize; (handshake) the map serializer switches to number mode exactly on an empty object + token key and yields the number at end; (dedup) the map serializer and both visit_map implementations build objects with Object::insert, so duplicate keys collapse to the first position with the last value; (de) ValueVisitor maps every visit_* to the matching variant and collects sequences in order; Value as a Deserializer is C16.de.",
         "NOT decided: which number spellings survive (json-number decides the encoding per lexical class; the two failing classes named in the property live in that dependency) and numeric equality after conversion.", "3/C17"),
 "C19": ("translation_validation", "token-tree rules over macro_rules! json + translation validation of compiled expansions by abstract interpretation + delegation shapes of the From impls",
         "For every json! invocation of a bounded-exhaustive corpus (all arrays/objects of up to 2 (quick) / 3 (thorough) members over the leaf alphabet {null,true,false,0,-1,1.5,\"a\",[],{}} nested to depth 1 / 2, with and without trailing comma, literal / parenthesised / expression keys, plus seeded random documents up to 5 members and depth 4), compiled against the current tree but never run, the MIR of the expansion interprets to exactly the constructor tree of the written document: same variants, same scalars (integer at i32 / float bits / string text), members in order, none dropped or duplicated, Object::from_vec indexing every position. Independently of the corpus, every arm of the macro definition keeps the accumulator `$($elems,)*`, appends the new element last, passes the rest on unchanged, and the arm order makes keyword/literal/array/object arms win over the expression arms; From<u8..i64|bool|&str|String> for Value hand their argument unchanged to the same-typed conversion.",
         "rustc's macro expander and MIR construction trusted; NumberBuf::from(integer)/try_from(f64) and SmallString::from(&str) opaque; documents outside the corpus are covered only by the arm rules.", "3/C19"),
}

NOT_YET = {}

def main():
    props = [json.loads(l) for l in open(os.path.join(V, "properties.jsonl"))]
    checks = []
    na = []
    for p in props:
        pid = p["id"]
        if pid in CHECKS:
            cat, tech, text, note, ref = CHECKS[pid]
            checks.append({
                "property_id": pid,
                "quick_cmd": "./check %s --tier quick" % pid,
                "thorough_cmd": "./check %s --tier thorough" % pid,
                "evidence_file": "/verif/evidence/%s.json" % pid,
                "replay_cmd_template": "./check %s --replay {path}" % pid,
                "engine": "jsv",
                "level_claimed": {"category": cat, "text": text, "design_ref": "DESIGN.md section " + ref},
                "level_note": note,
                "technique": "static analysis: " + tech,
            })
        else:
            na.append({"property_id": pid, "reason": NOT_YET.get(pid, "check not built yet in this revision (static rules planned in DESIGN.md section 3); not claimed")})
    m = {
        "version": 1,
        "setup_cmd": "cd /verif/driver && CARGO_NET_OFFLINE=true cargo +nightly build --release --offline",
        "hooks": {
            "guard": "none",
            "enable": "no hooks: the checks compile /repo's current tree unmodified through a rustc_private driver (RUSTC_WRAPPER) and read its MIR",
            "baseline_off_cmd": "cd /repo && cargo test --workspace --no-fail-fast --offline",
            "source_commits": [],
            "add_only": True,
        },
        "engines": [
            {"name": "jsv", "path": "/verif/jsv", "serves_properties": sorted(CHECKS),
             "kind_free_text": "static analysis: rustc_private driver dumps item facts and the monomorphic MIR program reachable from harness roots; Python rule engine: call-graph/CFG rules, abstract MIR interpreter, model extraction and comparison with reference models"},
        ],
        "checks": checks,
        "not_applicable": na,
        "notes": "All checks decide from /repo's current source (type-checked MIR), never by running json-syntax. Repairs of genuine defects are `fix:` commits in /repo listed in known_findings.json.",
    }
    json.dump(m, open(os.path.join(V, "MANIFEST.json"), "w"), indent=1)
    print("checks:", len(checks), "not_applicable:", len(na))

if __name__ == "__main__":
    main()
